#!/venv/bin/python
"""Confirm a seeded change and run the property's check against it.

usage: tools/verify_seed.py Cxx <patch.diff> <demo.py> <name> [--skip-suite] [--needs TEXT]

Steps (all in a scratch worktree of /repo outside /repo and /verif, removed afterwards):
  1. demo on the unchanged tree must exit 0;
  2. patch applies; demo on the changed tree must exit non-zero;
  3. the existing test suite must still pass on the changed tree (full run unless --skip-suite);
  4. `FAV_REPO=<worktree> ./check Cxx --tier quick` is run and its verdict recorded.
Writes seeded/<name>/{patch.diff, demo.py, meta.json}.
"""
import json
import os
import re
import shutil
import subprocess
import sys
import time

ROOT = os.path.dirname(os.path.dirname(os.path.abspath(__file__)))


def sh(cmd, cwd=None, env=None, timeout=None):
    p = subprocess.run(cmd, shell=True, cwd=cwd, env=env, capture_output=True, text=True, timeout=timeout)
    return p.returncode, p.stdout + p.stderr


def main():
    prop, patch, demo, name = sys.argv[1:5]
    skip_suite = "--skip-suite" in sys.argv
    needs = sys.argv[sys.argv.index("--needs") + 1] if "--needs" in sys.argv else ""
    wt = f"/tmp/vs_{name}"
    sh(f"git -C /repo worktree remove --force {wt}")
    rc, out = sh(f"git -C /repo worktree add --detach {wt} HEAD")
    assert rc == 0, out
    meta = dict(property=prop, name=name, needs=needs, repo_head=sh("git -C /repo rev-parse --short HEAD")[1].strip(), ran=[])
    env = dict(os.environ, PYTHONPATH=wt, PATH="/venv/bin:" + os.environ["PATH"], PYTHONDONTWRITEBYTECODE="1")
    # run the demonstration from a neutral directory: a demo.py sitting next to a `functional_algorithms` package
    # (the sub-agent's own worktree) would import that one instead of the tree under test
    ddir = f"/tmp/vs_{name}_demo"
    shutil.rmtree(ddir, ignore_errors=True)
    os.makedirs(ddir)
    shutil.copy(demo, os.path.join(ddir, "demo.py"))
    demo_src, demo = demo, os.path.join(ddir, "demo.py")
    try:
        rc0, out0 = sh(f"/venv/bin/python {demo}", cwd=wt, env=env, timeout=1800)
        meta["demo_unchanged_rc"] = rc0
        meta["ran"].append(f"PYTHONPATH=<clean worktree> python demo.py -> rc {rc0}")
        rc, out = sh(f"git apply {patch}", cwd=wt)
        meta["patch_applies"] = rc == 0
        if rc != 0:
            meta["error"] = out[-800:]
            return meta
        rc1, out1 = sh(f"/venv/bin/python {demo}", cwd=wt, env=env, timeout=1800)
        meta["demo_changed_rc"] = rc1
        meta["demo_changed_output"] = out1[-1500:]
        meta["ran"].append(f"git apply patch.diff; PYTHONPATH=<changed worktree> python demo.py -> rc {rc1}")
        if not skip_suite:
            t0 = time.time()
            rcs, outs = sh("/venv/bin/python -m pytest -q -p no:cacheprovider --timeout=900 -n 6 functional_algorithms", cwd=wt, env=env, timeout=7200)
            tail = outs.strip().splitlines()[-1] if outs.strip() else ""
            meta["suite_rc"] = rcs
            meta["suite_summary"] = tail
            meta["suite_failed"] = re.findall(r"^FAILED (\S+)", outs, re.M)[:20]
            meta["ran"].append(f"pytest -q -n 6 functional_algorithms (changed worktree) -> rc {rcs}: {tail} [{time.time()-t0:.0f}s]")
        t0 = time.time()
        cenv = dict(os.environ, FAV_REPO=wt)
        rcc, outc = sh(f"./check {prop} --tier quick", cwd=ROOT, env=cenv, timeout=7200)
        lines = [l for l in outc.splitlines() if l.startswith(("VIOLATION", "KNOWN-FINDING", "[", "INFRA"))]
        meta["check_rc"] = rcc
        meta["check_lines"] = [l[:300] for l in lines if not l.startswith("KNOWN-FINDING")][:12]
        viol = []
        for l in lines:
            m = re.match(r"VIOLATION property=\S+ replay=(\S+)(.*)", l)
            if m:
                try:
                    r = json.load(open(os.path.join(ROOT, m.group(1))))
                    viol.append(dict(signature=r.get("signature"), what=str(r.get("what"))[:300], no_failing_input="no-failing-input-found" in m.group(2)))
                except Exception:
                    pass
        meta["check_violations"] = viol[:12]
        meta["caught"] = rcc == 1
        meta["caught_with_failing_input"] = any(not v["no_failing_input"] for v in viol)
        meta["ran"].append(f"FAV_REPO=<changed worktree> ./check {prop} --tier quick -> rc {rcc} [{time.time()-t0:.0f}s]")
        return meta
    finally:
        d = os.path.join(ROOT, "seeded", name)
        os.makedirs(d, exist_ok=True)
        shutil.copy(patch, os.path.join(d, "patch.diff"))
        shutil.copy(demo, os.path.join(d, "demo.py"))
        shutil.rmtree(ddir, ignore_errors=True)
        with open(os.path.join(d, "meta.json"), "w") as f:
            json.dump(meta, f, indent=1)
        sh(f"git -C /repo worktree remove --force {wt}")
        sh("git -C /repo worktree prune")
        print(json.dumps({k: meta.get(k) for k in ("name", "demo_unchanged_rc", "demo_changed_rc", "suite_summary", "check_rc", "caught", "caught_with_failing_input")}))


if __name__ == "__main__":
    main()
