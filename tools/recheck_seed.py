#!/venv/bin/python
"""Re-run only the property's check against a kept seed (after the check was strengthened).

usage: tools/recheck_seed.py <name> [Cxx ...]     (default property: the one in seeded/<name>/meta.json)
Keeps the original verdict under `first_verdict` and records the new one; the demonstration and the
test-suite results of the first verification are kept as they are.
"""
import json
import os
import re
import subprocess
import sys
import time

ROOT = os.path.dirname(os.path.dirname(os.path.abspath(__file__)))


def sh(cmd, cwd=None, env=None, timeout=None):
    p = subprocess.run(cmd, shell=True, cwd=cwd, env=env, capture_output=True, text=True, timeout=timeout)
    return p.returncode, p.stdout + p.stderr


def main():
    name = sys.argv[1]
    d = os.path.join(ROOT, "seeded", name)
    meta = json.load(open(os.path.join(d, "meta.json")))
    props = sys.argv[2:] or [meta["property"]]
    wt = f"/tmp/vs_{name}_re"
    sh(f"git -C /repo worktree remove --force {wt}")
    rc, out = sh(f"git -C /repo worktree add --detach {wt} HEAD")
    assert rc == 0, out
    try:
        rc, out = sh(f"git apply {os.path.join(d, 'patch.diff')}", cwd=wt)
        if rc != 0:
            # the surrounding lines changed since the seed was made (later fix: commits in /repo): apply with fuzz
            rc, out = sh(f"patch -p1 --fuzz=3 < {os.path.join(d, 'patch.diff')}", cwd=wt)
            meta["patch_applied_with_fuzz"] = True
        assert rc == 0, out
        for prop in props:
            t0 = time.time()
            rcc, outc = sh(f"./check {prop} --tier quick", cwd=ROOT, env=dict(os.environ, FAV_REPO=wt), timeout=7200)
            lines = [l for l in outc.splitlines() if l.startswith(("VIOLATION", "[", "INFRA"))]
            viol = []
            for l in lines:
                m = re.match(r"VIOLATION property=\S+ replay=(\S+)(.*)", l)
                if m:
                    try:
                        r = json.load(open(os.path.join(ROOT, m.group(1))))
                        viol.append(dict(signature=r.get("signature"), what=str(r.get("what"))[:300], no_failing_input="no-failing-input-found" in m.group(2)))
                    except Exception:
                        pass
            rec = dict(property=prop, check_rc=rcc, check_lines=[l[:300] for l in lines][:12], check_violations=viol[:12], caught=rcc == 1,
                       caught_with_failing_input=any(not v["no_failing_input"] for v in viol), repo_head=sh("git -C /repo rev-parse --short HEAD")[1].strip(),
                       verif_head=sh("git rev-parse --short HEAD", cwd=ROOT)[1].strip())
            if prop == meta["property"]:
                meta["last_recheck"] = dict(repo_head=rec["repo_head"], verif_head=rec["verif_head"], caught=rec["caught"], with_input=rec["caught_with_failing_input"])
                if "first_verdict" not in meta:
                    meta["first_verdict"] = {k: meta.get(k) for k in ("check_rc", "check_lines", "check_violations", "caught", "caught_with_failing_input")}
                meta.update({k: rec[k] for k in ("check_rc", "check_lines", "check_violations", "caught", "caught_with_failing_input")})
            else:
                meta.setdefault("other_checks", {})[prop] = rec
            meta["ran"].append(f"recheck: FAV_REPO=<changed worktree> ./check {prop} --tier quick -> rc {rcc} [{time.time()-t0:.0f}s]")
            print(json.dumps(dict(name=name, property=prop, caught=rec["caught"], with_input=rec["caught_with_failing_input"])))
    finally:
        with open(os.path.join(d, "meta.json"), "w") as f:
            json.dump(meta, f, indent=1)
        sh(f"git -C /repo worktree remove --force {wt}")
        sh("git -C /repo worktree prune")


if __name__ == "__main__":
    main()
