#!/bin/sh
# re-run every kept seed against the current /repo HEAD and the current checks (properties in parallel, seeds of one property in sequence)
cd "$(dirname "$0")/.." || exit 2
mkdir -p .work/recheck
for P in C01 C02 C03 C04 C05 C06 C07 C08 C09 C10 C11 C12 C13 C14 C15 C16 C17 C18 C19; do
  (
    for d in seeded/${P}_*; do
      n=$(basename "$d")
      /venv/bin/python tools/recheck_seed.py "$n" > .work/recheck/$n.log 2>&1
      echo "$n $(tail -1 .work/recheck/$n.log | cut -c1-160)" >> .work/recheck/SUMMARY.txt
    done
  ) &
  # at most 5 properties at a time
  while [ "$(jobs -r | wc -l)" -ge 5 ]; do sleep 5; done
done
wait
