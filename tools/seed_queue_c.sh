#!/bin/sh
# usage: tools/seed_queue_b.sh C06 C09 ...   (verifies the third-round seeds /tmp/seedC_<P>/seed{1,2}.diff as <P>_3, <P>_4)
cd "$(dirname "$0")/.." || exit 2
for P in "$@"; do
  for n in 1 2; do
    m=$((n + 2))
    if [ -f /tmp/seedC_$P/seed$n.diff ] && [ -f /tmp/seedC_$P/demo$n.py ]; then
      /venv/bin/python tools/verify_seed.py $P /tmp/seedC_$P/seed$n.diff /tmp/seedC_$P/demo$n.py ${P}_$m > .work/seedlogs/${P}_$m.log 2>&1
    fi
  done
done
