#!/venv/bin/python
"""Regenerate the table of seeded changes in DESIGN.md (between the SEED-TABLE markers) from seeded/*/meta.json."""
import glob
import json
import os
import re

ROOT = os.path.dirname(os.path.dirname(os.path.abspath(__file__)))


def first_line(path):
    """what the change does: first changed line pair of the patch"""
    minus, plus, fn = [], [], ""
    for l in open(path):
        if l.startswith("+++ b/"):
            fn = l[6:].strip()
        elif l.startswith("-") and not l.startswith("---"):
            minus.append(l[1:].strip())
        elif l.startswith("+") and not l.startswith("+++"):
            plus.append(l[1:].strip())
    a = (minus[0] if minus else "")[:70]
    b = (plus[0] if plus else "(removed)")[:70]
    return fn.replace("functional_algorithms/", ""), a, b


def main():
    rows = []
    for d in sorted(glob.glob(os.path.join(ROOT, "seeded", "*"))):
        mp = os.path.join(d, "meta.json")
        if not os.path.exists(mp):
            continue
        m = json.load(open(mp))
        fn, a, b = first_line(os.path.join(d, "patch.diff"))
        ok = m.get("demo_unchanged_rc") == 0 and m.get("demo_changed_rc") not in (0, None) and m.get("suite_rc", 0) == 0
        verdict = "caught, failing input replayed" if m.get("caught_with_failing_input") else ("caught (no-failing-input-found)" if m.get("caught") else "MISSED")
        if m.get("first_verdict") and not m["first_verdict"].get("caught"):
            verdict += " — after the check was strengthened (first run: missed)"
        sigs = "; ".join(sorted({(v.get("signature") or "")[:70] for v in m.get("check_violations", [])})[:2])
        others = "; ".join(f"{k}: {'caught' if v.get('caught') else 'not caught'}" for k, v in (m.get("other_checks") or {}).items())
        rows.append(f"| {os.path.basename(d)} | {m['property']} | `{fn}`: `{a}` → `{b}` | {'yes' if ok else 'NO'} | {verdict}{(' (' + others + ')') if others else ''} | {sigs} |")
    table = ["| seed | property | change (first changed line) | confirmed (demo 0/≠0, suite passes) | verdict of `./check <property> --tier quick` | cause signature(s) reported |",
             "|---|---|---|---|---|---|"] + rows
    p = os.path.join(ROOT, "DESIGN.md")
    s = open(p).read()
    block = "<!-- SEED-TABLE-BEGIN -->\n" + "\n".join(table) + "\n<!-- SEED-TABLE-END -->"
    if "<!-- SEED-TABLE-BEGIN -->" in s:
        s = re.sub(r"<!-- SEED-TABLE-BEGIN -->.*?<!-- SEED-TABLE-END -->", lambda _: block, s, flags=re.S)
    else:
        s = s.rstrip("\n") + "\n\n" + block + "\n"
    open(p, "w").write(s)
    print(f"{len(rows)} seeds")


if __name__ == "__main__":
    main()
