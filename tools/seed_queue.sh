#!/bin/sh
# usage: tools/seed_queue.sh C14 C16 ...   (verifies /tmp/seed_<P>/seed{1,2}.diff sequentially)
cd "$(dirname "$0")/.." || exit 2
for P in "$@"; do
  for n in 1 2; do
    if [ -f /tmp/seed_$P/seed$n.diff ] && [ -f /tmp/seed_$P/demo$n.py ]; then
      /venv/bin/python tools/verify_seed.py $P /tmp/seed_$P/seed$n.diff /tmp/seed_$P/demo$n.py ${P}_$n > .work/seedlogs/${P}_$n.log 2>&1
    fi
  done
done
