#!/venv/bin/python
"""Systematic first-order mutants of the code each property is anchored in (a complement to the hand-made seeds under seeded/).

  tools/mutate.py gen [--per-prop N] [--seed S]     write .work/mutants/plan.jsonl
  tools/mutate.py run [--workers K] [--props C10,C11] run the plan: each mutant in a scratch worktree /tmp/mut_w<k> of /repo
                                                    (never /repo itself): import smoke test, the test files related to the
                                                    mutated source file, then `FAV_REPO=<worktree> ./check <P> --tier quick`
  tools/mutate.py report                            table of results (.work/mutants/results.jsonl)

A mutant that the related tests kill is of no interest (the brief asks for changes the tests do not see).  A mutant that
survives the tests and that the check passes is either equivalent with respect to the property or a MISS: those are listed
for manual triage; nothing here decides that by itself.
"""
import argparse
import io
import json
import os
import random
import re
import subprocess
import sys
import threading
import time
import tokenize

ROOT = os.path.dirname(os.path.dirname(os.path.abspath(__file__)))
OUT = os.path.join(ROOT, ".work", "mutants")
REPO = "/repo"

TESTS = {
    "functional_algorithms/floating_point_algorithms.py": ["test_floating_point_algorithms"],
    "functional_algorithms/algorithms.py": ["test_algorithms", "test_functional_algorithms"],
    "functional_algorithms/apmath.py": ["test_apmath", "test_apmath_algorithms"],
    "functional_algorithms/apmath_algorithms.py": ["test_apmath_algorithms"],
    "functional_algorithms/utils.py": ["test_utils", "test_floating_point_algorithms"],
    "functional_algorithms/polynomial.py": ["test_polynomial"],
    "functional_algorithms/fpu.py": ["test_fpu"],
}
CORE_TESTS = ["test_expr", "test_context", "test_api", "test_restrict", "test_functional_algorithms"]

SWAP_OP = {"+": "-", "-": "+", "*": "/", "<": "<=", "<=": "<", ">": ">=", ">=": ">", "==": "!=", "!=": "==", "//": "/", "%": "//",
           "<<": ">>", ">>": "<<", "&": "|", "|": "&"}
SWAP_NAME = {"and": "or", "or": "and", "True": "False", "False": "True", "min": "max", "max": "min", "is_negative": "is_positive",
             "is_positive": "is_negative", "real": "imag", "imag": "real", "floor": "ceil", "ceil": "floor"}


def parse_where(where):
    """'functional_algorithms/x.py:10-20,30-40' -> (file, [(10,20),(30,40)])"""
    out = []
    for part in re.split(r",\s*(?=[A-Za-z_/])", where):
        m = re.match(r"\s*([\w/\.]+\.py)(?::([\d\-,\s]+))?", part)
        if not m:
            continue
        f = m.group(1)
        if not f.startswith("functional_algorithms/"):
            f = "functional_algorithms/" + f
        rngs = []
        if m.group(2):
            for r in m.group(2).split(","):
                r = r.strip()
                if not r:
                    continue
                if "-" in r:
                    a, b = r.split("-")
                    rngs.append((int(a), int(b)))
                else:
                    rngs.append((int(r), int(r)))
        out.append((f, rngs))
    return out


def candidates(path, rngs):
    src = open(os.path.join(REPO, path)).read()
    toks = list(tokenize.generate_tokens(io.StringIO(src).readline))
    res = []
    prev_sig = None
    depth_decor = False
    for i, t in enumerate(toks):
        line = t.start[0]
        if rngs and not any(a <= line <= b for a, b in rngs):
            prev_sig = t if t.type not in (tokenize.NL, tokenize.NEWLINE, tokenize.COMMENT, tokenize.INDENT, tokenize.DEDENT) else prev_sig
            continue
        if t.type == tokenize.OP and t.string in SWAP_OP:
            # skip '*' / '**' in signatures and unpacking, '-' '>' of annotations ('->' is one token)
            if t.string == "*" and (prev_sig is None or prev_sig.string in ("(", ",", "=", "[")):
                pass
            else:
                res.append((line, t.start[1], t.string, SWAP_OP[t.string], "op"))
        elif t.type == tokenize.NAME and t.string in SWAP_NAME:
            # attribute definitions (def real(...)) are not call sites
            if not (prev_sig is not None and prev_sig.string == "def"):
                res.append((line, t.start[1], t.string, SWAP_NAME[t.string], "name"))
        elif t.type == tokenize.NAME and t.string == "not":
            res.append((line, t.start[1], "not", "", "dropnot"))
        elif t.type == tokenize.NUMBER:
            s = t.string
            if re.fullmatch(r"\d+", s):
                n = int(s)
                res.append((line, t.start[1], s, str(n + 1), "int+1"))
                if n > 0:
                    res.append((line, t.start[1], s, str(n - 1), "int-1"))
            elif re.fullmatch(r"\d*\.\d+(e[+-]?\d+)?|\d+\.\d*(e[+-]?\d+)?|\d+e[+-]?\d+", s, re.I):
                try:
                    v = float(s)
                    res.append((line, t.start[1], s, repr(v * 2), "float*2"))
                    res.append((line, t.start[1], s, repr(v * (1 + 2.0**-20)), "float+eps"))
                except ValueError:
                    pass
        if t.type not in (tokenize.NL, tokenize.NEWLINE, tokenize.COMMENT, tokenize.INDENT, tokenize.DEDENT):
            prev_sig = t
    # drop candidates inside docstrings (STRING tokens are never mutated anyway) — nothing to do
    return res


def gen(args):
    os.makedirs(OUT, exist_ok=True)
    props = [json.loads(l) for l in open(os.path.join(ROOT, "properties.jsonl"))]
    plan = []
    for d in props:
        P = d["id"]
        rnd = random.Random(f"{args.seed}-{P}")
        pool = []
        for m in d["anchors"]["mechanism"]:
            for f, rngs in parse_where(m["where"]):
                if not os.path.exists(os.path.join(REPO, f)):
                    continue
                for c in candidates(f, rngs):
                    pool.append((f,) + c)
        pool = sorted(set(pool))
        rnd.shuffle(pool)
        # at most 2 mutants per source line, spread over operators
        seen = {}
        chosen = []
        for c in pool:
            k = (c[0], c[1])
            if seen.get(k, 0) >= 1:
                continue
            seen[k] = seen.get(k, 0) + 1
            chosen.append(c)
            if len(chosen) >= args.per_prop:
                break
        for j, c in enumerate(chosen):
            plan.append(dict(id=(f"{P}_m{j:02d}" if args.seed == 1 else f"{P}_s{args.seed}m{j:02d}"), prop=P, file=c[0], line=c[1], col=c[2], old=c[3], new=c[4], op=c[5], pool=len(pool)))
    with open(os.path.join(OUT, "plan.jsonl" if args.seed == 1 else f"plan_s{args.seed}.jsonl"), "w") as fh:
        for p in plan:
            fh.write(json.dumps(p) + "\n")
    print(f"{len(plan)} mutants planned ->", os.path.join(OUT, "plan.jsonl"))
    for P in sorted({p["prop"] for p in plan}):
        print(P, sum(1 for p in plan if p["prop"] == P), "of pool", next(p["pool"] for p in plan if p["prop"] == P))


def sh(cmd, timeout=None, env=None, cwd=None):
    try:
        r = subprocess.run(cmd, shell=True, capture_output=True, text=True, timeout=timeout, env=env, cwd=cwd)
        return r.returncode, r.stdout + r.stderr
    except subprocess.TimeoutExpired as e:
        return 124, (e.stdout or b"").decode(errors="replace") if isinstance(e.stdout, bytes) else (e.stdout or "")


def apply_mutant(wt, m):
    p = os.path.join(wt, m["file"])
    lines = open(p).read().split("\n")
    ln = lines[m["line"] - 1]
    assert ln[m["col"]:m["col"] + len(m["old"])] == m["old"], (ln, m)
    new = m["new"]
    lines[m["line"] - 1] = ln[:m["col"]] + new + ln[m["col"] + len(m["old"]):]
    open(p, "w").write("\n".join(lines))


def run_one(wt, m, log):
    t0 = time.time()
    res = dict(m)
    sh(f"git -C {wt} checkout -- .")
    try:
        apply_mutant(wt, m)
    except AssertionError as e:
        res.update(verdict="stale", detail=str(e)[:200])
        return res
    rc, diff = sh(f"git -C {wt} diff")
    res["diff"] = diff
    env = dict(os.environ, PYTHONPATH=wt, PATH="/venv/bin:" + os.environ.get("PATH", ""))
    rc, out = sh("/venv/bin/python -c 'import functional_algorithms, functional_algorithms.apmath, functional_algorithms.utils'", timeout=120, env=env, cwd="/tmp")
    if rc != 0:
        res.update(verdict="import-error", detail=out[-300:])
        return res
    tests = TESTS.get(m["file"], CORE_TESTS)
    tf = " ".join(f"functional_algorithms/tests/{t}.py" for t in tests)
    rc, out = sh(f"/venv/bin/python -m pytest -q -x -p no:cacheprovider --timeout=900 -n 3 {tf}", timeout=2400, env=env, cwd=wt)
    res["tests_s"] = round(time.time() - t0)
    res["tests_tail"] = out.strip().split("\n")[-1][:200]
    if rc != 0:
        res.update(verdict="killed-by-tests" if rc != 124 else "tests-timeout")
        return res
    t1 = time.time()
    env2 = dict(os.environ, FAV_REPO=wt)
    env2.pop("FAV_LEAN_DIR", None)
    rc, out = sh(f"{ROOT}/check {m['prop']} --tier quick", timeout=3000, env=env2, cwd=ROOT)
    res["check_s"] = round(time.time() - t1)
    res["check_rc"] = rc
    vl = [l for l in out.split("\n") if l.startswith("VIOLATION")]
    res["violation_lines"] = vl[:5]
    res["check_tail"] = out.strip().split("\n")[-3:]
    if rc == 1 and vl:
        res["verdict"] = "caught-no-input" if all("no-failing-input-found" in l for l in vl) else "caught"
    elif rc == 0 and not vl:
        res["verdict"] = "passed-check"
    else:
        res["verdict"] = "infra"
    return res


def run(args):
    plan = [json.loads(l) for l in open(os.path.join(OUT, args.plan))]
    if args.props:
        keep = set(args.props.split(","))
        plan = [p for p in plan if p["prop"] in keep]
    done = set()
    rp = os.path.join(OUT, "results.jsonl")
    if os.path.exists(rp):
        done = {json.loads(l)["id"] for l in open(rp)}
    plan = [p for p in plan if p["id"] not in done]
    # interleave properties so that an interrupted run covers all of them
    byp = {}
    for p in plan:
        byp.setdefault(p["prop"], []).append(p)
    order = []
    while any(byp.values()):
        for k in sorted(byp):
            if byp[k]:
                order.append(byp[k].pop(0))
    lock = threading.Lock()
    it = iter(order)

    def worker(k):
        wt = f"/tmp/mut_w{k}"
        sh(f"git -C {REPO} worktree remove --force {wt}")
        rc, out = sh(f"git -C {REPO} worktree add --detach {wt} HEAD")
        if rc != 0:
            print("worktree failed", out)
            return
        try:
            while True:
                with lock:
                    m = next(it, None)
                if m is None or os.path.exists(os.path.join(OUT, "STOP")):
                    break
                r = run_one(wt, m, None)
                with lock:
                    with open(rp, "a") as fh:
                        fh.write(json.dumps(r) + "\n")
                    print(time.strftime("%H:%M:%S"), r["id"], r["file"].split("/")[-1], r["line"], repr(r["old"]), "->", repr(r["new"]), r["verdict"], flush=True)
        finally:
            sh(f"git -C {REPO} worktree remove --force {wt}")
            sh(f"git -C {REPO} worktree prune")

    ths = [threading.Thread(target=worker, args=(k,)) for k in range(args.workers)]
    for t in ths:
        t.start()
    for t in ths:
        t.join()


def report(args):
    rp = os.path.join(OUT, "results.jsonl")
    rs = [json.loads(l) for l in open(rp)]
    props = sorted({r["prop"] for r in rs})
    cols = ["killed-by-tests", "import-error", "caught", "caught-no-input", "passed-check", "infra", "tests-timeout", "stale"]
    print("| prop | " + " | ".join(cols) + " |")
    print("|---|" + "---|" * len(cols))
    for P in props:
        print(f"| {P} | " + " | ".join(str(sum(1 for r in rs if r["prop"] == P and r["verdict"] == c)) for c in cols) + " |")
    print(f"| all | " + " | ".join(str(sum(1 for r in rs if r["verdict"] == c)) for c in cols) + " |")
    print()
    for r in rs:
        if r["verdict"] in ("passed-check", "infra", "caught-no-input"):
            print(r["id"], r["verdict"], f"{r['file']}:{r['line']}", repr(r["old"]), "->", repr(r["new"]))


if __name__ == "__main__":
    ap = argparse.ArgumentParser()
    sub = ap.add_subparsers(dest="cmd", required=True)
    g = sub.add_parser("gen")
    g.add_argument("--per-prop", type=int, default=8)
    g.add_argument("--seed", type=int, default=1)
    r = sub.add_parser("run")
    r.add_argument("--workers", type=int, default=3)
    r.add_argument("--props", default="")
    r.add_argument("--plan", default="plan.jsonl")
    sub.add_parser("report")
    a = ap.parse_args()
    dict(gen=gen, run=run, report=report)[a.cmd](a)
