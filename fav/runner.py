"""Generic runner: verdict protocol, evidence, findings, Lean plumbing.

Every property module `fav.props.cXX` exposes

    THEOREMS   : list[str]   names (in namespace FAVerif.Props.CXX) the property is answerable to
    SEARCHED   : list[str]   clauses decided by the failing-input search only (not theorems)
    TRUSTED    : list[str]   trusted-base items for this property
    def run(ctx) -> None     does: regenerate -> build -> audit -> correspondence -> search

and reports through `ctx` (class Ctx below).  The protocol (DESIGN.md section 5):

  * a broken proof obligation / correspondence is recorded with `ctx.broken(name, detail)`;
    it is *not* a violation by itself: the property module then runs its directed search on
    the REAL code; a failing input is reported by `ctx.violation(...)`; if at the end some
    broken obligation has no failing input attached, the runner reports
    `VIOLATION ... no-failing-input-found` naming the obligation in the replay file.
  * `ctx.violation(signature, what, replay)` consults known_findings.json: a listed
    signature (status "known") prints KNOWN-FINDING and does not fail the run.
  * exit 0 / 1; exit 2 for infrastructure failures and time-outs.
"""

from __future__ import annotations

import fcntl
import hashlib
import importlib
import json
import os
import random
import re
import subprocess
import sys
import time
import traceback

ROOT = os.path.dirname(os.path.dirname(os.path.abspath(__file__)))
LEAN_DIR = os.path.join(ROOT, "lean")
WORK = os.path.join(ROOT, ".work")
REPO = os.environ.get("FAV_REPO", "/repo")
EXPERIMENT = os.path.realpath(REPO) != "/repo"
PY = "/venv/bin/python"
LOCK_FILE = os.path.join(WORK, "lake.lock")
if EXPERIMENT:
    # an experiment on another tree (FAV_REPO=<worktree>) regenerates models of THAT tree: give it a private copy of the
    # lake project so that it can neither disturb nor be disturbed by a check of /repo running at the same time
    import atexit
    import shutil

    if os.environ.get("FAV_LEAN_DIR") and os.path.isdir(os.environ["FAV_LEAN_DIR"]):
        LEAN_DIR = os.environ["FAV_LEAN_DIR"]
    else:
        _exp = os.path.join(WORK, "lean_exp", f"{os.getpid()}")
        os.makedirs(os.path.dirname(_exp), exist_ok=True)
        shutil.rmtree(_exp, ignore_errors=True)
        subprocess.run(["cp", "-a", LEAN_DIR, _exp], check=True)
        LEAN_DIR = _exp
        os.environ["FAV_LEAN_DIR"] = _exp
        _owner = os.getpid()

        def _cleanup():
            if os.getpid() == _owner:
                shutil.rmtree(_exp, ignore_errors=True)
                try:
                    os.remove(_exp + ".lock")
                except OSError:
                    pass

        atexit.register(_cleanup)
    LOCK_FILE = LEAN_DIR + ".lock"
ALLOWED_AXIOMS = {"propext", "Classical.choice", "Quot.sound"}
FORBIDDEN = re.compile(r"\b(sorry|admit|native_decide|bv_decide|implemented_by)\b|^\s*axiom\s|\bunsafe\s|maxHeartbeats\s+0\b")


class Infra(Exception):
    """Infrastructure failure (exit 2), never a violation."""


def _strip_comments(src: str) -> str:
    # remove /- ... -/ (nested) and -- line comments
    out = []
    i, depth, n = 0, 0, len(src)
    while i < n:
        if src.startswith("/-", i):
            depth += 1
            i += 2
        elif depth and src.startswith("-/", i):
            depth -= 1
            i += 2
        elif depth:
            if src[i] == "\n":
                out.append("\n")
            i += 1
        elif src.startswith("--", i):
            while i < n and src[i] != "\n":
                i += 1
        elif src[i] == '"':
            j = i + 1
            while j < n and src[j] != '"':
                j += 2 if src[j] == "\\" else 1
            out.append('""')
            i = j + 1
        else:
            out.append(src[i])
            i += 1
    return "".join(out)


class Lean:
    """Access to the lake project; all builds are serialised by a file lock."""

    def __init__(self, ctx):
        self.ctx = ctx
        os.makedirs(WORK, exist_ok=True)

    def _locked(self, cmd, timeout, stdin=None):
        with open(LOCK_FILE, "a") as lk:
            fcntl.flock(lk, fcntl.LOCK_EX)
            try:
                return subprocess.run(cmd, cwd=LEAN_DIR, input=stdin, capture_output=True, text=True, timeout=timeout)
            except subprocess.TimeoutExpired as e:
                raise Infra(f"timeout: {' '.join(cmd)}") from e

    def write_generated(self, relname: str, text: str) -> bool:
        """Write lean/FAVerif/Generated/<relname> only when content changed (keeps lake no-op)."""
        path = os.path.join(LEAN_DIR, "FAVerif", "Generated", relname)
        os.makedirs(os.path.dirname(path), exist_ok=True)
        try:
            if open(path).read() == text:
                return False
        except FileNotFoundError:
            pass
        tmp = path + ".tmp"
        with open(tmp, "w") as f:
            f.write(text)
        os.replace(tmp, path)
        return True

    def build(self, targets, timeout=3000):
        """lake build targets.  Returns (ok, failed_modules:list[str], log)."""
        cmd = ["lake", "build"] + list(targets)
        r = self._locked(cmd, timeout)
        log = r.stdout + r.stderr
        failed = []
        for m in re.finditer(r"^✖ \[\d+/\d+\] (?:Building|Built|Replayed) (\S+)", log, re.M):
            failed.append(m.group(1))
        for m in re.finditer(r"^- (\S+)$", log, re.M):
            if m.group(1) not in failed:
                failed.append(m.group(1))
        self.ctx.checker_cmds.append("cd lean && " + " ".join(cmd))
        return r.returncode == 0, failed, log

    def failed_decls(self, log: str):
        """Names of theorems whose elaboration failed, parsed from `file:line:col: error` + source."""
        names = []
        for m in re.finditer(r"^error: (\S+?\.lean):(\d+):(\d+):", log, re.M):
            path, line = m.group(1), int(m.group(2))
            full = path if os.path.isabs(path) else os.path.join(LEAN_DIR, path)
            try:
                src = open(full).read().split("\n")
            except OSError:
                continue
            name = None
            for k in range(min(line, len(src)) - 1, -1, -1):
                mm = re.match(r"\s*(?:@\[[^\]]*\]\s*)?(?:private\s+|protected\s+)?(?:theorem|lemma|def|example|instance|abbrev)\s+(\S+)?", src[k])
                if mm:
                    name = f"{os.path.relpath(full, LEAN_DIR)}:{mm.group(1) or 'example'}@{k+1}"
                    break
            names.append(name or f"{path}:{line}")
        seen = []
        for x in names:
            if x not in seen:
                seen.append(x)
        return seen

    def audit(self, modules, timeout=900):
        """Returns dict theorem -> axioms for all theorems declared in `modules`."""
        r = self._locked(["lake", "env", "lean", "--run", "Drivers/Audit.lean"] + list(modules), timeout)
        if r.returncode != 0:
            raise Infra("axiom audit failed: " + (r.stdout + r.stderr)[-2000:])
        res = {}
        for line in r.stdout.splitlines():
            m = re.match(r"THEOREM (\S+) (\S+) :\s*(.*)$", line)
            if m:
                res[m.group(2)] = m.group(3).split()
        return res

    def import_closure(self, modules):
        """Files of FAVerif.* modules reachable from `modules` through `import` lines."""
        seen, todo = {}, list(modules)
        while todo:
            m = todo.pop()
            if m in seen or not m.startswith("FAVerif"):
                continue
            path = os.path.join(LEAN_DIR, *m.split(".")) + ".lean"
            if not os.path.exists(path):
                continue
            seen[m] = path
            for mm in re.finditer(r"^\s*(?:public\s+)?import\s+(\S+)", open(path).read(), re.M):
                todo.append(mm.group(1))
        return seen

    def source_audit(self, modules):
        """grep the import closure (comments and strings stripped) for forbidden constructs."""
        hits = []
        for _m, p in sorted(self.import_closure(modules).items()):
            for k, line in enumerate(_strip_comments(open(p).read()).split("\n"), 1):
                if FORBIDDEN.search(line):
                    hits.append(f"{os.path.relpath(p, LEAN_DIR)}:{k}: {line.strip()[:120]}")
        return hits

    def driver(self, name, lines, timeout=1800, args=()):
        """Run Drivers/<name>.lean on the given input lines; returns output lines."""
        data = "\n".join(lines) + "\n"
        # shared lock: drivers may run concurrently with each other but not while a build rewrites .olean files
        with open(LOCK_FILE, "a") as lk:
            fcntl.flock(lk, fcntl.LOCK_SH)
            r = subprocess.run(
                ["lake", "env", "lean", "--run", f"Drivers/{name}.lean", *args],
                cwd=LEAN_DIR, input=data, capture_output=True, text=True, timeout=timeout,
            )
        if r.returncode != 0:
            raise Infra(f"driver {name} failed rc={r.returncode}: {(r.stdout + r.stderr)[-3000:]}")
        return r.stdout.split("\n")[:-1] if r.stdout.endswith("\n") else r.stdout.split("\n")

    def leanchecker(self, modules, timeout=3000):
        r = self._locked(["lake", "env", "leanchecker"] + list(modules), timeout)
        self.ctx.checker_cmds.append("cd lean && lake env leanchecker " + " ".join(modules))
        return r.returncode == 0, r.stdout + r.stderr


class Ctx:
    def __init__(self, prop, tier, seed):
        self.prop = prop
        self.tier = tier
        self.seed = seed
        self.rng = random.Random(seed)
        self.t0 = time.time()
        self.lean = Lean(self)
        self.checker_cmds = []
        self.obligations = {}  # name -> dict(ok, axioms, kind)
        self.broken_items = []  # list of dict(name, detail, has_failing_input)
        self.violations = []  # unlisted
        self.known = []
        self.evaluations = 0
        self.nontrivial = set()
        self.nontrivial_extra = 0
        self.samples = []
        self.traces_validated = 0
        self.distribution = {}
        self.notes = {}
        self.rule = ""
        self.exhaustive = None
        self.theorems = []
        self.searched = []
        self.trusted = []
        self.assumptions = []
        self.findings = load_findings()
        self.quick = tier == "quick"

    # ---- bookkeeping ----------------------------------------------------
    def scale(self, quick, thorough):
        return quick if self.quick else thorough

    def count(self, key, n=1):
        self.distribution[key] = self.distribution.get(key, 0) + n

    def case(self, key=None, nontrivial=True, n=1):
        """Record an explored case; key (hashable) makes it distinct."""
        self.evaluations += n
        if nontrivial:
            if key is None:
                self.nontrivial_extra += n
            else:
                self.nontrivial.add(key if isinstance(key, (int, str)) else hash(key))

    def sample(self, obj, limit=12):
        if len(self.samples) < limit:
            self.samples.append(obj)

    def obligation(self, name, ok, axioms=None, kind="theorem"):
        self.obligations[name] = dict(ok=bool(ok), axioms=axioms, kind=kind)

    def broken(self, name, detail):
        """A proof obligation or a correspondence that no longer checks."""
        item = dict(name=name, detail=str(detail)[:4000], has_failing_input=False)
        self.broken_items.append(item)
        return item

    # ---- findings -------------------------------------------------------
    def violation(self, signature, what, replay, broken_item=None):
        """A concrete failing input on the REAL code.  `signature` is the cause signature."""
        for f in self.findings:
            if f.get("property") == self.prop and f.get("status") == "known" and f.get("signature") == signature:
                # a listed finding never explains away a broken obligation / correspondence
                if signature not in [k["signature"] for k in self.known]:
                    self.known.append(dict(signature=signature, what=f.get("what", what)))
                return "known"
        if broken_item is not None:
            broken_item["has_failing_input"] = True
        if signature in [v["signature"] for v in self.violations]:
            return "dup"
        path = self._write_replay(dict(property=self.prop, signature=signature, what=what, replay=replay, seed=self.seed, tier=self.tier))
        self.violations.append(dict(signature=signature, what=what, path=path, suffix=""))
        return "new"

    def _write_replay(self, obj):
        d = os.path.join(ROOT, "replays" if os.path.realpath(REPO) == "/repo" else os.path.join(".work", "replays_experiments"), self.prop)
        os.makedirs(d, exist_ok=True)
        blob = json.dumps(obj, indent=1, sort_keys=True, default=str)
        h = hashlib.sha256(blob.encode()).hexdigest()[:12]
        path = os.path.join(d, f"{h}.json")
        with open(path, "w") as f:
            f.write(blob + "\n")
        return os.path.relpath(path, ROOT)

    # ---- standard Lean stage -----------------------------------------------
    def lean_stage(self, modules, expected_theorems, extra_targets=()):
        """Build `modules` (+extra), audit axioms, register one obligation per theorem.

        Returns list of broken items (possibly empty)."""
        broken = []
        ok, failed, log = self.lean.build(list(modules) + list(extra_targets))
        if not ok:
            decls = self.lean.failed_decls(log)
            if not decls and not failed:
                raise Infra("lake build failed without a module error:\n" + log[-3000:])
            for d in decls or failed:
                self.obligation(d, False, kind="build")
                broken.append(self.broken(f"lean:{d}", _excerpt(log, d)))
        built = [m for m in modules if m not in failed] if not ok else list(modules)
        # if a dependency failed lake reports dependents as failed too; audit what exists
        thms = {}
        if ok or built:
            try:
                thms = self.lean.audit(built)
            except Exception:
                if ok:
                    raise
        for t in expected_theorems:
            full = t if "." in t and t.startswith("FAVerif") else f"FAVerif.Props.{self.prop}.{t}"
            if full in thms:
                bad = [a for a in thms[full] if a not in ALLOWED_AXIOMS]
                self.obligation(full, not bad, axioms=thms[full])
                if bad:
                    broken.append(self.broken(f"axioms:{full}", f"depends on non-standard axioms {bad}"))
            elif ok:
                self.obligation(full, False)
                broken.append(self.broken(f"missing:{full}", "property theorem not found in compiled module"))
            else:
                self.obligation(full, False)
        # theorems present but not listed are still audited (generated per-row obligations etc.)
        for full, axs in thms.items():
            if full not in self.obligations:
                bad = [a for a in axs if a not in ALLOWED_AXIOMS]
                self.obligation(full, not bad, axioms=axs, kind="aux")
                if bad:
                    broken.append(self.broken(f"axioms:{full}", f"depends on non-standard axioms {bad}"))
        hits = self.lean.source_audit(list(modules) + list(extra_targets))
        self.obligation("source-audit(no sorry/admit/axiom/native_decide/bv_decide/implemented_by/unsafe/maxHeartbeats 0)", not hits, kind="audit")
        if hits:
            broken.append(self.broken("source-audit", "\n".join(hits)))
        if not self.quick and ok:
            okc, logc = self.lean.leanchecker(built)
            self.obligation("leanchecker:" + ",".join(built), okc, kind="recheck")
            if not okc:
                broken.append(self.broken("leanchecker", logc[-3000:]))
        return broken


def _excerpt(log, key):
    k = key.split(":")[0]
    idx = log.find(k)
    return log[max(0, idx - 200): idx + 2500] if idx >= 0 else log[-2500:]


def load_findings():
    p = os.path.join(ROOT, "known_findings.json")
    try:
        return json.load(open(p)).get("findings", [])
    except FileNotFoundError:
        return []


def write_evidence(ctx, violations_count):
    ob = ctx.obligations
    cov = dict(
        obligations=max(1, len(ob)),
        discharged=sum(1 for v in ob.values() if v["ok"]),
        checker_cmd=" ; ".join(dict.fromkeys(ctx.checker_cmds)) or "none (build stage not reached)",
        trusted_base=ctx.trusted,
        evaluations=ctx.evaluations,
        distinct_nontrivial=len(ctx.nontrivial) + ctx.nontrivial_extra,
        rule=ctx.rule,
        samples=ctx.samples or ["(no case explored: run aborted early)"],
        traces_validated_against_impl=ctx.traces_validated,
        theorems=ctx.theorems,
        searched_clauses=ctx.searched,
        obligation_list=[dict(name=k, **v) for k, v in list(ob.items())[:400]],
        broken=[dict(name=b["name"], has_failing_input=b["has_failing_input"]) for b in ctx.broken_items],
        distribution=ctx.distribution,
        notes=ctx.notes,
        known_findings=[k["signature"] for k in ctx.known],
    )
    if not ob:
        cov["discharged"] = 0
    if ctx.exhaustive is not None:
        cov["exhaustive"] = bool(ctx.exhaustive)
    ev = dict(
        property_id=ctx.prop, tier=ctx.tier, seed=ctx.seed, level="proof", coverage=cov,
        assumptions=ctx.assumptions or ctx.trusted, wall_s=round(time.time() - ctx.t0, 2),
        violations=violations_count,
    )
    # evidence/ describes runs against /repo itself; experiments on another tree (FAV_REPO=<worktree>) go to scratch
    d = os.path.join(ROOT, "evidence") if os.path.realpath(REPO) == "/repo" else os.path.join(WORK, "evidence_experiments")
    os.makedirs(d, exist_ok=True)
    with open(os.path.join(d, f"{ctx.prop}.json"), "w") as f:
        json.dump(ev, f, indent=1, default=str)
        f.write("\n")


GEN_DIR = os.path.join(LEAN_DIR, "FAVerif", "Generated")


def _snapshot_generated():
    """Experiments (FAV_REPO != /repo) overwrite the regenerated Lean files with those of the changed tree;
    put back what was there so that the next run on /repo does not start from a foreign model."""
    snap = {}
    for fn in os.listdir(GEN_DIR):
        if fn.endswith(".lean"):
            with open(os.path.join(GEN_DIR, fn)) as f:
                snap[fn] = f.read()
    return snap


def _restore_generated(snap):
    for fn, txt in snap.items():
        path = os.path.join(GEN_DIR, fn)
        try:
            with open(path) as f:
                cur = f.read()
        except FileNotFoundError:
            cur = None
        if cur != txt:
            with open(path, "w") as f:
                f.write(txt)


def main(argv=None):
    import argparse

    ap = argparse.ArgumentParser()
    ap.add_argument("prop", nargs="?")
    ap.add_argument("--tier", default=os.environ.get("VERIF_TIER", "quick"), choices=["quick", "thorough"])
    ap.add_argument("--replay")
    ap.add_argument("--setup", action="store_true")
    a = ap.parse_args(argv)
    seed = int(os.environ.get("VERIF_SEED", "20250925") or 0)
    if a.setup:
        from . import setup as _setup

        return _setup.main()
    if not a.prop:
        ap.error("property id required")
    prop = a.prop.upper()
    mod = importlib.import_module(f"fav.props.{prop.lower()}")
    ctx = Ctx(prop, a.tier, seed)
    ctx.theorems = list(getattr(mod, "THEOREMS", []))
    ctx.searched = list(getattr(mod, "SEARCHED", []))
    ctx.trusted = list(getattr(mod, "TRUSTED", []))
    if a.replay:
        obj = json.load(open(a.replay if os.path.isabs(a.replay) else os.path.join(ROOT, a.replay)))
        rc = mod.replay(ctx, obj)
        return rc
    snap = _snapshot_generated() if EXPERIMENT else None
    try:
        try:
            mod.run(ctx)
        finally:
            if snap is not None:
                _restore_generated(snap)
    except Infra as e:
        print(f"INFRA-ERROR property={prop}: {e}", flush=True)
        try:
            write_evidence(ctx, 0)
        except Exception:
            pass
        return 2
    except subprocess.TimeoutExpired as e:
        print(f"INFRA-ERROR property={prop}: timeout {e}", flush=True)
        return 2
    except Exception:
        traceback.print_exc()
        print(f"INFRA-ERROR property={prop}: unexpected exception in the checker itself", flush=True)
        return 2
    # broken obligations without failing input
    for b in ctx.broken_items:
        if not b["has_failing_input"]:
            path = ctx._write_replay(dict(property=prop, signature="unproved:" + b["name"], what="proof obligation / correspondence no longer checks and the directed search found no failing input on the real code", obligation=b["name"], detail=b["detail"], seed=seed, tier=a.tier))
            ctx.violations.append(dict(signature="unproved:" + b["name"], what=b["name"], path=path, suffix=" no-failing-input-found"))
    for k in ctx.known:
        print(f"KNOWN-FINDING: property={prop} {k['what']}")
    for v in ctx.violations:
        print(f"VIOLATION property={prop} replay={v['path']}{v['suffix']}")
    write_evidence(ctx, len(ctx.violations))
    nob = len(ctx.obligations)
    nok = sum(1 for v in ctx.obligations.values() if v["ok"])
    print(f"[{prop}] tier={a.tier} seed={seed} obligations={nok}/{nob} evaluations={ctx.evaluations} nontrivial={len(ctx.nontrivial)+ctx.nontrivial_extra} corr={ctx.traces_validated} known={len(ctx.known)} violations={len(ctx.violations)} wall={time.time()-ctx.t0:.1f}s")
    return 1 if ctx.violations else 0


if __name__ == "__main__":
    sys.exit(main())
