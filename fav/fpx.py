"""Exact helpers on IEEE bit patterns (independent of the Lean model and of utils.py)."""

from fractions import Fraction

import numpy

FMT = {"float16": (11, 5, 16), "float32": (24, 8, 32), "float64": (53, 11, 64)}
NPF = {"float16": numpy.float16, "float32": numpy.float32, "float64": numpy.float64}
NPU = {"float16": numpy.uint16, "float32": numpy.uint32, "float64": numpy.uint64}


def emin(fmt):
    p, ew, _ = FMT[fmt]
    return 1 - ((1 << (ew - 1)) - 1) - (p - 1)


def decode(b, fmt):
    """-> ('nan',) | ('inf', s) | ('fin', s, m, e)   value = (-1)^s m 2^e"""
    p, ew, w = FMT[fmt]
    fb = p - 1
    s = (b >> (w - 1)) & 1
    e = (b >> fb) & ((1 << ew) - 1)
    m = b & ((1 << fb) - 1)
    if e == (1 << ew) - 1:
        return ("nan",) if m else ("inf", s)
    if e == 0:
        return ("fin", s, m, emin(fmt))
    return ("fin", s, m | (1 << fb), e - 1 + emin(fmt))


def to_fraction(b, fmt):
    d = decode(b, fmt)
    if d[0] != "fin":
        return None
    _, s, m, e = d
    v = Fraction(m) * (Fraction(2) ** e)
    return -v if s else v


def is_finite(b, fmt):
    return decode(b, fmt)[0] == "fin"


def sigbits(b, fmt):
    """number of significant bits of the value (0 for zero)"""
    d = decode(b, fmt)
    if d[0] != "fin" or d[2] == 0:
        return 0
    m = d[2]
    return (m // (m & -m)).bit_length()


def round_ne(q, fmt):
    """Correctly rounded (nearest-even) pattern of Fraction q; overflow -> inf.  Sign of zero: +."""
    p, ew, w = FMT[fmt]
    fb = p - 1
    if q == 0:
        return 0
    s = 1 if q < 0 else 0
    a = -q if s else q
    n, d = a.numerator, a.denominator
    # exponent e with 2^(p-1) <= a / 2^e < 2^p, at least emin
    e = n.bit_length() - d.bit_length() - p
    while Fraction(n, d) >= Fraction(2) ** (e + p):
        e += 1
    while Fraction(n, d) < Fraction(2) ** (e + p - 1):
        e -= 1
    e = max(e, emin(fmt))
    scaled = Fraction(n, d) / (Fraction(2) ** e)
    m = scaled.numerator // scaled.denominator
    rem = scaled - m
    if rem > Fraction(1, 2) or (rem == Fraction(1, 2) and m % 2 == 1):
        m += 1
    if m == 1 << p:
        m >>= 1
        e += 1
    sign = s << (w - 1)
    if m < (1 << fb):
        return sign | m
    ef = e - emin(fmt) + 1
    if ef >= (1 << ew) - 1:
        return sign | (((1 << ew) - 1) << fb)
    return sign | (ef << fb) | (m - (1 << fb))


def representable(q, fmt):
    """Is the Fraction q exactly a finite float of the format?"""
    if q == 0:
        return True
    b = round_ne(q, fmt)
    return is_finite(b, fmt) and to_fraction(b, fmt) == q


def arr_from_bits(bits, fmt):
    return numpy.array(bits, dtype=NPU[fmt]).view(NPF[fmt])


def bits_from_arr(arr, fmt):
    return [int(v) for v in numpy.asarray(arr, dtype=NPF[fmt]).view(NPU[fmt])]


def pattern(fmt, s, ef, m):
    p, ew, w = FMT[fmt]
    return (s << (w - 1)) | (ef << (p - 1)) | m


def directed_patterns(rng, fmt, n, lo_exp=None, hi_exp=None):
    """Finite patterns built around rounding-relevant structure: few-bit mantissas, trailing
    ones, half-significand boundaries, all subnormal binades, near the overflow edge."""
    p, ew, w = FMT[fmt]
    fb = p - 1
    emax_f = (1 << ew) - 2
    lo = 0 if lo_exp is None else lo_exp
    hi = emax_f if hi_exp is None else hi_exp
    out = []
    half = (p + 1) // 2
    for _ in range(n):
        r = rng.random()
        s = rng.getrandbits(1)
        if r < 0.10:
            ef = 0
            m = rng.getrandbits(rng.randrange(1, fb + 1))  # subnormal binades
        else:
            if r < 0.2:
                ef = rng.randrange(lo, min(hi, 3) + 1) if lo <= 3 else rng.randrange(lo, hi + 1)
            elif r < 0.3:
                ef = rng.randrange(max(lo, hi - 3), hi + 1)
            else:
                mid = (1 << (ew - 1)) - 1
                ef = max(lo, min(hi, mid + rng.randrange(-2 * p, 2 * p + 1)))
            k = rng.randrange(7)
            if k == 0:
                m = rng.getrandbits(fb)
            elif k == 1:
                m = 0
            elif k == 2:
                m = (1 << fb) - 1 - rng.getrandbits(3)
            elif k == 3:
                m = 1 << rng.randrange(fb)
            elif k == 4:  # around the half-significand boundary
                m = (rng.getrandbits(half) << (fb - half)) & ((1 << fb) - 1)
                m |= rng.choice([0, 1, (1 << (fb - half)) - 1, 1 << (fb - half - 1), (1 << (fb - half - 1)) + 1]) & ((1 << fb) - 1)
            elif k == 5:
                m = rng.getrandbits(fb) & ~((1 << rng.randrange(fb)) - 1)
            else:
                m = (1 << (fb - half + 1)) + rng.randrange(-3, 4) + (rng.getrandbits(2) << (fb - 2))
                m &= (1 << fb) - 1
        out.append(pattern(fmt, s, ef, m))
    return out
