"""Independent oracle for C06 (never consults the Lean model, never imports the repo).

  lex(text)                      -> token list (white-space normalisation used by the correspondence too)
  parse_stablehlo(text)          -> TableGen DRR pattern tree
  parse_xla(text)                -> C++ function: params, assignments, return expression (Pratt parser)
  check_stablehlo(text, dump)    -> list of failures (signature, detail)
  check_xla(text, dump)          -> list of failures (signature, detail)

The operator tables below are the TRUSTED specification (StableHLO / CHLO TableGen definition names,
xla::XlaBuilder client function names, C++ <cmath>/<limits>); they are written by hand from those
APIs and are deliberately NOT read from /repo.
"""

import re

# ------------------------------------------------------------------------------------------ lexer

_TOK = re.compile(r'''
    (?P<str>"(?:[^"\\]|\\.)*")
  | (?P<dollar>\$[A-Za-z_0-9]+)
  | (?P<num>(?:\d+\.\d*|\.\d+|\d+)(?:[eE][+-]?\d+)?)
  | (?P<id>[A-Za-z_][A-Za-z_0-9]*)
  | (?P<op>::|<<|>>|<=|>=|==|!=|&&|\|\|)
  | (?P<ch>\S)
''', re.X)


def lex(text):
    toks = []
    pos = 0
    n = len(text)
    while pos < n:
        if text[pos].isspace():
            pos += 1
            continue
        if text.startswith("//", pos):
            e = text.find("\n", pos)
            pos = n if e < 0 else e
            continue
        m = _TOK.match(text, pos)
        toks.append(m.group(0))
        pos = m.end()
    return toks


class ParseError(Exception):
    pass


# ------------------------------------------------------------------------------------------ StableHLO

class _S:
    def __init__(self, toks):
        self.t = toks
        self.i = 0

    def peek(self, k=0):
        return self.t[self.i + k] if self.i + k < len(self.t) else None

    def take(self, want=None):
        tok = self.peek()
        if tok is None or (want is not None and tok != want):
            raise ParseError(f"expected {want!r} at token {self.i}, got {tok!r}")
        self.i += 1
        return tok


def _is_id(tok):
    return tok is not None and re.fullmatch(r"[A-Za-z_][A-Za-z_0-9]*", tok) is not None


def parse_stablehlo(text):
    """def [name] : Pat<(Src argdecl, ...), pattern>;   returns dict(name, src, args=[(cls, name)], pattern)

    pattern := $name | (Head[<"attr">][:$name] [pattern {, pattern}]) | Head[<"attr">]
    The position (token index) of every binding and reference is recorded for the textual order."""
    s = _S(lex(text))
    s.take("def")
    name = None
    if s.peek() != ":":
        name = s.take()
    s.take(":")
    s.take("Pat")
    s.take("<")
    s.take("(")
    src = s.take()
    args = []
    while s.peek() != ")":
        cls = s.take()
        s.take(":")
        a = s.take()
        if not a.startswith("$"):
            raise ParseError(f"argument name {a!r}")
        args.append((cls, a[1:], s.i))
        if s.peek() == ",":
            s.take(",")
    s.take(")")
    s.take(",")

    def head():
        h = s.take()
        if not _is_id(h):
            raise ParseError(f"operator name expected, got {h!r}")
        attr = None
        if s.peek() == "<":
            s.take("<")
            attr = s.take()
            if not attr.startswith('"'):
                raise ParseError(f"string attribute expected, got {attr!r}")
            attr = attr[1:-1]
            s.take(">")
        return h, attr

    def pattern():
        tok = s.peek()
        if tok is None:
            raise ParseError("unexpected end")
        if tok.startswith("$"):
            s.take()
            return dict(ref=tok[1:], pos=s.i)
        if tok == "(":
            s.take("(")
            h, attr = head()
            bind = None
            bpos = None
            if s.peek() == ":":
                s.take(":")
                b = s.take()
                if not b.startswith("$"):
                    raise ParseError(f"binding name {b!r}")
                bind = b[1:]
                bpos = s.i
            argl = []
            if s.peek() != ")":
                argl.append(pattern())
                while s.peek() == ",":
                    s.take(",")
                    argl.append(pattern())
            s.take(")")
            return dict(head=h, attr=attr, bind=bind, bpos=bpos, args=argl)
        h, attr = head()
        return dict(head=h, attr=attr, bind=None, bpos=None, args=None)  # bare attribute value

    pat = pattern()
    s.take(">")
    s.take(";")
    if s.peek() is not None:
        raise ParseError("trailing tokens")
    return dict(name=name, src=src, args=args, pattern=pat)


# trusted: expression kind -> TableGen definition of the StableHLO / CHLO operator implementing it
S_OPS = dict(
    absolute="StableHLO_AbsOp", negative="StableHLO_NegOp", add="StableHLO_AddOp", subtract="StableHLO_SubtractOp",
    multiply="StableHLO_MulOp", divide="StableHLO_DivOp", remainder="StableHLO_RemOp", pow="StableHLO_PowOp",
    logical_and="StableHLO_AndOp", logical_or="StableHLO_OrOp", logical_xor="StableHLO_XorOp", logical_not="StableHLO_NotOp",
    bitwise_and="StableHLO_AndOp", bitwise_or="StableHLO_OrOp", bitwise_xor="StableHLO_XorOp", bitwise_invert="StableHLO_NotOp",
    bitwise_left_shift="StableHLO_ShiftLeftOp", bitwise_right_shift="StableHLO_ShiftRightArithmeticOp",
    maximum="StableHLO_MaxOp", minimum="StableHLO_MinOp",
    asin_acos_kernel="CHLO_AsinAcosKernelOp", acos="CHLO_AcosOp", acosh="CHLO_AcoshOp", asin="CHLO_AsinOp", asinh="CHLO_AsinhOp",
    atan="CHLO_AtanOp", atanh="CHLO_AtanhOp", atan2="StableHLO_Atan2Op", cos="StableHLO_CosineOp", cosh="CHLO_CoshOp",
    sin="StableHLO_SineOp", sinh="CHLO_SinhOp", tan="CHLO_TanOp", tanh="StableHLO_TanhOp", exp="StableHLO_ExpOp",
    expm1="StableHLO_Expm1Op", log="StableHLO_LogOp", log1p="StableHLO_Log1pOp", ceil="StableHLO_CeilOp", floor="StableHLO_FloorOp",
    round="StableHLO_RoundOp", sign="StableHLO_SignOp", conjugate="CHLO_ConjOp", real="StableHLO_RealOp", imag="StableHLO_ImagOp",
    complex="StableHLO_ComplexOp", sqrt="StableHLO_SqrtOp", select="StableHLO_SelectOp", nextafter="CHLO_NextAfterOp",
    is_finite="StableHLO_IsFiniteOp", is_inf="CHLO_IsInfOp", is_posinf="CHLO_IsPosInfOp", is_neginf="CHLO_IsNegInfOp",
)
S_CMP = dict(lt="LT", le="LE", gt="GT", ge="GE", eq="EQ", ne="NE")
S_CONSTS = dict(
    largest=("StableHLO_ConstantLikeMaxFiniteValue", None), smallest=("StableHLO_ConstantLikeSmallestNormalizedValue", None),
    posinf=("StableHLO_ConstantLikePosInfValue", None), neginf=("StableHLO_ConstantLikeNegInfValue", None),
    pi=("StableHLO_ConstantLike", "M_PI"),
)
S_ARGCLS = {0: "NonComplexElementType", 1: "ComplexElementType"}


def title(s):
    """str.title() for ASCII, written out (first letter of every alphabetic run upper, rest lower)."""
    out, prev_alpha = [], False
    for ch in s:
        if ch.isalpha():
            out.append(ch.lower() if prev_alpha else ch.upper())
            prev_alpha = True
        else:
            out.append(ch)
            prev_alpha = False
    return "".join(out)


def literal_matches(text, v):
    """does the printed literal `text` denote exactly the constant value v (dump entry)?"""
    ex = v.get("exact")
    t = "".join(text.split())
    if ex is None or ex[0] == "o":
        return lex(text) == lex(v["lit"])
    try:
        if ex[0] == "b":
            return t == str(ex[1])
        if ex[0] == "i":
            try:
                return int(t) == ex[1]
            except ValueError:
                f = float(t)
                return f == ex[1] and f.hex() == float(ex[1]).hex()
        f = float(t)
        want = float.fromhex(ex[1])
        if want != want:
            return f != f
        if v.get("pytype") in ("float32", "float16") and f == f and abs(f) != float("inf"):
            # a literal denotes a float32 constant when it rounds to it in the constant's own format
            import struct

            fmt = "<f" if v["pytype"] == "float32" else "<e"
            try:
                f = struct.unpack(fmt, struct.pack(fmt, f))[0]
            except OverflowError:
                return False
        return f.hex() == want.hex()
    except ValueError:
        return False


class Fail(Exception):
    def __init__(self, sig, detail):
        super().__init__(sig + ": " + detail)
        self.sig = sig
        self.detail = detail


_SPEC = [0]  # > 0 while a permuted (speculative) pairing is being tried: no diagnosis is derived from those


def match_operands(match_one, pats, idxs, kind, compat=None):
    """operands in order; when that fails but a permutation of the operands matches (or is the only one whose
    operator heads are compatible with the graph's operands), the defect is the ORDER"""
    import itertools

    try:
        for q, j in zip(pats, idxs):
            match_one(q, j)
        return
    except Fail as first:
        if _SPEC[0] > 0 or first.sig.startswith("tree_iso:operand-order") or not (2 <= len(pats) <= 3 and len(pats) == len(idxs)):
            raise
        ident = tuple(range(len(idxs)))
        _SPEC[0] += 1
        try:
            for perm in itertools.permutations(ident):
                if perm == ident:
                    continue
                try:
                    for q, t in zip(pats, perm):
                        match_one(q, idxs[t])
                except Fail:
                    continue
                raise Fail(f"tree_iso:operand-order:{kind}", f"operands of {kind} are emitted in the order {list(perm)}")
        finally:
            _SPEC[0] -= 1
        if compat is not None and not all(compat(q, j) for q, j in zip(pats, idxs)):
            good = [perm for perm in itertools.permutations(ident) if perm != ident and all(compat(q, idxs[t]) for q, t in zip(pats, perm))]
            if len(good) == 1:
                raise Fail(f"tree_iso:operand-order:{kind}", f"operands of {kind} are emitted in the order {list(good[0])} (judged by their operators)")
        raise first


def duplicate_refs(nodes):
    """reference names carried by more than one distinct graph node"""
    by = {}
    for i, n in enumerate(nodes):
        by.setdefault(n["ref"], []).append(i)
    return {r: ix for r, ix in by.items() if len(ix) > 1}


_CALL_ORIGIN = re.compile(r"_[A-Za-z][A-Za-z0-9]*(?:_[A-Za-z0-9]+)*_\d+_")


def alias_class(nodes, name, ixs):
    """WHY one reference name is carried by several distinct nodes — the cause, so that different defects of the
    naming scheme get different signatures:
      constant-named-by-value   all carriers are constants (make_ref names an unnamed constant by its value only)
      context-vs-alt-context    carriers live in a context and in its alternative context (kind_<intkey> names repeat)
      call-origin-name          the name carries a `_<function>_<count>_` origin given by Context.call: two expansions
                                of an algorithm were given the same origin
      derived-from-<kind>       anything else (named after its operands' names, themselves aliased)"""
    ks = {nodes[i]["kind"] for i in ixs}
    if ks == {"constant"}:
        return "constant-named-by-value"
    if len({bool(nodes[i].get("alt")) for i in ixs}) > 1:
        return "context-vs-alt-context"
    if _CALL_ORIGIN.search(name):
        return "call-origin-name"
    return "derived-from-" + "+".join(sorted(ks))


def _elem_type(dump, ix):
    n = dump["nodes"][ix]
    return tuple(n["ty"])


def _walk_patterns(p, f):
    f(p)
    for a in p.get("args") or []:
        _walk_patterns(a, f)


def check_stablehlo(text, dump):
    """Parse the real text back and compare with the graph.  Returns (failures, stats)."""
    _SPEC[0] = 0
    try:
        return _check_stablehlo(text, dump)
    except RecursionError:
        return [("tree_iso:cyclic-binding", "reference chain does not terminate")], dict(alias_same_type=0, nodes=0)


def _check_stablehlo(text, dump):
    fails = []
    stats = dict(alias_same_type=0, nodes=0)
    try:
        tree = parse_stablehlo(text)
    except ParseError as e:
        return [("parse:stablehlo:" + str(e).split(" at ")[0][:40], str(e))], stats
    nodes = dump["nodes"]
    # ---- header
    exp_src = dump["prop_name"] if dump["prop_name"] is not None else "CHLO_" + title(dump["fname_ref"])
    if tree["src"] != exp_src:
        fails.append(("header:source-op", f"{tree['src']} != {exp_src}"))
    if (tree["name"] or "") != (dump["expander"] or ""):
        fails.append(("header:expander-name", f"{tree['name']} != {dump['expander']}"))
    argnames = {}
    if len(tree["args"]) != len(dump["args"]):
        fails.append(("header:arg-count", f"{len(tree['args'])} != {len(dump['args'])}"))
    for (cls, name, _pos), ix in zip(tree["args"], dump["args"]):
        n = nodes[ix]
        if name != n["ref"]:
            fails.append(("header:arg-name", f"{name} != {n['ref']}"))
        if n["cplx"] in (0, 1) and cls != S_ARGCLS[n["cplx"]]:
            fails.append(("header:arg-element-class", f"{name}: {cls} but is_complex={n['cplx']}"))
        if name in argnames:
            fails.append(("bind_once:stablehlo:argument-bound-twice", name))
        argnames[name] = ix
    # ---- bind once, textually before use
    binds = {}
    events = []

    def collect(p):
        if "ref" in p:
            events.append((p["pos"], "use", p["ref"]))
        elif p.get("bind") is not None:
            events.append((p["bpos"], "bind", p["bind"]))
            binds.setdefault(p["bind"], []).append(p)

    _walk_patterns(tree["pattern"], collect)
    bound = set(argnames)
    for _pos, ev, name in sorted(events, key=lambda t: t[0]):
        if ev == "bind":
            if name in bound:
                fails.append(("bind_once:stablehlo:name-bound-twice", f"${name}"))
            bound.add(name)
        elif name not in bound:
            later = name in binds
            fails.append(("bind_once:stablehlo:" + ("reference-before-binding" if later else "unbound-name"), f"${name}"))

    # ---- guided isomorphism
    memo = {}
    dup_refs = duplicate_refs(nodes)

    def like_check(p, like_ix, ctxname):
        """The operand of a ConstantLike must have the element type of the graph's `like`."""
        try:
            match(p, like_ix)
            return
        except Fail as f:
            first = f
        name = p.get("ref") if "ref" in p else p.get("bind")
        if first.sig.startswith("tree_iso:ref-alias"):
            raise first
        if name is None or (name not in dup_refs and nodes[like_ix]["ref"] == name):
            raise first  # the operand IS the graph's like (inline or by its unique name); the defect lies deeper
        # not the same node: find which graph node the operand denotes and compare element types
        got = denoted(p)
        if got is not None and _elem_type(dump, got) == _elem_type(dump, like_ix) and nodes[got]["cplx"] == nodes[like_ix]["cplx"]:
            stats["alias_same_type"] += 1
            return
        if name in dup_refs:
            raise Fail("tree_iso:ref-alias:" + alias_class(nodes, name, dup_refs[name]), f"${name} names {len(dup_refs[name])} distinct nodes "
                       f"({', '.join(describe(i) for i in dup_refs[name][:3])}); consequence: {ctxname} is attached to {describe(got)} "
                       f"but the graph's like is {describe(like_ix)}")
        raise Fail("tree_iso:constant-like-wrong-element-type",
                   f"{ctxname}: operand denotes {describe(got)} but the graph's like is {describe(like_ix)} [{first.detail[:80]}]")

    def describe(ix):
        if ix is None:
            return "<unknown>"
        n = nodes[ix]
        return f"{n['kind']}:{n['ref']}:{n['ty'][1]}"

    def denoted(p):
        """Graph node a pattern stands for, judged from names only (for diagnostics of aliasing)."""
        name = p.get("ref") if "ref" in p else p.get("bind")
        if name is None:
            return None
        if name in argnames:
            return argnames[name]
        cands = [i for i, n in enumerate(nodes) if n["ref"] == name]
        if "ref" in p and name in binds:
            # the node at which the name was bound: use the first graph node matching the bound pattern
            for i in cands:
                try:
                    match(binds[name][0], i)
                    return i
                except Fail:
                    continue
        return cands[0] if cands else None

    active = set()

    def match(p, ix):
        key = (id(p), ix)
        if key in memo:
            if memo[key] is not True:
                raise memo[key]
            return
        if key in active:
            raise Fail("tree_iso:cyclic-binding", "a name is bound in terms of itself")
        active.add(key)
        try:
            _match(p, ix)
            memo[key] = True
        except Fail as f:
            memo[key] = f
            raise
        finally:
            active.discard(key)

    known_heads = set(S_OPS.values())

    def compat(p, ix):
        """False only when the operator of pattern p certainly cannot render graph node ix"""
        n = nodes[ix]
        if "ref" in p or p.get("args") is None:
            return True
        h = p["head"]
        if n["kind"] == "symbol":
            return False
        if n["kind"] == "constant":
            return h.startswith("StableHLO_ConstantLike")
        if h.startswith("StableHLO_ConstantLike"):
            return False
        if n["kind"] in S_CMP:
            return h == "StableHLO_CompareOp" or h not in known_heads
        if h == "StableHLO_CompareOp":
            return False
        want = S_OPS.get(n["kind"])
        return want is None or h == want or h not in known_heads

    def _match(p, ix):
        n = nodes[ix]
        stats["nodes"] += 1
        if "ref" in p:
            name = p["ref"]
            if name in argnames:
                if argnames[name] != ix:
                    raise Fail("tree_iso:wrong-operand", f"${name} is argument {describe(argnames[name])}, graph has {describe(ix)}")
                return
            if name not in binds:
                if n["kind"] == "symbol" and n["ref"] == name:
                    return  # free symbol printed by reference name (reported by the bind check)
                raise Fail("tree_iso:unresolved-reference", f"${name}")
            try:
                return match(binds[name][0], ix)
            except Fail as f:
                if name in dup_refs and not f.sig.startswith("tree_iso:ref-alias"):
                    raise Fail("tree_iso:ref-alias:" + alias_class(nodes, name, dup_refs[name]), f"${name} names {len(dup_refs[name])} distinct nodes "
                               f"({', '.join(describe(i) for i in dup_refs[name][:3])}); consequence: {f.sig}: {f.detail[:160]}")
                raise
        if p.get("args") is None:
            raise Fail("tree_iso:bare-attribute-in-operand-position", p["head"])
        if n["kind"] == "symbol":
            raise Fail("tree_iso:wrong-operand", f"({p['head']} ...) where the graph has symbol {n['ref']}")
        if p.get("bind") is not None and p["bind"] != n["ref"]:
            # a binding is a NAME for this node; under aliasing the name may belong to another node
            pass
        k = n["kind"]
        if k == "constant":
            v = n["value"]
            if "expr" in v:
                raise Fail("tree_iso:unsupported-alt-constant", "alt-context constant in stablehlo")
            if "named" in v:
                spec = S_CONSTS.get(v["named"])
                if spec is None:
                    raise Fail("tree_iso:constant-not-declared", v["named"])
                if (p["head"], p["attr"]) != spec:
                    raise Fail(f"ops_stablehlo:constant:{v['named']}", f"{p['head']}<{p['attr']}> != {spec}")
            else:
                if p["head"] != "StableHLO_ConstantLike" or p["attr"] is None:
                    raise Fail("tree_iso:constant-operator", f"{p['head']}<{p['attr']}>")
                if not literal_matches(p["attr"], v):
                    raise Fail("tree_iso:constant-value", f"{p['attr']!r} does not denote {v['lit']!r} ({v.get('exact')})")
            if len(p["args"]) != 1:
                raise Fail("tree_iso:constant-operand-count", str(len(p["args"])))
            like_check(p["args"][0], n["like"], f"constant {v.get('named', v.get('lit'))}")
            return
        if k in S_CMP:
            if p["head"] != "StableHLO_CompareOp":
                raise Fail(f"ops_stablehlo:{k}", f"{p['head']} != StableHLO_CompareOp")
            a = p["args"]
            if len(a) != len(n["args"]) + 2:
                raise Fail("tree_iso:compare-operand-count", str(len(a)))
            d, ty = a[-2], a[-1]
            if d.get("head") != "StableHLO_ComparisonDirectionValue" or d.get("args") is not None:
                raise Fail("tree_iso:compare-direction-missing", str(d)[:80])
            if d["attr"] != S_CMP[k]:
                raise Fail(f"ops_stablehlo:compare-direction:{k}", f"{d['attr']} != {S_CMP[k]}")
            if ty.get("head") != "STABLEHLO_DEFAULT_COMPARISON_TYPE" or ty.get("args") != []:
                raise Fail("tree_iso:compare-type", str(ty)[:80])
            match_operands(match, a[:-2], n["args"], k, compat)
            return
        want = S_OPS.get(k)
        if want is None or p["head"] != want or p["attr"] is not None:
            raise Fail(f"ops_stablehlo:{k}:{p['head']}", f"kind {k}: emitted operator {p['head']}, specified {want}")
        if len(p["args"]) != len(n["args"]):
            raise Fail("tree_iso:operand-count", f"{k}: {len(p['args'])} != {len(n['args'])}")
        match_operands(match, p["args"], n["args"], k, compat)

    try:
        match(tree["pattern"], dump["body"])
    except Fail as f:
        fails.append((f.sig, f.detail))
    except RecursionError:
        fails.append(("tree_iso:cyclic-binding", "reference chain does not terminate"))
    # binding names must name the node they are attached to (when names are unique in the graph)
    return fails, stats


# ------------------------------------------------------------------------------------------ XLA client (C++)

_BINPREC = {
    "*": 10, "/": 10, "%": 10, "+": 9, "-": 9, "<<": 8, ">>": 8, "<": 7, "<=": 7, ">": 7, ">=": 7,
    "==": 6, "!=": 6, "&": 5, "^": 4, "|": 3, "&&": 2, "||": 1,
}


class _X(_S):
    def qname(self):
        """ident {:: ident}, with optional <type-args> after any component; returns a string."""
        parts = [self.take()]
        if not _is_id(parts[0]):
            raise ParseError(f"identifier expected, got {parts[0]!r}")
        while True:
            if self.peek() == "<" and _is_id(self.peek(1)) and self._looks_like_targs():
                self.take("<")
                inner = self.qname()
                self.take(">")
                parts[-1] += "<" + inner + ">"
            if self.peek() == "::":
                self.take("::")
                parts.append(self.take())
            else:
                break
        return "::".join(parts)

    def _looks_like_targs(self):
        # ident < qname > : scan for the closing '>' over identifier/::/<> tokens only
        j, depth = self.i, 0
        while j < len(self.t):
            tok = self.t[j]
            if tok == "<":
                depth += 1
            elif tok == ">":
                depth -= 1
                if depth == 0:
                    return True
            elif not (_is_id(tok) or tok == "::"):
                return False
            j += 1
        return False

    def expr(self, minprec=0):
        lhs = self.unary()
        while True:
            op = self.peek()
            if op == "?" and minprec <= 0:
                self.take("?")
                a = self.expr(0)
                self.take(":")
                b = self.expr(0)
                lhs = ("tern", lhs, a, b)
                continue
            if op in _BINPREC and _BINPREC[op] >= max(minprec, 1):
                self.take()
                rhs = self.expr(_BINPREC[op] + 1)
                lhs = ("bin", op, lhs, rhs)
                continue
            return lhs

    def unary(self):
        tok = self.peek()
        if tok in ("-", "!", "~", "+"):
            self.take()
            return ("un", tok, self.unary())
        return self.postfix()

    def postfix(self):
        e = self.primary()
        while self.peek() == ".":
            self.take(".")
            m = self.take()
            self.take("(")
            args = self.args()
            e = ("method", e, m, args)
        return e

    def args(self):
        out = []
        if self.peek() != ")":
            out.append(self.expr())
            while self.peek() == ",":
                self.take(",")
                out.append(self.expr())
        self.take(")")
        return out

    def primary(self):
        tok = self.peek()
        if tok is None:
            raise ParseError("unexpected end of expression")
        if tok == "(":
            self.take("(")
            e = self.expr()
            self.take(")")
            return ("paren", e)
        if re.fullmatch(r"(?:\d+\.\d*|\.\d+|\d+)(?:[eE][+-]?\d+)?", tok):
            self.take()
            return ("num", tok, self.i)
        if _is_id(tok):
            pos = self.i
            name = self.qname()
            if self.peek() == "(":
                self.take("(")
                return ("call", name, self.args(), pos)
            return ("var", name, pos)
        raise ParseError(f"unexpected token {tok!r} in expression")


def parse_xla(text):
    s = _X(lex(text))
    tparam = None
    if s.peek() == "template":
        s.take("template")
        s.take("<")
        s.take("typename")
        tparam = s.take()
        s.take(">")
    rtype = s.qname()
    fname = s.take()
    s.take("(")
    params = []
    while s.peek() != ")":
        t = s.qname()
        n = s.take()
        params.append((t, n))
        if s.peek() == ",":
            s.take(",")
    s.take(")")
    s.take("{")
    stmts = []
    while s.peek() != "return":
        t = s.qname()
        v = s.take()
        if not _is_id(v):
            raise ParseError(f"variable name expected, got {v!r}")
        pos = s.i
        s.take("=")
        e = s.expr()
        s.take(";")
        stmts.append(dict(type=t, var=v, expr=e, pos=pos))
    s.take("return")
    ret = s.expr()
    s.take(";")
    s.take("}")
    if s.peek() is not None:
        raise ParseError("trailing tokens")
    return dict(tparam=tparam, rtype=rtype, fname=fname, params=params, stmts=stmts, ret=ret)


# trusted: expression kind -> xla client builder function (xla/client/xla_builder.h, lib/math.h, lib/constants.h)
X_CALLS = dict(
    absolute="Abs", negative="Neg", add="Add", subtract="Sub", multiply="Mul", divide="Div", remainder="Rem", pow="Pow",
    logical_and="And", logical_or="Or", logical_xor="Xor", logical_not="Not", maximum="Max", minimum="Min",
    acos="Acos", acosh="Acosh", asin="Asin", asinh="Asinh", atan="Atan", atanh="Atanh", atan2="Atan2", cos="Cos", cosh="Cosh",
    sin="Sin", sinh="Sinh", tan="Tan", tanh="Tanh", exp="Exp", expm1="Expm1", log="Log", log1p="Log1p", log2="Log2", log10="Log10",
    ceil="Ceil", floor="Floor", round="Round", sign="Sign", real="Real", imag="Imag", complex="Complex", square="Square", sqrt="Sqrt",
    select="Select", lt="Lt", le="Le", gt="Gt", ge="Ge", eq="Eq", ne="Ne", is_finite="IsFinite", is_inf="IsInf",
    is_posinf="IsPosInf", is_neginf="IsNegInf", is_nan="IsNan", is_negzero="IsNegZero", nextafter="NextAfter", conjugate="Conj",
)
# XlaOp overloads the C++ operators below (xla_builder.h)
X_INFIX = dict(bitwise_and="&", bitwise_or="|", bitwise_xor="^", bitwise_left_shift="<<", bitwise_right_shift=">>")
X_PREFIX = dict(bitwise_invert="~")
X_TYPES = {"float": "XlaOp", "complex": "XlaOp", "boolean": "XlaOp"}

# trusted: expression kind -> C++ rendering used for compile-time (alternative context) expressions
CPP_CALLS = dict(
    absolute="std::abs", maximum="std::max", minimum="std::min", acos="std::acos", acosh="std::acosh", asin="std::asin",
    asinh="std::asinh", atan="std::atan", atanh="std::atanh", atan2="std::atan2", cos="std::cos", cosh="std::cosh",
    sin="std::sin", sinh="std::sinh", tan="std::tan", tanh="std::tanh", exp="std::exp", expm1="std::expm1", log="std::log",
    log1p="std::log1p", log2="std::log2", log10="std::log10", ceil="std::ceil", floor="std::floor", round="std::round",
    sqrt="std::sqrt", is_finite="std::isfinite",
)
CPP_INFIX = dict(add="+", subtract="-", multiply="*", divide="/", remainder="%", logical_and="&&", logical_or="||",
                 bitwise_and="&", bitwise_or="|", bitwise_xor="^", bitwise_left_shift="<<", bitwise_right_shift=">>",
                 lt="<", le="<=", gt=">", ge=">=", eq="==", ne="!=")
CPP_PREFIX = dict(negative="-", logical_not="!", bitwise_invert="~")
CPP_METHOD = dict(real="real", imag="imag")
CPP_TYPES = dict(integer8="int8_t", integer16="int16_t", integer32="int32_t", integer64="int64_t", integer="int64_t",
                 float32="float", float64="double", float="double", complex64="std::complex<float>",
                 complex128="std::complex<double>", complex="std::complex<double>", boolean="bool")
CPP_LIMITS = dict(smallest="min", largest="max", posinf="infinity")


def _strip(e):
    while e[0] == "paren":
        e = e[1]
    return e


def _unparen1(e, what):
    if e[0] != "paren":
        raise Fail("tree_iso:template-shape", f"{what}: operand is not parenthesised as the specification requires")
    return e[1]


def _target_type(ty, table):
    if ty[0] == "T":
        return ty[1]
    if ty[0] == "N":
        return table.get(ty[1])
    return None


def check_xla(text, dump):
    _SPEC[0] = 0
    try:
        return _check_xla(text, dump)
    except RecursionError:
        return [("tree_iso:cyclic-definition", "variable definitions do not terminate")], dict(alias_same_type=0, nodes=0)


def _check_xla(text, dump):
    fails = []
    stats = dict(alias_same_type=0, nodes=0)
    try:
        fn = parse_xla(text)
    except ParseError as e:
        return [("parse:xla_client:" + str(e).split(" at ")[0][:40], str(e))], stats
    nodes = dump["nodes"]
    # ---- header
    exp_name = dump["prop_name"] if dump["prop_name"] is not None else dump["fname"]
    if fn["fname"] != exp_name:
        fails.append(("header:function-name", f"{fn['fname']} != {exp_name}"))
    if fn["tparam"] != dump["tmpl_param"]:
        fails.append(("header:template-parameter", f"{fn['tparam']} != {dump['tmpl_param']}"))
    params = {}
    if len(fn["params"]) != len(dump["args"]):
        fails.append(("header:arg-count", f"{len(fn['params'])} != {len(dump['args'])}"))
    for (t, name), ix in zip(fn["params"], dump["args"]):
        n = nodes[ix]
        if name != n["name"]:
            fails.append(("header:arg-name", f"{name} != {n['name']}"))
        want = _target_type(n["ty"], X_TYPES)
        if want is not None and t != want:
            fails.append(("header:arg-type", f"{name}: {t} != {want}"))
        if name in params:
            fails.append(("bind_once:xla_client:parameter-declared-twice", name))
        params[name] = ix
    want = _target_type(dump["body_ty"], X_TYPES)
    if want is not None and fn["rtype"] != want:
        fails.append(("header:return-type", f"{fn['rtype']} != {want}"))

    # ---- every variable assigned once, before use (SSA in statement order)
    KNOWN_GLOBALS = {"M_PI", "NAN"}
    assigned = {}
    bound = set(params)

    def uses(e, acc):
        k = e[0]
        if k == "var":
            acc.append(e[1])
        elif k == "num":
            pass
        elif k in ("paren",):
            uses(e[1], acc)
        elif k == "un":
            uses(e[2], acc)
        elif k == "bin":
            uses(e[2], acc)
            uses(e[3], acc)
        elif k == "tern":
            for x in e[1:]:
                uses(x, acc)
        elif k == "call":
            for t, x in enumerate(e[2]):
                if e[1] == "ScalarLike" and t == 0 and x[0] == "var":
                    acc.append("like:" + x[1])
                else:
                    uses(x, acc)
        elif k == "method":
            uses(e[1], acc)
            for x in e[3]:
                uses(x, acc)
        return acc

    def check_uses(e, where):
        for v in uses(e, []):
            role = "variable"
            if v.startswith("like:"):
                v, role = v[5:], "like"
            if v in bound or v in KNOWN_GLOBALS or "::" in v:
                continue
            later = any(s["var"] == v for s in fn["stmts"])
            if role == "like":
                sig = "bind_once:xla_client:like-variable-not-defined-before-use"
            else:
                sig = "bind_once:xla_client:" + ("variable-used-before-definition" if later else "undefined-variable")
            fails.append((sig, f"`{v}` ({'defined later' if later else 'never defined'}) in {where}"))

    for st in fn["stmts"]:
        check_uses(st["expr"], f"definition of {st['var']}")
        if st["var"] in bound:
            fails.append(("bind_once:xla_client:variable-defined-twice", st["var"]))
        bound.add(st["var"])
        assigned.setdefault(st["var"], st)
    check_uses(fn["ret"], "return expression")

    # ---- guided isomorphism
    memo = {}
    dup_refs = duplicate_refs(nodes)

    def describe(ix):
        if ix is None:
            return "<unknown>"
        n = nodes[ix]
        return f"{n['kind']}:{n['ref']}:{n['ty'][1]}"

    def var_node(name):
        """graph node a variable stands for (first node the defining expression matches)"""
        if name in params:
            return params[name]
        st = assigned.get(name)
        if st is None:
            return None
        for i, n in enumerate(nodes):
            if n["ref"] == name:
                try:
                    match(st["expr"], i, n["alt"], top=True)
                    return i
                except Fail:
                    continue
        return None

    active = set()

    def match(e, ix, alt, top=False):
        key = (id(e), ix, alt, top)
        if key in memo:
            if memo[key] is not True:
                raise memo[key]
            return
        if key in active:
            raise Fail("tree_iso:cyclic-definition", "a variable is defined in terms of itself")
        active.add(key)
        try:
            _match(e, ix, alt, top)
            memo[key] = True
        except Fail as f:
            memo[key] = f
            raise
        finally:
            active.discard(key)

    def match_var(name, ix, alt):
        n = nodes[ix]
        if name in params:
            if params[name] != ix:
                raise Fail("tree_iso:wrong-operand", f"`{name}` is parameter {describe(params[name])}, graph has {describe(ix)}")
            return
        st = assigned.get(name)
        if st is None:
            if n["kind"] == "symbol" and n["name"] == name:
                return  # free symbol (reported by the bind check)
            raise Fail("tree_iso:unresolved-variable", name)
        try:
            # declared type of the variable
            want = _target_type(n["ty"], CPP_TYPES if n["alt"] else X_TYPES)
            if want is not None and st["type"] != want:
                raise Fail("tree_iso:variable-declared-with-wrong-type", f"{st['type']} {name}: specified {want}")
            match(st["expr"], ix, n["alt"], top=True)
        except Fail as f:
            if name in dup_refs and not f.sig.startswith("tree_iso:ref-alias"):
                raise Fail("tree_iso:ref-alias:" + alias_class(nodes, name, dup_refs[name]), f"`{name}` names {len(dup_refs[name])} distinct nodes "
                           f"({', '.join(describe(i) for i in dup_refs[name][:3])}); consequence: {f.sig}: {f.detail[:160]}")
            raise

    def literal_ok(e, lit):
        """expression e is exactly the literal text `lit` (token-wise)"""
        return lex(unparse(e)) == lex(lit)

    def unparse(e):
        k = e[0]
        if k == "num":
            return e[1]
        if k == "var":
            return e[1]
        if k == "paren":
            return "(" + unparse(e[1]) + ")"
        if k == "un":
            return e[1] + unparse(e[2])
        if k == "bin":
            return unparse(e[2]) + " " + e[1] + " " + unparse(e[3])
        if k == "call":
            return e[1] + "(" + ", ".join(map(unparse, e[2])) + ")"
        if k == "method":
            return unparse(e[1]) + "." + e[2] + "(" + ", ".join(map(unparse, e[3])) + ")"
        if k == "tern":
            return unparse(e[1]) + " ? " + unparse(e[2]) + " : " + unparse(e[3])
        return "?"

    def match_value(e, n, alt_type):
        """compile-time literal / named constant `n['value']` rendered in C++"""
        v = n["value"]
        if "named" in v:
            name = v["named"]
            if name in CPP_LIMITS or name == "neginf":
                neg = name == "neginf"
                if neg:
                    if e[0] != "un" or e[1] != "-":
                        raise Fail(f"ops_cpp:constant:{name}", unparse(e))
                    e = e[2]
                fnname = CPP_LIMITS["posinf" if neg else name]
                if e[0] != "call" or e[2] != [] or not re.fullmatch(r"std::numeric_limits<(.+)>::" + fnname, e[1]):
                    raise Fail(f"ops_cpp:constant:{name}", unparse(e))
                t = re.fullmatch(r"std::numeric_limits<(.+)>::" + fnname, e[1]).group(1)
                if alt_type is not None and t != alt_type:
                    raise Fail("tree_iso:constant-printed-with-wrong-dtype", f"numeric_limits<{t}> but the constant has type {alt_type}")
                return
            if name == "pi":
                if not (e[0] == "var" and e[1] == "M_PI"):
                    raise Fail("ops_cpp:constant:pi", unparse(e))
                return
            if name == "nan":
                if not (e[0] == "var" and e[1] == "NAN"):
                    raise Fail("ops_cpp:constant:nan", unparse(e))
                return
            raise Fail("tree_iso:constant-not-declared", name)
        lit = v["lit"]
        if lit in ("inf", "-inf"):
            inner = _strip(e)
            if lit == "-inf":
                if e[0] != "paren" or inner[0] != "un" or inner[1] != "-":
                    raise Fail("tree_iso:constant-value", f"{unparse(e)} for -inf")
                inner = inner[2]
            m = inner[0] == "call" and re.fullmatch(r"std::numeric_limits<(.+)>::infinity", inner[1])
            if not m:
                raise Fail("tree_iso:constant-value", f"{unparse(e)} for {lit}")
            if alt_type is not None and m.group(1) != alt_type:
                raise Fail("tree_iso:constant-printed-with-wrong-dtype", f"numeric_limits<{m.group(1)}> but the like has type {alt_type}")
            return
        if not literal_matches(unparse(e), v):
            raise Fail("tree_iso:constant-value", f"{unparse(e)!r} does not denote {lit!r} ({v.get('exact')})")

    def like_check(lv, like_ix, what):
        if lv[0] != "var":
            raise Fail("tree_iso:constant-like-not-a-variable", unparse(lv))
        try:
            match_var(lv[1], like_ix, False)
            return
        except Fail as f:
            first = f
        if first.sig.startswith("tree_iso:ref-alias"):
            raise first
        if lv[1] not in dup_refs and nodes[like_ix]["ref"] == lv[1] and (lv[1] in assigned or lv[1] in params):
            raise first  # the variable IS the graph's like; the defect lies deeper
        got = var_node(lv[1])
        if got is None and lv[1] not in assigned and lv[1] not in params:
            # the variable does not exist at all: reported by the bind check; type cannot be judged
            if nodes[like_ix]["ref"] == lv[1]:
                return
        if got is not None and _elem_type(dump, got) == _elem_type(dump, like_ix) and nodes[got]["cplx"] == nodes[like_ix]["cplx"]:
            stats["alias_same_type"] += 1
            return
        if lv[1] in dup_refs:
            raise Fail("tree_iso:ref-alias:" + alias_class(nodes, lv[1], dup_refs[lv[1]]), f"`{lv[1]}` names {len(dup_refs[lv[1]])} distinct nodes "
                       f"({', '.join(describe(i) for i in dup_refs[lv[1]][:3])}); consequence: {what} is attached to {describe(got)} "
                       f"but the graph's like is {describe(like_ix)}")
        raise Fail("tree_iso:constant-like-wrong-element-type",
                   f"{what}: ScalarLike({lv[1]}, ..) where {lv[1]} is {describe(got)} but the graph's like is {describe(like_ix)} [{first.detail[:80]}]")

    known_calls = set(X_CALLS.values())
    known_cpp = set(CPP_CALLS.values())

    def compat_for(alt):
        def compat(e, ix):
            """False only when the operator of expression e certainly cannot render graph node ix"""
            n = nodes[ix]
            e = _strip(e)
            if e[0] != "call":
                return True
            if n["kind"] == "symbol":
                return False
            if not alt:
                if n["kind"] == "constant":
                    return e[1] == "ScalarLike"
                if e[1] == "ScalarLike":
                    return False
                want = X_CALLS.get(n["kind"])
                return want is None or e[1] == want or e[1] not in known_calls
            if n["kind"] == "constant":
                return e[1].startswith("std::numeric_limits")
            want = CPP_CALLS.get(n["kind"])
            return want is None or e[1] == want or e[1] not in known_cpp
        return compat

    def _match(e, ix, alt, top):
        n = nodes[ix]
        stats["nodes"] += 1
        k = n["kind"]
        if e[0] == "var" and not (alt and e[1] in ("M_PI", "NAN") and k == "constant"):
            if not top or e[1] in params or e[1] in assigned:
                return match_var(e[1], ix, alt)
        if k == "symbol":
            if e[0] == "var" and e[1] == n["name"]:
                return
            raise Fail("tree_iso:wrong-operand", f"{unparse(e)[:40]} where the graph has symbol {n['name']}")
        if k == "constant":
            v = n["value"]
            if not alt:
                if e[0] != "call" or e[1] != "ScalarLike" or len(e[2]) != 2:
                    raise Fail("tree_iso:constant-operator", unparse(e)[:60])
                lv, val = e[2]
                like_check(lv, n["like"], f"constant {v.get('named', v.get('lit', '<expr>'))}")
                if "expr" in v:
                    return match(val, v["expr"], True)
                if "named" in v:
                    raise Fail("tree_iso:constant-not-declared", v["named"])
                return match_value(val, n, None)
            alt_type = _target_type(nodes[n["like"]]["ty"], CPP_TYPES) if "named" not in v else _target_type(n["ty"], CPP_TYPES)
            return match_value(e, n, alt_type)
        a = n["args"]
        if not alt:
            if k == "positive":
                return match(_unparen1(e, "positive"), a[0], alt)
            if k in X_INFIX:
                if e[0] != "bin" or e[1] != X_INFIX[k]:
                    raise Fail(f"ops_xla_client:{k}", unparse(e)[:60])
                match_operands(lambda q, j: match(q, j, alt), [_unparen1(e[2], k), _unparen1(e[3], k)], a, k, compat_for(alt))
                return
            if k in X_PREFIX:
                if e[0] != "un" or e[1] != X_PREFIX[k]:
                    raise Fail(f"ops_xla_client:{k}", unparse(e)[:60])
                return match(_unparen1(e[2], k), a[0], alt)
            want = X_CALLS.get(k)
            if e[0] != "call" or want is None or e[1] != want:
                got = e[1] if e[0] == "call" else unparse(e)[:30]
                raise Fail(f"ops_xla_client:{k}:{got}", f"kind {k}: emitted {got}, specified {want}")
            if len(e[2]) != len(a):
                raise Fail("tree_iso:operand-count", f"{k}: {len(e[2])} != {len(a)}")
            match_operands(lambda q, j: match(q, j, alt), e[2], a, k, compat_for(alt))
            return
        # compile-time (alternative context) expression rendered by the C++ constant printer
        if k == "positive":
            return match(_unparen1(e, "positive"), a[0], alt)
        if k in CPP_INFIX:
            if e[0] != "bin" or e[1] != CPP_INFIX[k]:
                raise Fail(f"ops_cpp:{k}", unparse(e)[:60])
            match_operands(lambda q, j: match(q, j, alt), [_unparen1(e[2], k), _unparen1(e[3], k)], a, k, compat_for(alt))
            return
        if k in CPP_PREFIX:
            if e[0] != "un" or e[1] != CPP_PREFIX[k]:
                raise Fail(f"ops_cpp:{k}", unparse(e)[:60])
            return match(_unparen1(e[2], k), a[0], alt)
        if k in CPP_METHOD:
            if e[0] != "method" or e[2] != CPP_METHOD[k] or e[3] != []:
                raise Fail(f"ops_cpp:{k}", unparse(e)[:60])
            return match(_unparen1(e[1], k), a[0], alt)
        if k == "select":
            inner = _unparen1(e, k)
            if inner[0] != "tern":
                raise Fail("ops_cpp:select", unparse(e)[:60])
            match_operands(lambda q, j: match(q, j, alt), [_unparen1(q, k) for q in inner[1:]], a, k, compat_for(alt))
            return
        if k == "sign":
            # (x == 0 ? x : std::copysign(1, x))
            inner = _unparen1(e, k)
            ok = (inner[0] == "tern" and inner[1][0] == "bin" and inner[1][1] == "==" and inner[1][3][0] == "num" and inner[1][3][1] == "0"
                  and inner[3][0] == "call" and inner[3][1] == "std::copysign" and len(inner[3][2]) == 2 and inner[3][2][0][:2] == ("num", "1"))
            if not ok:
                raise Fail("ops_cpp:sign", unparse(e)[:60])
            for q in (inner[1][2], inner[2], inner[3][2][1]):
                match(q, a[0], alt)
            return
        if k == "complex":
            if e[0] != "call" or not e[1].startswith("std::complex<") or len(e[2]) != 2:
                raise Fail("ops_cpp:complex", unparse(e)[:60])
            for q, j in zip(e[2], a):
                match(q, j, alt)
            return
        want = CPP_CALLS.get(k)
        if e[0] != "call" or want is None or e[1] != want:
            got = e[1] if e[0] == "call" else unparse(e)[:30]
            raise Fail(f"ops_cpp:{k}:{got}", f"kind {k}: emitted {got}, specified {want}")
        if len(e[2]) != len(a):
            raise Fail("tree_iso:operand-count", f"{k}: {len(e[2])} != {len(a)}")
        match_operands(lambda q, j: match(q, j, alt), e[2], a, k, compat_for(alt))

    try:
        match(fn["ret"], dump["body"], False)
    except Fail as f:
        fails.append((f.sig, f.detail))
    except RecursionError:
        fails.append(("tree_iso:cyclic-definition", "variable definitions do not terminate"))
    # every assignment must define a graph node of that reference name with the declared type
    for st in fn["stmts"]:
        cands = [i for i, n in enumerate(nodes) if n["ref"] == st["var"]]
        if not cands:
            fails.append(("tree_iso:assignment-of-unknown-node", st["var"]))
            continue
        ok = False
        last = None
        for i in cands:
            n = nodes[i]
            try:
                want = _target_type(n["ty"], CPP_TYPES if n["alt"] else X_TYPES)
                if want is not None and st["type"] != want:
                    raise Fail("tree_iso:variable-declared-with-wrong-type", f"{st['type']} {st['var']}: specified {want}")
                match(st["expr"], i, n["alt"], top=True)
                ok = True
                break
            except Fail as f:
                last = f
        if not ok and last is not None and (last.sig, last.detail) not in fails:
            if st["var"] in dup_refs and not last.sig.startswith("tree_iso:ref-alias"):
                last = Fail("tree_iso:ref-alias:" + alias_class(nodes, st["var"], dup_refs[st["var"]]), f"`{st['var']}` names {len(dup_refs[st['var']])} distinct nodes "
                            f"({', '.join(describe(i) for i in dup_refs[st['var']][:3])}); consequence: {last.sig}: {last.detail[:160]}")
            if (last.sig, last.detail) not in fails:
                fails.append((last.sig, last.detail))
    return fails, stats
