"""Worker process for C06: builds expression graphs with the REAL functional_algorithms API and
prints them with the REAL StableHLO / XLA-client printers.

stdin : one JSON document {"jobs": [job, ...]}
stdout: one JSON document  [result, ...]   (same order)

job (recipe)  : {"mode": "recipe", "target": "stablehlo"|"xla_client", "alt": bool, "dct": str|null,
                 "fname": str, "args": [[name, type], ...], "steps": [step, ...], "body": idx,
                 "props": {..}, "rewrite": bool}
   steps (nodes 0..nargs-1 are the arguments; every node-creating step appends one node):
     ["sym", name, type]                      free symbol
     ["const", valspec, like_idx|null]        ctx.constant(value[, like])
     ["op", kind, [idx, ...]]                 Expr(ctx, kind, operands)   (what the ctx.<kind> methods do)
     ["pyop", kind, [idx | {"py": valspec}]]  same, with Python numbers among the operands (normalize path)
     ["ref", idx, name|null, force|null]      node.reference(ref_name=name, force=force)      (no new node)
   valspec: ["i", int] | ["f", float.hex] | ["f32", float.hex] | ["f64", float.hex] | ["s", name] | ["b", bool]
job (shipped) : {"mode": "shipped", "target": ..., "alt": bool, "dct": ..., "func": name, "sig": [..],
                 "rewrite": true, "format": bool}

result: {"text": str|null, "exc": str|null, "warn": [category, ...], "dump": {...}|null, "steps_nodes": [...]}

The dump is the graph AS THE PRINTER SEES IT (public attributes of the real Expr objects after
printing): kinds, operands, `ref`, `force_ref`, `get_type()`, `is_complex`; it is the common input of
the Lean model (which ports compute_need_ref + the printers) and of the independent oracle.
"""

import json
import sys
import warnings


def _load():
    import functional_algorithms as fa  # noqa: F401
    from functional_algorithms import algorithms, targets, rewrite, utils  # noqa: F401
    from functional_algorithms import expr as expr_mod

    return fa, algorithms, targets, rewrite, utils, expr_mod


def mkval(spec):
    import numpy

    t, v = spec
    if t == "i":
        return int(v)
    if t == "f":
        return float.fromhex(v)
    if t == "f32":
        return numpy.float32(float.fromhex(v))
    if t == "f64":
        return numpy.float64(float.fromhex(v))
    if t == "s":
        return str(v)
    if t == "b":
        return bool(v)
    raise ValueError(spec)


def warn_category(msg):
    if msg.startswith("undefined reference"):
        return "undefined-reference"
    if "is not implemented in" in msg and msg.startswith("Constant"):
        return "constant-not-implemented"
    if "constant_to_target does not implement" in msg:
        return "constant-not-implemented"
    if "unexpected operand type" in msg:
        return "alt-operand-type"
    if "creating constant from unknown constant name" in msg:
        return "unknown-constant-name"
    if "wrapper is overwritten" in msg:
        return None
    if "unknown kind" in msg:
        return "unknown-kind"
    return "other:" + msg[:60]


def exact_value(v):
    """exact value of a numeric constant, independent of how it is printed"""
    import numpy

    if isinstance(v, (bool, numpy.bool_)):
        return ["b", bool(v)]
    if isinstance(v, (int, numpy.integer)):
        return ["i", int(v)]
    if isinstance(v, (float, numpy.floating)):
        return ["f", float(v).hex()]
    return ["o", str(v)]


def type_info(e):
    try:
        t = e.get_type()
    except Exception as ex:  # Expr.get_type is partial
        return ["E", type(ex).__name__]
    try:
        if t.kind == "type":
            return ["T", str(t.param)]
        return ["N", str(t)]
    except Exception as ex:
        return ["E", type(ex).__name__]


def cplx_info(e):
    try:
        return 1 if e.is_complex else 0
    except Exception:
        return 2


def dump_graph(Expr, graph, main_ctx):
    """Post-order list of the Expr nodes reachable from the apply node."""
    index = {}
    nodes = []

    def visit(e):
        k = id(e)
        if k in index:
            return index[k]
        if e.kind == "symbol":
            payload = dict(name=str(e.operands[0]))
        elif e.kind == "constant":
            value, like = e.operands
            if isinstance(value, Expr):
                vs = dict(expr=visit(value))
            elif isinstance(value, str):
                vs = dict(named=value)
            else:
                vs = dict(lit=str(value), fmt=f"{value}", pytype=type(value).__name__, exact=exact_value(value))
            payload = dict(value=vs, like=visit(like))
        elif e.kind == "apply":
            raise RuntimeError("nested apply")
        else:
            payload = dict(args=[visit(o) for o in e.operands])
        node = dict(kind=e.kind, ref=e.ref, force=bool(e.props.get("force_ref", False)), ty=type_info(e), cplx=cplx_info(e),
                    alt=e.context is not main_ctx, **payload)
        index[k] = len(nodes)
        nodes.append(node)
        return index[k]

    name = graph.operands[0]
    args = graph.operands[1:-1]
    body = graph.operands[-1]
    arg_ix = [visit(a) for a in args]
    body_ix = visit(body)
    dl = main_ctx.default_like if main_ctx._default_constant_type is not None else None
    return dict(
        nodes=nodes, args=arg_ix, body=body_ix,
        fname_ref=name.ref, fname=str(name.operands[0]), fname_force=bool(name.props.get("force_ref", False)),
        prop_name=graph.props.get("name"), expander=graph.props.get("expander_name"),
        tmpl_param=(str(dl.operands[1]) if dl is not None else None),
        body_ty=type_info(body),
    )


def run_job(job, mods):
    fa, algorithms, targets, rewrite, utils, expr_mod = mods
    Expr = expr_mod.Expr
    target = getattr(targets, job["target"])
    res = dict(text=None, exc=None, warn=[], dump=None)
    with warnings.catch_warnings(record=True) as wlist:
        warnings.simplefilter("always")
        try:
            ctx = fa.Context(paths=[algorithms], enable_alt=bool(job.get("alt")), default_constant_type=job.get("dct"))
            if job["mode"] == "shipped":
                func = getattr(algorithms, job["func"])
                graph = ctx.trace(func, *job["sig"])
                if job.get("rewrite", True):
                    graph = graph.rewrite(target, rewrite)
            else:
                nodes = []
                for name, typ in job["args"]:
                    nodes.append(ctx.symbol(name, typ).reference(ref_name=name))
                nargs = len(nodes)
                for st in job["steps"]:
                    op = st[0]
                    if op == "sym":
                        nodes.append(ctx.symbol(st[1], st[2]))
                    elif op == "const":
                        v = mkval(st[1])
                        nodes.append(ctx.constant(v) if st[2] is None else ctx.constant(v, nodes[st[2]]))
                    elif op == "op":
                        nodes.append(Expr(ctx, st[1], tuple(nodes[i] for i in st[2])))
                    elif op == "pyop":
                        nodes.append(Expr(ctx, st[1], tuple(nodes[i] if isinstance(i, int) else mkval(i["py"]) for i in st[2])))
                    elif op == "ref":
                        kw = {}
                        if st[2] is not None:
                            kw["ref_name"] = st[2]
                        nodes[st[1]].reference(force=st[3], **kw)
                    else:
                        raise ValueError(st)
                fname = ctx.symbol(job["fname"]).reference(ref_name=job["fname"])
                graph = expr_mod.make_apply(ctx, fname, tuple(nodes[:nargs]), nodes[job["body"]])
                if job.get("rewrite"):
                    graph = graph.rewrite(target, rewrite)
            for k, v in (job.get("props") or {}).items():
                graph.props[k] = v
            res["built"] = True
        except Exception as ex:
            res["exc"] = "build:" + type(ex).__name__
            res["exc_msg"] = str(ex)[:300]
            graph = None
        if graph is not None:
            try:
                res["text"] = graph.tostring(target)
            except Exception as ex:
                res["exc"] = type(ex).__name__
                res["exc_msg"] = str(ex)[:300]
            try:
                res["dump"] = dump_graph(Expr, graph, ctx)
            except Exception as ex:
                res["dump_exc"] = f"{type(ex).__name__}: {ex}"[:300]
    for w in wlist:
        c = warn_category(str(w.message))
        if c is not None:
            res["warn"].append(c)
    return res


def main():
    import resource

    # a printer that loses sharing builds exponentially large strings: bound the damage
    try:
        resource.setrlimit(resource.RLIMIT_AS, (3 << 30, 3 << 30))
    except (ValueError, OSError):
        pass
    doc = json.load(sys.stdin)
    real_stdout = sys.stdout
    sys.stdout = sys.stderr  # the repo prints diagnostics (format_cpp, get_like) on stdout
    mods = _load()
    utils = mods[4]
    real_format = utils.format_cpp
    out = []
    import signal

    class JobTimeout(BaseException):
        pass

    def on_alarm(signum, frame):
        raise JobTimeout()

    # CPU time of this process, not wall-clock time: the limit must not depend on how loaded the machine is
    signal.signal(signal.SIGPROF, on_alarm)
    limit = int(doc.get("job_timeout", 3))
    for job in doc["jobs"]:
        # clang-format only re-flows white space; generated graphs skip the subprocess (speed),
        # shipped functions keep the real formatter when asked to.
        utils.format_cpp = real_format if job.get("format") else (lambda code: code)
        signal.setitimer(signal.ITIMER_PROF, limit)
        try:
            out.append(run_job(job, mods))
        except MemoryError:
            out.append(dict(text=None, exc="Timeout", exc_msg="printing exhausted the memory limit", warn=[], dump=None))
        except JobTimeout:
            # printing one graph normally takes milliseconds; a blow-up (e.g. sharing lost) must not stall the check
            out.append(dict(text=None, exc="Timeout", exc_msg=f"printing took more than {limit}s of CPU time", warn=[], dump=None))
        except Exception as ex:  # never lose the batch
            out.append(dict(text=None, exc="worker:" + type(ex).__name__, exc_msg=str(ex)[:300], warn=[], dump=None))
        finally:
            signal.setitimer(signal.ITIMER_PROF, 0)
    utils.format_cpp = real_format
    sys.stdout = real_stdout
    json.dump(out, sys.stdout)


if __name__ == "__main__":
    main()
