"""C05 — independent interpreter of an expression DAG ("direct evaluation of the graph").

One primitive application per node, memoised by node identity; reads only `kind`, `operands`,
constant values and declared types of the real `Expr` objects; never looks at reference names,
need_ref, templates or the printers.  Primitive libraries (the trusted per-kind primitive table,
written here independently of the Lean table):
  python : operators and `math`
  numpy  : operators and numpy ufuncs on NumPy scalars of the declared dtype
  cpp    : IEEE float/double arithmetic (NumPy scalars) and the C library `libm` through ctypes
           (`sinf` for float, `sin` for double, ...), `std::max/min` as `(a<b)?b:a` / `(b<a)?b:a`
Exceptions are values (`Exc`): Python evaluates conditional expressions lazily, so the emitted code
may or may not evaluate a raising sub-expression depending on inlining; `evaluate` returns the lazy
result and whether *any* node raises under eager evaluation.
"""

import ctypes
import math
import operator
import struct
import sys
import warnings

import numpy


class Exc:
    def __init__(self, e):
        self.name = type(e).__name__
        self.msg = str(e)[:100]

    def __repr__(self):
        return f"Exc({self.name})"


class Unsupported(Exception):
    pass


# ----------------------------------------------------------------------------- canonical results

def fbits(x):
    return struct.unpack("<Q", struct.pack("<d", float(x)))[0]


def canon_float_bits(bits, nbits):
    eb = {16: 5, 32: 8, 64: 11}[nbits]
    fb = nbits - 1 - eb
    if (bits >> fb) & ((1 << eb) - 1) == (1 << eb) - 1 and bits & ((1 << fb) - 1):
        return "nan"
    return bits


def canon(v):
    """type-tagged bit pattern; NaN = NaN"""
    if isinstance(v, Exc):
        return ["exc", v.name]
    if isinstance(v, (list, tuple)):
        return ["list"] + [canon(x) for x in v]
    if isinstance(v, numpy.ndarray):
        if v.ndim == 0:
            v = v[()]
        else:
            return ["array", str(v.dtype)] + [canon(x) for x in v.tolist()]
    if isinstance(v, (bool, numpy.bool_)):
        return ["bool", int(bool(v))]
    if isinstance(v, numpy.floating):
        n = v.dtype.itemsize * 8
        if n > 64:
            return ["f%d" % n, repr(v)]
        u = {16: numpy.uint16, 32: numpy.uint32, 64: numpy.uint64}[n]
        return ["f%d" % n, canon_float_bits(int(numpy.array([v]).view(u)[0]), n)]
    if isinstance(v, numpy.complexfloating):
        return ["c%d" % (v.dtype.itemsize * 8), canon(v.real)[1], canon(v.imag)[1]]
    if isinstance(v, numpy.integer):
        return ["i%d" % (v.dtype.itemsize * 8), int(v)]
    if isinstance(v, int):
        return ["pyint", v]
    if isinstance(v, float):
        return ["pyfloat", canon_float_bits(fbits(v), 64)]
    if isinstance(v, complex):
        return ["pycomplex", canon_float_bits(fbits(v.real), 64), canon_float_bits(fbits(v.imag), 64)]
    return ["other", type(v).__name__, repr(v)[:60]]


# ----------------------------------------------------------------------------- primitive tables

def _py_sign(a):
    return 0 if a == 0 else math.copysign(1, a)


PY_PRIM = dict(
    negative=operator.neg, positive=operator.pos, absolute=abs, add=operator.add, subtract=operator.sub,
    multiply=operator.mul, divide=operator.truediv, remainder=operator.mod, floor_divide=operator.floordiv, pow=operator.pow,
    logical_not=operator.not_, bitwise_invert=operator.invert, bitwise_and=operator.and_, bitwise_or=operator.or_,
    bitwise_xor=operator.xor, bitwise_left_shift=operator.lshift, bitwise_right_shift=operator.rshift,
    maximum=lambda a, b: max(a, b), minimum=lambda a, b: min(a, b),
    acos=math.acos, acosh=math.acosh, asin=math.asin, asinh=math.asinh, atan=math.atan, atanh=math.atanh, atan2=math.atan2,
    cos=math.cos, cosh=math.cosh, sin=math.sin, sinh=math.sinh, tan=math.tan, tanh=math.tanh, exp=math.exp, expm1=math.expm1,
    log=math.log, log1p=math.log1p, log2=math.log2, log10=math.log10, ceil=math.ceil, floor=math.floor,
    copysign=math.copysign, sign=_py_sign, truncate=math.trunc, conjugate=lambda a: a.conjugate(),
    real=lambda a: a.real, imag=lambda a: a.imag, complex=lambda a, b: complex(a, b), sqrt=math.sqrt,
    lt=operator.lt, le=operator.le, gt=operator.gt, ge=operator.ge, eq=operator.eq, ne=operator.ne, is_finite=math.isfinite,
)

NP_UFUNC = dict(
    absolute="abs", logical_and="logical_and", logical_or="logical_or", logical_not="logical_not", acos="arccos",
    acosh="arccosh", asin="arcsin", asinh="arcsinh", atan="arctan", atanh="arctanh", atan2="arctan2", cos="cos", cosh="cosh",
    sin="sin", sinh="sinh", tan="tan", tanh="tanh", exp="exp", exp2="exp2", expm1="expm1", log="log", log1p="log1p",
    log2="log2", log10="log10", ceil="ceil", floor="floor", copysign="copysign", sign="sign", truncate="trunc",
    hypot="hypot", square="square", sqrt="sqrt", select="where", lt="less", le="less_equal", gt="greater",
    ge="greater_equal", eq="equal", ne="not_equal", nextafter="nextafter", is_finite="isfinite",
)
NP_PRIM = {k: getattr(numpy, v) for k, v in NP_UFUNC.items()}
NP_PRIM.update(
    negative=operator.neg, positive=operator.pos, add=operator.add, subtract=operator.sub, multiply=operator.mul,
    divide=operator.truediv, remainder=operator.mod, floor_divide=operator.floordiv, pow=operator.pow,
    bitwise_invert=operator.invert, bitwise_and=operator.and_, bitwise_or=operator.or_, bitwise_xor=operator.xor,
    bitwise_left_shift=operator.lshift, bitwise_right_shift=operator.rshift,
    maximum=lambda a, b: max(a, b), minimum=lambda a, b: min(a, b), conjugate=lambda a: a.conjugate(),
    real=lambda a: a.real, imag=lambda a: a.imag, item=lambda c, i: c[i],
)

NP_DTYPE = dict(float16=numpy.float16, float32=numpy.float32, float64=numpy.float64, float=numpy.float64,
                float128=getattr(numpy, "float128", None), complex64=numpy.complex64, complex128=numpy.complex128,
                complex=numpy.complex128, integer8=numpy.int8, integer16=numpy.int16, integer32=numpy.int32,
                integer64=numpy.int64, integer=numpy.int64, boolean=numpy.bool_)
NP_UP = {numpy.float16: numpy.float32, numpy.float32: numpy.float64, numpy.float64: getattr(numpy, "float128", None),
         numpy.complex64: numpy.complex128, numpy.int8: numpy.int16, numpy.int16: numpy.int32, numpy.int32: numpy.int64}
NP_DOWN = {numpy.float32: numpy.float16, numpy.float64: numpy.float32, numpy.complex128: numpy.complex64,
           numpy.int16: numpy.int8, numpy.int32: numpy.int16, numpy.int64: numpy.int32}
if getattr(numpy, "float128", None) is not None:
    NP_DOWN[numpy.float128] = numpy.float64

_libm = None


def libm():
    global _libm
    if _libm is None:
        _libm = ctypes.CDLL("libm.so.6")
    return _libm


_cfun_cache = {}


def cfun(name, nargs, dtype):
    key = (name, nargs, dtype)
    f = _cfun_cache.get(key)
    if f is None:
        dbl = dtype is numpy.float64
        f = getattr(libm(), name + ("" if dbl else "f"))
        ct = ctypes.c_double if dbl else ctypes.c_float
        f.restype = ct
        f.argtypes = [ct] * nargs
        _cfun_cache[key] = f
    return f


C_LIBM1 = dict(acos="acos", acosh="acosh", asin="asin", asinh="asinh", atan="atan", atanh="atanh", cos="cos", cosh="cosh",
               sin="sin", sinh="sinh", tan="tan", tanh="tanh", exp="exp", expm1="expm1", exp2="exp2", log="log",
               log1p="log1p", log2="log2", log10="log10", ceil="ceil", floor="floor", round="round", truncate="trunc",
               sqrt="sqrt")
C_LIBM2 = dict(atan2="atan2", copysign="copysign", hypot="hypot", nextafter="nextafter")


def c_float_type(*vals):
    ts = [type(v) for v in vals if isinstance(v, numpy.floating)]
    if not ts:
        raise Unsupported("libm call on non-floating operands")
    return numpy.float64 if numpy.float64 in ts else numpy.float32


def c_prim(kind, a):
    """C++ semantics on NumPy float32/float64 scalars, Python ints (with the C type remembered by the
    caller) and bools."""
    if kind in C_LIBM1:
        t = c_float_type(*a)
        return t(cfun(C_LIBM1[kind], 1, t)(float(a[0])))
    if kind in C_LIBM2:
        t = c_float_type(*a)
        return t(cfun(C_LIBM2[kind], 2, t)(float(a[0]), float(a[1])))
    if kind == "absolute":
        if isinstance(a[0], numpy.floating):
            return type(a[0])(abs(a[0]))
        return abs(a[0])
    if kind == "maximum":
        return a[1] if a[0] < a[1] else a[0]
    if kind == "minimum":
        return a[0] if not (a[1] < a[0]) else a[1]
    if kind == "negative":
        return -a[0]
    if kind == "positive":
        return a[0]
    if kind in ("add", "subtract", "multiply"):
        return dict(add=operator.add, subtract=operator.sub, multiply=operator.mul)[kind](a[0], a[1])
    if kind == "divide":
        if isinstance(a[0], numpy.floating) or isinstance(a[1], numpy.floating):
            return a[0] / a[1]
        raise Unsupported("integer division")
    if kind == "remainder":
        if isinstance(a[0], numpy.integer) and isinstance(a[1], numpy.integer):
            if a[1] == 0:
                raise Unsupported("integer remainder by zero")
            q = abs(int(a[0])) // abs(int(a[1]))
            q = q if (a[0] >= 0) == (a[1] >= 0) else -q
            return type(a[0])(int(a[0]) - q * int(a[1]))
        raise Unsupported("remainder on floating operands has no C operator")
    if kind in ("lt", "le", "gt", "ge", "eq", "ne"):
        return bool(getattr(operator, kind)(a[0], a[1]))
    if kind == "logical_and":
        return bool(a[0]) and bool(a[1])
    if kind == "logical_or":
        return bool(a[0]) or bool(a[1])
    if kind == "logical_not":
        return not bool(a[0])
    if kind == "is_finite":
        return bool(numpy.isfinite(a[0]))
    if kind == "sign":
        x = a[0]
        if x == 0:
            return x
        return type(x)(numpy.copysign(type(x)(1), x))
    if kind == "select":
        r = a[1] if a[0] else a[2]
        t = numpy.result_type(a[1], a[2]).type if not isinstance(a[1], bool) else None
        return t(r) if t is not None and isinstance(r, numpy.generic) else r
    raise Unsupported(f"cpp primitive {kind}")


PY_CONST = dict(smallest=sys.float_info.min, largest=sys.float_info.max, posinf=math.inf, neginf=-math.inf, pi=math.pi)


def np_const(name, dt):
    if name == "smallest_subnormal":
        return numpy.finfo(dt).smallest_subnormal
    if name == "smallest":
        return numpy.finfo(dt).smallest_normal
    if name == "eps":
        return numpy.finfo(dt).eps
    if name == "largest":
        return numpy.finfo(dt).max
    if name == "posinf":
        return dt(numpy.inf)
    if name == "neginf":
        return -dt(numpy.inf)
    if name == "pi":
        return dt(numpy.pi)
    if name == "nan":
        return dt(numpy.nan)
    raise Unsupported(f"named constant {name}")


def c_const(name, dt):
    if name == "smallest":
        return numpy.finfo(dt).smallest_normal
    if name == "largest":
        return numpy.finfo(dt).max
    if name == "posinf":
        return dt(numpy.inf)
    if name == "neginf":
        return -dt(numpy.inf)
    if name == "pi":
        return dt(math.pi)
    if name == "nan":
        return dt(numpy.nan)
    raise Unsupported(f"named constant {name}")


# ----------------------------------------------------------------------------- the interpreter

class Interp:
    """`literal=True` (python only): constants keep their Python value class instead of being
    converted to the type of `like` (used only to attribute a mismatch to that cause)."""

    def __init__(self, tname, literal=False):
        self.t = tname
        self.literal = literal

    # ---- types
    def np_dtype_of(self, typ):
        s = str(typ)
        dt = NP_DTYPE.get(s)
        if dt is None:
            raise Unsupported(f"type {s}")
        return dt

    def arg_value(self, sym, v):
        typ = sym.operands[1]
        s = str(typ)
        if self.t == "python":
            return v
        if isinstance(v, tuple):
            return v
        with numpy.errstate(all="ignore"):
            return self.np_dtype_of(typ)(v)

    def constant(self, e):
        value, like = e.operands
        typ = like.get_type()
        s = str(typ)
        if not isinstance(value, (str, bool, int, float, complex, numpy.generic)):
            raise Unsupported("constant value class")
        if self.t == "python":
            if isinstance(value, str):
                if value not in PY_CONST:
                    raise Unsupported(f"named constant {value}")
                return PY_CONST[value]
            if self.literal:
                return value
            if typ.kind == "float":
                return float(value)
            if typ.kind == "integer":
                return int(value)
            if typ.kind == "complex":
                return complex(value)
            if typ.kind == "boolean":
                return bool(value)
            raise Unsupported(f"type {s}")
        dt = self.np_dtype_of(typ)
        if isinstance(value, str):
            return np_const(value, dt) if self.t == "numpy" else c_const(value, dt)
        with numpy.errstate(all="ignore"):
            if self.t == "cpp" and typ.kind == "complex":
                part = numpy.float32 if dt is numpy.complex64 else numpy.float64
                return ("complex", part(complex(value).real), part(complex(value).imag))
            return dt(value)

    # ---- evaluation
    def evaluate(self, graph, inputs):
        """-> (lazy result (value or Exc), any_exception_under_eager_evaluation)"""
        args = graph.operands[1:-1]
        body = graph.operands[-1]
        env = {}
        for a, v in zip(args, inputs):
            env[id(a)] = self.arg_value(a, v)
        memo = dict(env)
        with warnings.catch_warnings(), numpy.errstate(all="ignore"):
            warnings.simplefilter("ignore")
            r = self.val(body, memo)
            eager_exc = isinstance(r, Exc)
            if self.t == "python" and not eager_exc:
                eager_exc = self.any_exc(body, memo, set())
        return r, eager_exc

    def any_exc(self, e, memo, seen):
        if id(e) in seen:
            return False
        seen.add(id(e))
        if isinstance(self.val(e, memo), Exc):
            return True
        if e.kind in ("symbol", "constant"):
            return False
        return any(self.any_exc(o, memo, seen) for o in e.operands if hasattr(o, "operands"))

    def val(self, e, memo):
        k = id(e)
        if k in memo:
            return memo[k]
        try:
            r = self.compute(e, memo)
        except Unsupported:
            raise
        except Exception as ex:  # noqa: BLE001  (exceptions of the primitive library are values)
            r = Exc(ex)
        memo[k] = r
        return r

    def compute(self, e, memo):
        kind = e.kind
        if kind == "symbol":
            raise Unsupported(f"free symbol {e.operands[0]}")
        if kind == "constant":
            return self.constant(e)
        t = self.t
        ops = e.operands
        # lazy kinds of the Python language
        if t == "python" and kind == "select":
            c = self.val(ops[0], memo)
            if isinstance(c, Exc):
                return c
            return self.val(ops[1] if c else ops[2], memo)
        if t == "python" and kind in ("logical_and", "logical_or"):
            a = self.val(ops[0], memo)
            if isinstance(a, Exc):
                return a
            if (kind == "logical_and") != bool(a):
                return a
            return self.val(ops[1], memo)
        if kind == "list":
            vs = [self.val(o, memo) for o in ops]
            for v in vs:
                if isinstance(v, Exc):
                    return v
            return list(vs)
        if kind == "item":
            c = self.val(ops[0], memo)
            i = ops[1].operands[0]
            return c if isinstance(c, Exc) else c[int(i)]
        a = []
        for o in ops:
            v = self.val(o, memo)
            if isinstance(v, Exc):
                return v
            a.append(v)
        if t == "python":
            f = PY_PRIM.get(kind)
            if f is None:
                raise Unsupported(f"python primitive {kind}")
            return f(*a)
        if t == "numpy":
            if kind == "complex":
                r, i = a
                if r.dtype == numpy.float32 and i.dtype == numpy.float32:
                    return numpy.array([r, i], dtype=numpy.float32).view(numpy.complex64)[0]
                if r.dtype == numpy.float64 and i.dtype == numpy.float64:
                    return numpy.array([r, i], dtype=numpy.float64).view(numpy.complex128)[0]
                raise Unsupported("complex from mixed parts")
            if kind in ("upcast", "downcast"):
                # the target type is a property of the GRAPH (declared type of the operand), not of the
                # run-time dtype (they differ where Expr.get_type disagrees with NumPy promotion: C08)
                try:
                    st = self.np_dtype_of(ops[0].get_type())
                except Exception as ex:  # noqa: BLE001
                    raise Unsupported(f"{kind}: operand type") from ex
                dt = (NP_UP if kind == "upcast" else NP_DOWN).get(st)
                if dt is None:
                    raise Unsupported(kind)
                return dt(a[0])
            f = NP_PRIM.get(kind)
            if f is None:
                raise Unsupported(f"numpy primitive {kind}")
            return f(*a)
        # cpp
        if kind == "complex":
            return ("complex", a[0], a[1])
        if kind == "real":
            if isinstance(a[0], tuple):
                return a[0][1]
            raise Unsupported("real of a non-constructed complex")
        if kind == "imag":
            if isinstance(a[0], tuple):
                return a[0][2]
            raise Unsupported("imag of a non-constructed complex")
        if any(isinstance(x, tuple) for x in a):
            raise Unsupported(f"complex arithmetic in C++ ({kind})")
        return c_prim(kind, a)
