"""C04 worker: everything that touches the REAL package (`functional_algorithms`).

Importable in-process (fav/props/c04.py) and runnable as a subprocess
(`python -m fav.workers.c04_worker`, one JSON job on stdin, one JSON result on stdout) so that the
harness can run several chunks in parallel.

spec  (JSON-able description of an expression; shared sub-specs are shared Python lists)
    ["sym", name, typestr]
    ["const", val, likespec]          val = ["b",bool] | ["i",int] | ["f",tag,hexbits] | ["c",tag,hex,hex] | ["n",name]
    [kind, spec, ...]                 any other kind of the package (constructed with `Expr(ctx, kind, operands)`)

dag   line format understood by lean/Drivers/Rewriter.lean
canon nested tuples: ("sym",name,ty) | ("const",valstr,like) | (kind, operand, ...)
"""

import contextlib
import io
import json
import signal
import struct
import sys
import warnings
from fractions import Fraction

import numpy

MASK = (1 << 64) - 1
COMMUTATIVE = {"logical_and", "logical_or", "eq", "ne"}
FMT = {"py": (53, 11), "f16": (11, 5), "f32": (24, 8), "f64": (53, 11)}
NPF = {"f16": numpy.float16, "f32": numpy.float32, "f64": numpy.float64}
NPU = {"f16": numpy.uint16, "f32": numpy.uint32, "f64": numpy.uint64}
NPC = {"f32": numpy.complex64, "f64": numpy.complex128}


def fa():
    import functional_algorithms

    return functional_algorithms


# --------------------------------------------------------------------------- values

def float_bits(x, tag):
    """canonical bit pattern of a float of the given tag (one NaN)"""
    if tag == "py":
        b = struct.unpack("<Q", struct.pack("<d", float(x)))[0]
        p, ew = 53, 11
    else:
        b = int(numpy.array([x], dtype=NPF[tag]).view(NPU[tag])[0])
        p, ew = FMT[tag]
    fb = p - 1
    e = (b >> fb) & ((1 << ew) - 1)
    m = b & ((1 << fb) - 1)
    if e == (1 << ew) - 1 and m:
        return (((1 << ew) - 1) << fb) + (1 << (fb - 1))
    return b


def float_of_bits(b, tag):
    if tag == "py":
        return struct.unpack("<d", struct.pack("<Q", b))[0]
    return numpy.array([b], dtype=NPU[tag]).view(NPF[tag])[0]


def tag_of(v):
    if isinstance(v, numpy.float16):
        return "f16"
    if isinstance(v, numpy.float32):
        return "f32"
    if isinstance(v, numpy.float64):
        return "f64"
    if isinstance(v, float):
        return "py"
    return None


def val_str(v):
    if isinstance(v, bool):
        return "B1" if v else "B0"
    if isinstance(v, int):
        return f"I{v}"
    t = tag_of(v)
    if t is not None:
        return f"F{t}:{float_bits(v, t):x}"
    if isinstance(v, numpy.complex64):
        return f"Cf32:{float_bits(v.real, 'f32'):x}:{float_bits(v.imag, 'f32'):x}"
    if isinstance(v, numpy.complex128):
        return f"Cf64:{float_bits(v.real, 'f64'):x}:{float_bits(v.imag, 'f64'):x}"
    if isinstance(v, complex):
        return f"Cpy:{float_bits(v.real, 'py'):x}:{float_bits(v.imag, 'py'):x}"
    if isinstance(v, str):
        return "N" + v
    return "O" + type(v).__name__


def val_of_spec(vs):
    k = vs[0]
    if k == "b":
        return bool(vs[1])
    if k == "i":
        return int(vs[1])
    if k == "f":
        return float_of_bits(int(vs[2], 16), vs[1])
    if k == "c":
        re, im = float_of_bits(int(vs[2], 16), vs[1]), float_of_bits(int(vs[3], 16), vs[1])
        if vs[1] == "py":
            return complex(re, im)
        return NPC[vs[1]](complex(float(re), float(im)))
    if k == "n":
        return vs[1]
    raise ValueError(vs)


def ty_str(t):
    k = dict(boolean="b", integer="i", float="f", complex="c").get(t.kind, "o")
    bits = t.param if k != "o" and isinstance(t.param, int) else None
    return k + ("" if bits is None else str(bits))


# --------------------------------------------------------------------------- build / serialise

def build(ctx, spec, memo=None):
    """Construct the real expression described by `spec` (sharing preserved)."""
    F = fa()
    if memo is None:
        memo = {}
    key = id(spec)
    if key in memo:
        return memo[key]
    k = spec[0]
    if k == "sym":
        r = ctx.symbol(spec[1], spec[2])
    elif k == "const":
        r = ctx.constant(val_of_spec(spec[1]), build(ctx, spec[2], memo))
    else:
        ops = tuple(build(ctx, s, memo) for s in spec[1:])
        r = F.Expr(ctx, k, ops)
    memo[key] = r
    return r


class Unserialisable(Exception):
    pass


def to_dag(expr):
    """DAG line of a real expression."""
    F = fa()
    idx = {}
    out = []

    def rec(e):
        k = id(e)
        if k in idx:
            return idx[k]
        kind = e.kind
        if kind == "symbol":
            name = e.operands[0]
            if not isinstance(name, str) or " " in name or ";" in name or "|" in name:
                raise Unserialisable("symbol name")
            line = f"s {name} {ty_str(e.operands[1])}"
        elif kind == "constant":
            v, like = e.operands
            if isinstance(v, F.Expr):
                raise Unserialisable("alt-context constant")
            vs = val_str(v)
            if " " in vs or ";" in vs or "|" in vs:
                raise Unserialisable("value")
            line = f"c {vs} {rec(like)}"
        elif kind == "select" and len(e.operands) == 3:
            a, b, c = (rec(o) for o in e.operands)
            line = f"t {a} {b} {c}"
        elif len(e.operands) == 1:
            line = f"u {kind} {rec(e.operands[0])}"
        elif len(e.operands) == 2:
            a, b = rec(e.operands[0]), rec(e.operands[1])
            line = f"b {kind} {a} {b}"
        else:
            raise Unserialisable(kind)
        idx[k] = len(out)
        out.append(line)
        return idx[k]

    rec(expr)
    return ";".join(out)


def canon_real(expr, memo=None, sort=False):
    F = fa()
    if memo is None:
        memo = {}
    k = id(expr)
    if k in memo:
        return memo[k]
    if expr.kind == "symbol":
        r = ("sym", expr.operands[0], ty_str(expr.operands[1]))
    elif expr.kind == "constant":
        v, like = expr.operands
        r = ("const", val_str(v) if not isinstance(v, F.Expr) else "X", canon_real(like, memo, sort))
    else:
        ops = [canon_real(o, memo, sort) for o in expr.operands]
        if sort and expr.kind in COMMUTATIVE:
            ops.sort(key=repr)
        r = (expr.kind, *ops)
    memo[k] = r
    return r


def sort_canon(t):
    if t[0] == "sym":
        return t
    if t[0] == "const":
        return ("const", t[1], sort_canon(t[2]))
    ops = [sort_canon(o) for o in t[1:]]
    if t[0] in COMMUTATIVE:
        ops.sort(key=repr)
    return (t[0], *ops)


def parse_sexpr(s):
    """Parse the driver's s-expression into canon tuples."""
    pos = 0
    n = len(s)

    def rec():
        nonlocal pos
        assert s[pos] == "(", (pos, s[:80])
        pos += 1
        j = pos
        while s[j] not in " )":
            j += 1
        head = s[pos:j]
        pos = j
        items = []
        while True:
            while s[pos] == " ":
                pos += 1
            if s[pos] == ")":
                pos += 1
                break
            if s[pos] == "(":
                items.append(rec())
            else:
                j = pos
                while s[j] not in " )":
                    j += 1
                items.append(s[pos:j])
                pos = j
        return (head, *items)

    r = rec()
    assert pos == n, (pos, n)
    return r


# --------------------------------------------------------------------------- hashing (shared with the driver)

def mix(a, b):
    return ((((a * 1000003) & MASK) ^ b) * 0x9E3779B97F4A7C15 + 0x7F4A7C15) & MASK


def hstr(s):
    h = 1469598103934665603
    for c in s.encode():
        h = ((h ^ c) * 1099511628211) & MASK
    return h


def xhash(e, memo):
    k = id(e)
    if k in memo:
        return memo[k]
    if e.kind == "symbol":
        r = mix(mix(11, hstr(e.operands[0])), hstr(ty_str(e.operands[1])))
    elif e.kind == "constant":
        r = mix(mix(13, hstr(val_str(e.operands[0]))), xhash(e.operands[1], memo))
    elif e.kind == "select" and len(e.operands) == 3:
        r = mix(mix(mix(23, xhash(e.operands[0], memo)), xhash(e.operands[1], memo)), xhash(e.operands[2], memo))
    elif len(e.operands) == 1:
        r = mix(mix(17, hstr(e.kind)), xhash(e.operands[0], memo))
    elif len(e.operands) == 2:
        r = mix(mix(mix(19, hstr(e.kind)), xhash(e.operands[0], memo)), xhash(e.operands[1], memo))
    else:
        r = hstr("?" + e.kind)
    memo[k] = r
    return r


def order_oracle(ctx):
    """Outcome of `x.key > y.key` for the operands of every and/or/eq/ne node of the context."""
    F = fa()
    memo = {}
    gt, bad = set(), set()
    for e in list(ctx._expressions.values()):
        if e.kind in COMMUTATIVE and len(e.operands) == 2:
            x, y = e.operands
            if not (isinstance(x, F.Expr) and isinstance(y, F.Expr)):
                continue
            for a, b in ((x, y), (y, x)):
                try:
                    r = a.key > b.key
                except TypeError:
                    bad.add(mix(mix(29, xhash(a, memo)), xhash(b, memo)))
                    continue
                if r:
                    gt.add(mix(mix(29, xhash(a, memo)), xhash(b, memo)))
    return sorted(gt), sorted(bad)


# --------------------------------------------------------------------------- running the real rewriter

class Watchdog(Exception):
    pass


def _alarm(_s, _f):
    raise Watchdog()


EXC = {"AssertionError", "TypeError", "ValueError", "NotImplementedError", "OverflowError", "ZeroDivisionError", "RecursionError"}


def exc_name(ex):
    n = type(ex).__name__
    if isinstance(ex, Watchdog):
        return "Watchdog"
    if n in EXC:
        return n
    for base in (AssertionError, NotImplementedError, TypeError, ValueError, OverflowError, ZeroDivisionError, RecursionError):
        if isinstance(ex, base):
            return base.__name__
    return "other:" + n


@contextlib.contextmanager
def quiet():
    with warnings.catch_warnings(), contextlib.redirect_stdout(io.StringIO()):
        warnings.simplefilter("ignore")
        with numpy.errstate(all="ignore"):
            yield


def real_rewrite(expr, timeout=10):
    """`expr.rewrite(functional_algorithms.rewrite)` under a watchdog.  -> ("ok", Expr) | ("err", name, where)"""
    F = fa()
    old = signal.signal(signal.SIGPROF, _alarm)  # CPU time, independent of machine load
    signal.setitimer(signal.ITIMER_PROF, timeout)
    try:
        with quiet():
            r = expr.rewrite(F.rewrite)
        return ("ok", r)
    except Exception as ex:  # noqa: BLE001 - the exception kind is the observation
        import traceback

        tb = traceback.extract_tb(ex.__traceback__)
        where = ""
        for fr in reversed(tb):
            if "functional_algorithms" in fr.filename:
                where = f"{fr.filename.split('/')[-1]}:{fr.name}"
                break
        return ("err", exc_name(ex), where)
    finally:
        signal.setitimer(signal.ITIMER_PROF, 0)
        signal.signal(signal.SIGPROF, old)


def new_context():
    F = fa()
    from functional_algorithms import algorithms

    return F.Context(paths=[algorithms])


def correspondence_case(spec):
    """Build, rewrite with the real code, return everything the harness needs."""
    ctx = new_context()
    try:
        with quiet():
            e = build(ctx, spec)
    except Exception as ex:  # construction itself may refuse malformed input
        return dict(build_error=exc_name(ex))
    try:
        dag = to_dag(e)
    except Unserialisable as ex:
        return dict(build_error="unserialisable:" + str(ex))
    res = real_rewrite(e)
    gt, bad = order_oracle(ctx)
    out = dict(dag=dag, gt=gt, bad=bad, n_ctx=len(ctx._expressions))
    if res[0] == "ok":
        out["ok"] = canon_real(res[1])
        out["changed"] = res[1] is not e
    else:
        out["err"] = res[1]
        out["where"] = res[2]
    return out


PROPS = ["zero", "one", "finite", "nonnegative", "nonpositive", "positive", "negative"]


def infer_case(spec):
    ctx = new_context()
    try:
        with quiet():
            e = build(ctx, spec)
        dag = to_dag(e)
    except Exception as ex:  # noqa: BLE001
        return dict(build_error=exc_name(ex))
    ans = {}
    for p in PROPS:
        try:
            with quiet():
                r = getattr(e, "_is_" + p)
            ans[p] = "N" if r is None else ("T" if r else "F")
        except Exception as ex:  # noqa: BLE001
            ans[p] = "E:" + exc_name(ex)
    try:
        ans["bool"] = "T" if e._is_boolean else "F"
    except Exception as ex:  # noqa: BLE001
        ans["bool"] = "E:" + exc_name(ex)
    try:
        ans["complex"] = "T" if e.is_complex else "F"
    except Exception as ex:  # noqa: BLE001
        ans["complex"] = "E:" + exc_name(ex)
    try:
        ans["type"] = ty_str(e.get_type())
    except Exception as ex:  # noqa: BLE001
        ans["type"] = "E:" + exc_name(ex)
    return dict(dag=dag, ans=ans)


# --------------------------------------------------------------------------- independent evaluators (search)

class Undefined(Exception):
    """the expression is not defined on this assignment (exact clause) / leaves the regular regime (fp clause)"""


class Inexact(Exception):
    """a constant sub-computation is not exact in its dtype: the exact clause does not apply"""


NAMED_EXACT = {}


def named_exact(name, tag):
    key = (name, tag)
    if key not in NAMED_EXACT:
        dt = NPF[tag if tag != "py" else "f64"]
        fi = numpy.finfo(dt)
        v = dict(largest=fi.max, smallest=fi.smallest_normal, eps=fi.eps, smallest_subnormal=fi.smallest_subnormal, pi=dt(numpy.pi)).get(name)
        NAMED_EXACT[key] = None if v is None else Fraction(float(v))
    return NAMED_EXACT[key]


def dtype_tag(t):
    """dtype tag of a package Type for scalar float kinds; Python float -> 'py'"""
    if t.kind == "float":
        return {16: "f16", 32: "f32", 64: "f64", None: "py"}.get(t.param)
    return None


def representable(q, tag):
    if tag is None:
        return True
    dt = NPF[tag if tag != "py" else "f64"]
    try:
        with numpy.errstate(all="ignore"):
            return Fraction(float(dt(float(q)))) == q and Fraction(float(q)) == q
    except (OverflowError, ValueError):
        return False


INF = float("inf")


def is_inf(v):
    return isinstance(v, float) and (v == INF or v == -INF)


def uninterp(name, args):
    """deterministic uninterpreted function on exact values"""
    h = hstr(name + ":" + ",".join(str(a) for a in args))
    return Fraction((h % 2001) - 1000, 64)


ARITH = {"add", "subtract", "multiply", "divide", "sqrt", "square"}


def eval_exact(expr, env):
    """Exact evaluation over Fractions (extended by +-inf for constants / comparisons only).

    Raises Undefined when the expression is not defined in exact real arithmetic on this
    assignment (division by zero, sqrt of a negative or of a non-square, arithmetic on an
    infinity, NaN constant, complex / non-scalar kinds), Inexact when a constant
    sub-computation is not exactly representable in its dtype (the rewriter folds constants in
    floating point, so the exact clause is only claimed for exact constant sub-computations).
    Returns (value, is_constant_subtree)."""
    F = fa()
    memo = {}

    def typ_tag(e):
        try:
            return dtype_tag(e.get_type())
        except Exception:  # noqa: BLE001
            return None

    def rec(e):
        k = id(e)
        if k in memo:
            return memo[k]
        r = rec1(e)
        memo[k] = r
        return r

    def rec1(e):
        kind = e.kind
        if kind == "symbol":
            if e.operands[0] not in env:
                raise Undefined("free symbol")
            return env[e.operands[0]], False
        if kind == "constant":
            v, like = e.operands
            tag = typ_tag(like)
            if isinstance(v, bool):
                return v, True
            if isinstance(v, str):
                if v == "posinf":
                    return INF, True
                if v == "neginf":
                    return -INF, True
                q = named_exact(v, tag) if tag else None
                if q is None:
                    raise Undefined("named constant " + v)
                return q, True
            if isinstance(v, (int, numpy.integer)):
                q = Fraction(int(v))
            elif isinstance(v, (float, numpy.floating)):
                fv = float(v)
                if fv != fv:
                    raise Undefined("nan constant")
                if fv in (INF, -INF):
                    return fv, True
                q = Fraction(fv)
            else:
                raise Undefined("complex constant")
            if not representable(q, tag):
                raise Inexact("constant not representable in its dtype")
            return q, True
        ops = [rec(o) for o in e.operands if isinstance(o, F.Expr)]
        vals = [o[0] for o in ops]
        if kind == "select" and len(ops) == 3 and isinstance(vals[0], bool):
            # the rewriter may decide the condition: the node is as constant as the chosen arm
            allc = ops[1][1] if vals[0] else ops[2][1]
        elif kind in ("lt", "le", "gt", "ge", "eq", "ne", "logical_and", "logical_or", "logical_not", "logical_xor"):
            allc = True
        else:
            allc = all(o[1] for o in ops)
        v = op(kind, vals, e)
        if allc and kind in ARITH | {"negative", "absolute", "sign", "minimum", "maximum"} and isinstance(v, Fraction):
            if not representable(v, typ_tag(e)):
                raise Inexact(f"constant {kind} not exact in dtype")
        return v, allc

    def num(v):
        if isinstance(v, bool):
            raise Undefined("boolean in arithmetic")
        return v

    def fin(v):
        v = num(v)
        if is_inf(v):
            raise Undefined("arithmetic on infinity")
        return v

    def op(kind, a, e):
        if kind == "add":
            return fin(a[0]) + fin(a[1])
        if kind == "subtract":
            return fin(a[0]) - fin(a[1])
        if kind == "multiply":
            return fin(a[0]) * fin(a[1])
        if kind == "divide":
            if fin(a[1]) == 0:
                raise Undefined("division by zero")
            return fin(a[0]) / fin(a[1])
        if kind == "negative":
            return -num(a[0])
        if kind == "positive":
            return num(a[0])
        if kind == "absolute":
            return abs(num(a[0]))
        if kind == "square":
            return fin(a[0]) * fin(a[0])
        if kind == "sqrt":
            x = fin(a[0])
            if x < 0:
                raise Undefined("sqrt of negative")
            import math

            n, d = math.isqrt(x.numerator), math.isqrt(x.denominator)
            if n * n != x.numerator or d * d != x.denominator:
                raise Undefined("sqrt of a non-square")
            return Fraction(n, d)
        if kind == "sign":
            x = num(a[0])
            return Fraction(0) if x == 0 else (Fraction(1) if x > 0 else Fraction(-1))
        if kind == "minimum":
            return min(num(a[0]), num(a[1]))
        if kind == "maximum":
            return max(num(a[0]), num(a[1]))
        if kind in ("lt", "le", "gt", "ge", "eq", "ne"):
            x, y = num(a[0]), num(a[1])
            return dict(lt=x < y, le=x <= y, gt=x > y, ge=x >= y, eq=x == y, ne=x != y)[kind]
        if kind in ("logical_and", "logical_or", "logical_xor"):
            if not (isinstance(a[0], bool) and isinstance(a[1], bool)):
                raise Undefined("logical op on non-boolean")
            return dict(logical_and=a[0] and a[1], logical_or=a[0] or a[1], logical_xor=a[0] != a[1])[kind]
        if kind == "logical_not":
            if not isinstance(a[0], bool):
                raise Undefined("logical op on non-boolean")
            return not a[0]
        if kind == "select":
            if not isinstance(a[0], bool):
                raise Undefined("select on non-boolean")
            return a[1] if a[0] else a[2]
        if kind in ("upcast", "downcast"):
            return num(a[0])
        if kind in ("log", "log2", "log10"):
            x = fin(a[0])
            if x == 1:
                return Fraction(0)
            if x <= 0:
                raise Undefined("log domain")
            return uninterp(kind, [x])
        if kind == "log1p":
            x = fin(a[0])
            if x == 0:
                return Fraction(0)
            return uninterp(kind, [x])
        if kind in ("sin", "cos", "tan", "exp", "expm1", "exp2", "floor", "ceil", "atan", "atan2", "hypot", "copysign", "pow", "asinh", "tanh", "sinh", "cosh"):
            return uninterp(kind, [fin(x) for x in a])
        raise Undefined("kind " + kind)

    return rec(expr)[0]


def fp_flags(kind, args, r):
    """NaN produced / overflow / underflow at this node?"""
    if isinstance(r, (bool, numpy.bool_)) or not isinstance(r, numpy.floating):
        return None
    if r != r:
        return "nan"
    fin_args = all(not isinstance(a, (bool, numpy.bool_)) and numpy.isfinite(a) for a in args)
    if numpy.isinf(r) and fin_args and kind not in ("constant", "symbol", "select", "minimum", "maximum", "negative", "absolute", "positive"):
        return "overflow"
    if kind in ("add", "subtract", "multiply", "divide", "sqrt", "square", "downcast", "constant_cast"):
        fi = numpy.finfo(r.dtype)
        if r != 0 and abs(r) < fi.smallest_normal:
            return "underflow"
        if r == 0 and kind in ("multiply", "divide", "square") and all(a != 0 for a in args) and fin_args:
            return "underflow"
        if r == 0 and kind in ("downcast", "constant_cast") and args and args[0] != 0:
            return "underflow"
    return None


def eval_fp(expr, env, check=True):
    """NumPy evaluation in each node's dtype with per-node exceptional-value detection.

    Raises Undefined when `check` and a node produces NaN / overflows / underflows."""
    F = fa()
    memo = {}
    NP1 = dict(sqrt=numpy.sqrt, sign=numpy.sign, log=numpy.log, log2=numpy.log2, log10=numpy.log10, log1p=numpy.log1p, sin=numpy.sin, cos=numpy.cos,
               tan=numpy.tan, exp=numpy.exp, expm1=numpy.expm1, exp2=numpy.exp2, floor=numpy.floor, ceil=numpy.ceil, atan=numpy.arctan,
               asinh=numpy.arcsinh, tanh=numpy.tanh, sinh=numpy.sinh, cosh=numpy.cosh)
    NP2 = dict(atan2=numpy.arctan2, hypot=numpy.hypot, copysign=numpy.copysign, pow=numpy.power)

    def npdt(t):
        if t.kind == "float":
            return {16: numpy.float16, 32: numpy.float32, 64: numpy.float64, None: numpy.float64}.get(t.param)
        if t.kind == "integer":
            return numpy.int64
        return None

    def flag(kind, args, r):
        if isinstance(r, numpy.integer) and all(isinstance(a, numpy.integer) for a in args):
            # integer arithmetic: leave the regular regime on wrap-around
            ia = [int(a) for a in args]
            want = dict(add=lambda: ia[0] + ia[1], subtract=lambda: ia[0] - ia[1], multiply=lambda: ia[0] * ia[1],
                        square=lambda: ia[0] * ia[0]).get(kind)
            if want is not None and want() != int(r):
                raise Undefined("integer overflow")
        if check:
            f = fp_flags(kind, args, r)
            if f:
                raise Undefined(f"{f} at {kind}")
        return r

    def rec(e):
        k = id(e)
        if k in memo:
            return memo[k]
        r = rec1(e)
        memo[k] = r
        return r

    def num(v):
        if isinstance(v, (bool, numpy.bool_)):
            raise Undefined("boolean in arithmetic")
        return v

    def rec1(e):
        kind = e.kind
        if kind == "symbol":
            if e.operands[0] not in env:
                raise Undefined("free symbol")
            return env[e.operands[0]]
        if kind == "constant":
            v, like = e.operands
            t = like.get_type()
            if isinstance(v, bool):
                return v
            dt = npdt(t)
            if dt is None:
                raise Undefined("constant of unsupported type")
            if isinstance(v, str):
                if dt is numpy.int64:
                    raise Undefined("named integer constant")
                fi = numpy.finfo(dt)
                tab = dict(posinf=dt(numpy.inf), neginf=-dt(numpy.inf), pi=dt(numpy.pi), eps=dt(fi.eps), largest=dt(fi.max),
                           smallest=dt(fi.smallest_normal), smallest_subnormal=dt(fi.smallest_subnormal))
                if v not in tab:
                    raise Undefined("named constant " + v)
                return tab[v]
            if isinstance(v, (complex, numpy.complexfloating)):
                raise Undefined("complex constant")
            r = dt(v)
            if dt is not numpy.int64:
                if r != r:
                    raise Undefined("nan constant")
                if check and numpy.isinf(r) and not numpy.isinf(numpy.float64(v)):
                    raise Undefined("constant overflows its dtype")
                flag("constant_cast", [v], r)
            return r
        a = [rec(o) for o in e.operands if isinstance(o, F.Expr)]
        with numpy.errstate(all="ignore"):
            if kind in ("add", "subtract", "multiply", "divide"):
                x, y = num(a[0]), num(a[1])
                if kind == "divide" and y == 0:
                    raise Undefined("division by zero")
                r = dict(add=lambda: x + y, subtract=lambda: x - y, multiply=lambda: x * y, divide=lambda: x / y)[kind]()
                return flag(kind, a, r)
            if kind == "negative":
                return -num(a[0])
            if kind == "positive":
                return +num(a[0])
            if kind == "absolute":
                return abs(num(a[0]))
            if kind == "square":
                return flag(kind, a, num(a[0]) * num(a[0]))
            if kind in NP1:
                return flag(kind, a, NP1[kind](num(a[0])))
            if kind in NP2:
                return flag(kind, a, NP2[kind](num(a[0]), num(a[1])))
            if kind == "minimum":
                return numpy.minimum(num(a[0]), num(a[1]))
            if kind == "maximum":
                return numpy.maximum(num(a[0]), num(a[1]))
            if kind in ("lt", "le", "gt", "ge", "eq", "ne"):
                x, y = num(a[0]), num(a[1])
                return bool(dict(lt=x < y, le=x <= y, gt=x > y, ge=x >= y, eq=x == y, ne=x != y)[kind])
            if kind in ("logical_and", "logical_or", "logical_xor"):
                if not all(isinstance(v, (bool, numpy.bool_)) for v in a):
                    raise Undefined("logical op on non-boolean")
                return bool(dict(logical_and=a[0] and a[1], logical_or=a[0] or a[1], logical_xor=a[0] != a[1])[kind])
            if kind == "logical_not":
                if not isinstance(a[0], (bool, numpy.bool_)):
                    raise Undefined("logical op on non-boolean")
                return not a[0]
            if kind == "select":
                if not isinstance(a[0], (bool, numpy.bool_)):
                    raise Undefined("select on non-boolean")
                return a[1] if a[0] else a[2]
            if kind in ("upcast", "downcast"):
                x = num(a[0])
                up = {numpy.float16: numpy.float32, numpy.float32: numpy.float64}
                down = {numpy.float64: numpy.float32, numpy.float32: numpy.float16}
                dt = (up if kind == "upcast" else down).get(type(x))
                if dt is None:
                    raise Undefined("cast outside float16/32/64")
                return flag(kind, a, dt(x))
        raise Undefined("kind " + kind)

    return rec(expr)


def decode_env(asg):
    """assignment record -> (exact environment, floating-point environment)"""
    envq, envf = {}, {}
    for k, v in asg["q"].items():
        envq[k] = bool(v) if isinstance(v, bool) else Fraction(v[0], v[1])
    for k, v in asg["f"].items():
        if isinstance(v, bool):
            envf[k] = bool(v)
        elif v[0] == "i":
            envf[k] = numpy.int64(v[1])
        elif v[0] == "py":
            envf[k] = numpy.float64(float_of_bits(v[1], "py"))
        else:
            envf[k] = float_of_bits(v[1], v[0])
    return envq, envf


def values_equal(a, b):
    """booleans identical, floats equal up to the sign of zero"""
    ab, bb = isinstance(a, (bool, numpy.bool_)), isinstance(b, (bool, numpy.bool_))
    if ab != bb:
        return False
    if ab:
        return bool(a) == bool(b)
    return bool(a == b)


def search_case(spec, assignments):
    """Property clauses on the REAL rewriter for one expression:
    no-raise, exact clause (Fractions), fp clause (NumPy)."""
    ctx = new_context()
    out = dict(fails=[], stats={})
    st = out["stats"]
    try:
        with quiet():
            e = build(ctx, spec)
    except Exception as ex:  # noqa: BLE001
        out["build_error"] = exc_name(ex)
        return out
    res = real_rewrite(e)

    def cnt(k):
        st[k] = st.get(k, 0) + 1

    if res[0] == "err":
        out["fails"].append(dict(clause="no-raise", exc=res[1], where=res[2]))
        return out
    r = res[1]
    out["changed"] = r is not e
    if r is e:
        cnt("unchanged")
        return out
    for asg in assignments:
        # exact clause
        envq, envf = decode_env(asg)
        try:
            v0 = eval_exact(e, envq)
        except Undefined:
            cnt("exact:undefined")
            v0 = None
        except Inexact:
            cnt("exact:inexact-constants")
            v0 = None
        if v0 is not None:
            try:
                v1 = eval_exact(r, envq)
                ok = values_equal(v0, v1) if not (isinstance(v0, Fraction) and isinstance(v1, Fraction)) else v0 == v1
                if not ok:
                    out["fails"].append(dict(clause="exact", env=asg["q"], orig=str(v0), new=str(v1)))
                cnt("exact:compared")
            except Undefined as ex:
                out["fails"].append(dict(clause="exact", env=asg["q"], orig=str(v0), new="undefined:" + str(ex)))
            except Inexact:
                cnt("exact:inexact-after")
        # fp clause
        try:
            w0 = eval_fp(e, envf, check=True)
        except Undefined:
            cnt("fp:irregular")
            continue
        try:
            w1 = eval_fp(r, envf, check=False)
            if not values_equal(w0, w1):
                out["fails"].append(dict(clause="fp", env=asg["f"], orig=repr(w0), new=repr(w1)))
            cnt("fp:compared")
        except Undefined as ex:
            out["fails"].append(dict(clause="fp", env=asg["f"], orig=repr(w0), new="undefined:" + str(ex)))
    return out


# --------------------------------------------------------------------------- cause signatures

REL_INDEX = dict(ge=(0, 2), gt=(1, 3), le=(2, 0), lt=(3, 1), eq=(4, 4), ne=(5, 5))
PROPS5 = ["positive", "negative", "nonpositive", "nonnegative", "finite"]
PAIRS12 = [("positive", "negative"), ("positive", "nonnegative"), ("positive", "nonpositive"), ("negative", "positive"),
           ("negative", "nonpositive"), ("negative", "nonnegative"), ("nonpositive", "negative"), ("nonpositive", "nonnegative"),
           ("nonpositive", "positive"), ("nonnegative", "positive"), ("nonnegative", "nonpositive"), ("nonnegative", "negative")]


def key_repr(v):
    if isinstance(v, str):
        return v
    try:
        if v == int(v):
            return str(int(v))
    except Exception:  # noqa: BLE001
        pass
    return repr(v)


def compare_cause(kind, x, y):
    """Which table lookup of `_compare` decides `x <kind> y`?  (x, y already rewritten)"""
    from functional_algorithms import rewrite as rw
    from functional_algorithms.utils import number_types

    idx, sidx = REL_INDEX[kind]
    try:
        if x.kind == "constant":
            xv = x.operands[0]
            if y.kind == "constant":
                yv = y.operands[0]
                try:
                    if (xv, yv) in rw._constant_relop_constant:
                        return f"table:_constant_relop_constant:({key_repr(xv)},{key_repr(yv)})"
                except TypeError:
                    pass
                return "compare:constant-constant:evaluated"
            if isinstance(xv, number_types):
                for prop in PROPS5:
                    if y._is(prop):
                        r = rw._constant_relop_any.get((xv, prop))
                        if r is not None and r[idx] is not None:
                            return f"table:_constant_relop_any:({key_repr(xv)},{prop})"
        elif y.kind == "constant":
            yv = y.operands[0]
            if isinstance(yv, number_types):
                for prop in PROPS5:
                    if x._is(prop):
                        r = rw._constant_relop_any.get((yv, prop))
                        if r is not None and r[sidx] is not None:
                            return f"table:_constant_relop_any:({key_repr(yv)},{prop})"
        else:
            for xp, yp in PAIRS12:
                if x._is(xp) and y._is(yp):
                    r = rw._any_relop_any.get((xp, yp))
                    if r is not None and r[idx] is not None:
                        return f"table:_any_relop_any:({xp},{yp})"
    except Exception:  # noqa: BLE001
        pass
    return None


INF_DIV = "infer-fp:sign of x/(+-inf) inferred as strict although the quotient is zero"


def prop_holds_fp(prop, w):
    if isinstance(w, (bool, numpy.bool_)):
        return True
    return bool(dict(positive=w > 0, negative=w < 0, nonpositive=w <= 0, nonnegative=w >= 0, finite=numpy.isfinite(w)).get(prop, True))


def inference_cause(rops, failure):
    """the sign the implementation infers for a (rewritten) operand is false of its floating-point value"""
    if failure is None or failure[0] != "fp":
        return None
    _, envf = decode_env(dict(q={}, f=failure[1]))
    for o in rops:
        if o.kind == "constant":
            continue
        try:
            w = eval_fp(o, envf, check=False)
        except Undefined:
            continue
        for prop in PROPS5:
            try:
                with quiet():
                    a = o._is(prop)
            except Exception:  # noqa: BLE001
                continue
            if a and not prop_holds_fp(prop, w):
                for sub in sub_exprs(o):
                    if sub.kind == "divide":
                        try:
                            d = eval_fp(sub.operands[1], envf, check=False)
                            if not isinstance(d, (bool, numpy.bool_)) and numpy.isinf(d):
                                return INF_DIV
                        except Undefined:
                            pass
                return f"infer-fp:_is_{prop}:{o.kind}"
    return None


def cause_of(n, failure=None):
    """Stable cause signature for a minimal expression whose rewriting changes its value."""
    F = fa()
    k = n.kind
    ops = [o for o in n.operands if isinstance(o, F.Expr)]
    try:
        with quiet():
            rops = [o.rewrite(F.rewrite) for o in ops]
    except Exception:  # noqa: BLE001
        rops = ops
    if k in REL_INDEX and len(rops) == 2:
        c = inference_cause(rops, failure) or compare_cause(k, rops[0], rops[1])
        if c:
            return c
    if k == "upcast" and ((ops and ops[0].kind == "downcast") or (rops and rops[0].kind == "downcast")):
        return "rule:upcast(downcast(x))->x"
    if k in ("add", "subtract", "multiply", "minimum", "maximum") and len(rops) == 2 and all(o.kind == "constant" for o in rops):
        try:
            t0, t1 = rops[0].operands[1].get_type(), rops[1].operands[1].get_type()
            if not t0.is_same(t1):
                return MIXED
        except Exception:  # noqa: BLE001
            pass
        return f"fold:{k}(constant,constant)"
    return f"value:{k}({','.join(o.kind for o in ops)})"


def sub_exprs(e):
    """all sub-expressions, children before parents, without duplicates"""
    F = fa()
    seen, out = set(), []

    def rec(x):
        if id(x) in seen:
            return
        seen.add(id(x))
        if x.kind == "constant":
            return
        for o in x.operands:
            if isinstance(o, F.Expr):
                rec(o)
        out.append(x)

    rec(e)
    return out


def value_fails(e, r, assignments):
    """first failing (clause, assignment, orig, new) of the value clauses, or None"""
    for asg in assignments:
        envq, envf = decode_env(asg)
        try:
            v0 = eval_exact(e, envq)
        except (Undefined, Inexact):
            v0 = None
        if v0 is not None:
            try:
                v1 = eval_exact(r, envq)
                if not (v0 == v1 if (isinstance(v0, Fraction) and isinstance(v1, Fraction)) else values_equal(v0, v1)):
                    return ("exact", asg["q"], str(v0), str(v1))
            except Undefined as ex:
                return ("exact", asg["q"], str(v0), "undefined:" + str(ex))
            except Inexact:
                pass
        try:
            w0 = eval_fp(e, envf, check=True)
        except Undefined:
            continue
        try:
            w1 = eval_fp(r, envf, check=False)
            if not values_equal(w0, w1):
                return ("fp", asg["f"], repr(w0), repr(w1))
        except Undefined as ex:
            return ("fp", asg["f"], repr(w0), "undefined:" + str(ex))
    return None


def minimal_cause(e, assignments):
    """smallest sub-expression whose own rewriting changes its value; its cause signature"""
    F = fa()
    # a constant leaf whose own rewriting (the rule `constant`) changes its value
    seen = set()

    def consts(x):
        if id(x) in seen:
            return
        seen.add(id(x))
        if x.kind == "constant":
            yield x
            return
        for o in x.operands:
            if isinstance(o, F.Expr):
                yield from consts(o)

    for c in consts(e):
        res = real_rewrite(c)
        if res[0] == "ok" and res[1] is not c:
            f = value_fails(c, res[1], assignments[:1] or [dict(q={}, f={})])
            if f is not None:
                v = c.operands[0]
                return f"rule:constant({'named constant' if isinstance(v, str) else type(v).__name__})", to_dag_safe(c), f
    typed = None
    for sub in sub_exprs(e):
        res = real_rewrite(sub)
        if res[0] != "ok" or res[1] is sub:
            continue
        f = value_fails(sub, res[1], assignments)
        if f is not None:
            if f[0] == "fp" and sub.kind in SIGN_SENSITIVE and zero_sign_only(sub, f[1]):
                # the signature names the RULE that flips the sign of the zero, so that another rule doing the same
                # is a different violation
                return SIGNZERO + zero_sign_causes(sub, f[1]), to_dag_safe(sub), f
            if typed is not None:
                # a smaller sub-expression changed its dtype under rewriting: the cause is the dropped / moved
                # implicit promotion of mixed-precision operands (later folds then happen in the narrower dtype)
                return MIXED, typed, f
            return cause_of(sub, f), to_dag_safe(sub), f
        if typed is None:
            try:
                t0, t1 = sub.get_type(), res[1].get_type()
                if not t0.is_same(t1) and t0.kind == "float" and t1.kind == "float":
                    typed = to_dag_safe(sub)
            except Exception:  # noqa: BLE001
                pass
    return None, None, None


SIGN_SENSITIVE = {"atan2", "copysign", "divide", "sign"}
SIGNZERO = "sign-of-zero:"   # + the rule(s) that flip the sign of a zero, see zero_sign_causes


def zero_sign_only(sub, envf_rec):
    """do the operands of `sub`, rewritten on their own, differ from the originals only in the sign of a zero?"""
    F = fa()
    _, envf = decode_env(dict(q={}, f=envf_rec))
    differs = False
    for o in sub.operands:
        if not isinstance(o, F.Expr):
            continue
        r = real_rewrite(o)
        if r[0] != "ok":
            return False
        try:
            w0, w1 = eval_fp(o, envf, check=False), eval_fp(r[1], envf, check=False)
        except Undefined:
            return False
        if isinstance(w0, (bool, numpy.bool_)) or isinstance(w1, (bool, numpy.bool_)):
            if bool(w0) != bool(w1):
                return False
            continue
        if not (w0 == w1):
            return False
        if w0 == 0 and bool(numpy.signbit(w0)) != bool(numpy.signbit(w1)):
            differs = True
    return differs


def zero_sign_causes(sub, envf_rec):
    """the minimal sub-expressions of `sub`'s operands whose own rewriting flips the sign of a zero value: `[kind(operand kinds)->kind, ...]`"""
    F = fa()
    _, envf = decode_env(dict(q={}, f=envf_rec))
    causes = []
    for o in sub.operands:
        if not isinstance(o, F.Expr):
            continue
        for s_ in sub_exprs(o):
            r = real_rewrite(s_)
            if r[0] != "ok" or r[1] is s_:
                continue
            try:
                w0, w1 = eval_fp(s_, envf, check=False), eval_fp(r[1], envf, check=False)
            except Undefined:
                continue
            if isinstance(w0, (bool, numpy.bool_)) or isinstance(w1, (bool, numpy.bool_)):
                continue
            try:
                flip = (w0 == 0 and w1 == 0 and bool(numpy.signbit(w0)) != bool(numpy.signbit(w1)))
            except Exception:  # noqa: BLE001
                flip = False
            if flip:
                def opnd(x):
                    if not isinstance(x, F.Expr):
                        return "py"
                    if x.kind == "constant":
                        v = x.operands[0]
                        try:
                            return "0" if (not isinstance(v, (str, F.Expr)) and v == 0) else "c"
                        except Exception:  # noqa: BLE001
                            return "c"
                    return "_"
                # classify by the operands AS REWRITTEN (s_ is minimal: its operands' own rewriting flips nothing, so the flip is the
                # top rule applied to the rewritten operands); otherwise log(1) + y and -(-y) + 0 would look like new causes
                def rw(x):
                    if not isinstance(x, F.Expr):
                        return x
                    rr = real_rewrite(x)
                    return rr[1] if rr[0] == "ok" else x
                ops_rw = [rw(x) for x in s_.operands]
                labels = [opnd(x) for x in ops_rw]
                if s_.kind == "select" and isinstance(ops_rw[0], F.Expr):
                    labels[0] = ops_rw[0].kind  # which of the select rules fired: (x == y) ? x : y -> y or (x != y) ? x : y -> x
                c = f"{s_.kind}({','.join(labels)})->{'operand' if any(r[1] is x for x in list(s_.operands) + ops_rw) else r[1].kind}"
                if c not in causes:
                    causes.append(c)
                break
    # one cause per failure (the first operand's): a combination of known causes must not look like a new one
    return "[" + (causes[0] if causes else "?") + "]"


MIXED = "mixed-dtype:rewriting changes the dtype of a sub-expression(implicit promotion of mixed-precision operands dropped)"


def to_dag_safe(e):
    try:
        return to_dag(e)
    except Exception:  # noqa: BLE001
        return str(e)


def raise_signature(exc, where):
    if exc == "Watchdog":
        return "termination:watchdog(10s)"
    if exc == "NotImplementedError" and "is_complex" in where:
        return "no-raise:NotImplementedError:Expr.is_complex(kind without a case, reached from sign inference)"
    if exc == "NotImplementedError" and "get_type" in where:
        return "no-raise:NotImplementedError:Expr.get_type(kind without a case)"
    if exc == "AssertionError" and "_is_non" in where:
        return "no-raise:AssertionError:sign-inference(assert not self.is_complex)"
    if exc == "ValueError" and "_eval" in where:
        return "no-raise:ValueError:_eval(math.sqrt of a negative Python-float constant)"
    if exc == "TypeError" and ("_compare" in where or "logical_" in where):
        return "no-raise:TypeError:key-comparison(x.key > y.key on constants with unordered values)"
    return f"no-raise:{exc}:{where}"


def search_case_full(spec, assignments):
    """search_case + cause signatures for the failures"""
    out = search_case(spec, assignments)
    if not out["fails"]:
        return out
    ctx = new_context()
    with quiet():
        e = build(ctx, spec)
    sigs = []
    for f in out["fails"]:
        if f["clause"] == "no-raise":
            sigs.append(raise_signature(f["exc"], f["where"]))
    if any(f["clause"] in ("exact", "fp") for f in out["fails"]):
        sig, dag, ff = minimal_cause(e, assignments)
        if sig is None:
            sig = "value:interaction(no single sub-expression fails)"
        sigs.append(sig)
        out["minimal"] = dict(dag=dag, failure=ff)
    out["signatures"] = sigs
    return out


INF_PROPS = ["zero", "one", "finite", "nonnegative", "nonpositive", "positive", "negative"]


def infer_holds(p, ans, v):
    fin = not is_inf(v)
    if p == "finite":
        return fin if ans else not fin
    tab = dict(zero=v == 0, one=v == 1, nonnegative=v >= 0, nonpositive=v <= 0, positive=v > 0, negative=v < 0)
    return tab[p] if ans else not tab[p]


def infer_search_case(spec, assignments):
    """The real `_is_*` answers of every sub-expression against exact evaluation."""
    ctx = new_context()
    out = dict(fails=[], checked=0)
    try:
        with quiet():
            e = build(ctx, spec)
    except Exception as ex:  # noqa: BLE001
        out["build_error"] = exc_name(ex)
        return out
    for sub in sub_exprs(e) + [c for c in [e] if c.kind == "constant"]:
        answers = {}
        for p in INF_PROPS:
            try:
                with quiet():
                    r = getattr(sub, "_is_" + p)
            except Exception:  # noqa: BLE001
                continue
            if r is not None:
                answers[p] = bool(r)
        if not answers:
            continue
        for asg in assignments:
            envq, _ = decode_env(asg)
            try:
                v = eval_exact(sub, envq)
            except (Undefined, Inexact):
                continue
            if isinstance(v, bool):
                continue
            for p, a in answers.items():
                out["checked"] += 1
                if not infer_holds(p, a, v):
                    out["fails"].append(dict(clause="infer", prop=p, answer=a, value=str(v), kind=sub.kind, env=asg["q"], dag=to_dag_safe(sub),
                                             signature=f"infer:_is_{p}:{sub.kind}"))
            if out["fails"]:
                return out
    return out


# --------------------------------------------------------------------------- shipped graphs

def shipped_graphs():
    """(name, signature, [body expressions]) for every algorithm/signature of the NumPy target's
    trace_arguments, traced and expanded for the NumPy target by the package's own machinery."""
    F = fa()
    from functional_algorithms import algorithms
    from functional_algorithms.targets import numpy as tnumpy

    out = []
    for name, sigs in tnumpy.trace_arguments.items():
        for sig in sigs:
            try:
                with quiet():
                    ctx = F.Context(paths=[algorithms])
                    g = ctx.trace(getattr(algorithms, name), *sig)
                    g1 = g.rewrite(tnumpy)
            except Exception as ex:  # noqa: BLE001
                out.append((name, sig, None, exc_name(ex), None))
                continue
            body = g1.operands[-1] if g1.kind == "apply" else g1
            bodies = list(body.operands) if body.kind == "list" else [body]
            out.append((name, sig, bodies, None, ctx))
    return out


# --------------------------------------------------------------------------- subprocess entry

def main():
    job = json.load(sys.stdin)
    sys.setrecursionlimit(100000)
    specs = [unshare(s) for s in job["specs"]]
    res = []
    if job["mode"] == "corr":
        for s in specs:
            res.append(correspondence_case(s))
    elif job["mode"] == "infer":
        for s in specs:
            res.append(infer_case(s))
    elif job["mode"] == "search":
        for s, a in zip(specs, job["assignments"]):
            res.append(search_case_full(s, a))
    elif job["mode"] == "infersearch":
        for s, a in zip(specs, job["assignments"]):
            res.append(infer_search_case(s, a))
    json.dump(res, sys.stdout)


def share(spec):
    """spec with sharing -> flat table (JSON keeps sharing explicit)"""
    idx, tab = {}, []

    def rec(s):
        k = id(s)
        if k in idx:
            return idx[k]
        if s[0] == "sym":
            row = list(s)
        elif s[0] == "const":
            row = ["const", s[1], rec(s[2])]
        else:
            row = [s[0]] + [rec(o) for o in s[1:]]
        idx[k] = len(tab)
        tab.append(row)
        return idx[k]

    rec(spec)
    return tab


def unshare(tab):
    nodes = []
    for row in tab:
        if row[0] == "sym":
            nodes.append(list(row))
        elif row[0] == "const":
            nodes.append(["const", row[1], nodes[row[2]]])
        else:
            nodes.append([row[0]] + [nodes[i] for i in row[1:]])
    return nodes[-1]


if __name__ == "__main__":
    main()
