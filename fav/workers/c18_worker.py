"""Worker process for C18: executes nested-context histories on the REAL fpu module.

stdin : one JSON document {"histories": [tree, ...], "init": [reg, ...]}
stdout: one JSON document per history: {"ops": [...], "obs": [...], "prop": [...]}

A history is a tree of nodes executed with real `with` statements / decorator calls:
  ["create", fz, daz, rn, shared?]   fz,daz in {null,true,false}; rn in {null,"nearest",...}; shared: built from the harness's own
                                     MXCSRRegister instance instead of fpu.context (a fresh instance)
  ["with", i, form, [children]]      form in {"with","decorator"}; uses context object number i
  ["body", flags]                    sets sticky exception flags (bits 0-5) as arithmetic would
  ["arith"]                          real arithmetic observation (subnormal product, 1/3)
  ["raise"]                          raises an exception that unwinds to the nearest "try"
  ["try", [children]]                catches the exception
The worker never touches floats outside "arith" so sticky flags are not disturbed.
"""

import ctypes
import json
import struct
import sys

from functional_algorithms import fpu

R = fpu.MXCSRRegister()
# operands are built once, under the default mode (building them is itself arithmetic)
CONSTS = tuple(struct.unpack("<d", struct.pack("<Q", b))[0] for b in
               (0x0010000000000000, 0x3FE0000000000000, 0x0000000000000001, 0x43B0000000000000, 0x3FF0000000000000, 0x4008000000000000))


def reg():
    return R.get_mxcsr().value


class Boom(Exception):
    pass


def requested_mask_val(fz, daz, rn):
    mask = val = 0
    if fz is not None:
        mask |= 1 << 15
        val |= (1 << 15) if fz else 0
    if daz is not None:
        mask |= 1 << 6
        val |= (1 << 6) if daz else 0
    if rn is not None:
        mask |= 3 << 13
        val |= {"nearest": 0, "down": 1, "up": 2, "towardszero": 3}[rn] << 13
    return mask, val


def run_history(tree, init):
    ops, obs, prop = [], [], []
    R.set_mxcsr(ctypes.c_uint32(init))
    ops.append(f"init {init}")
    obs.append(f"ok {reg()}")
    ctxs = []  # (object, args, reg at creation)
    last = [reg()]

    def sync():
        now = reg()
        if now != last[0]:
            # only sticky flags may appear spontaneously
            ops.append(f"body {now & 0x3f}")
            obs.append(f"ok {now}")
            last[0] = now

    def log(op, out):
        now = reg()
        ops.append(op)
        obs.append(f"{out} {now}")
        last[0] = now

    def tri(x):
        return "N" if x is None else ("T" if x else "F")

    def arith_obs():
        tiny, half, sub, big, one, three = CONSTS
        # FZ: normal inputs, subnormal result.  DAZ: subnormal input, normal result.
        # results are inspected through their bit patterns (comparisons and float.hex would
        # themselves be subject to DAZ)
        bits = lambda v: struct.unpack("<Q", struct.pack("<d", v))[0]
        hexs = {0x3FD5555555555555: "0x1.5555555555555p-2", 0x3FD5555555555556: "0x1.5555555555556p-2",
                0xBFD5555555555555: "-0x1.5555555555555p-2", 0xBFD5555555555556: "-0x1.5555555555556p-2"}
        return dict(fz_flushed=(bits(tiny * half) == 0), daz_flushed=(bits(sub * big) == 0),
                    third=hexs.get(bits(one / three)), mthird=hexs.get(bits(-one / three)))

    def expected_arith(r):
        rn = (r >> 13) & 3
        third = {0: "0x1.5555555555555p-2", 1: "0x1.5555555555555p-2", 2: "0x1.5555555555556p-2", 3: "0x1.5555555555555p-2"}[rn]
        mthird = {0: "-0x1.5555555555555p-2", 1: "-0x1.5555555555556p-2", 2: "-0x1.5555555555555p-2", 3: "-0x1.5555555555555p-2"}[rn]
        return dict(fz_flushed=bool(r & (1 << 15)), daz_flushed=bool(r & (1 << 6)), third=third, mthird=mthird)

    def run(node):
        kind = node[0]
        sync()
        if kind == "create":
            _, fz, daz, rn = node[:4]
            shared = len(node) > 4 and bool(node[4])
            cur = reg()
            try:
                c = R(FZ=fz, DAZ=daz, RN=rn) if shared else fpu.context(FZ=fz, DAZ=daz, RN=rn)
            except BaseException as e:  # noqa: BLE001 - every documented mode must be accepted: the exception kind is the observation
                # (an AssertionError here used to unwind to the nearest `try` like the documented re-entry assertion and silently
                # truncated the history: a first-order mutant that made RN="towardszero" unreachable survived)
                prop.append(dict(clause="requested-mode-rejected", args=[fz, daz, rn], exc=type(e).__name__, msg=str(e)[:120]))
                ctxs.append((None, (fz, daz, rn), cur))
                log(f"create {tri(fz)} {tri(daz)} {rn or 'N'}", type(e).__name__)
                return
            ctxs.append((c, (fz, daz, rn), cur))
            log(f"create {tri(fz)} {tri(daz)} {rn or 'N'}", "ok")
        elif kind == "body":
            R.set_mxcsr(ctypes.c_uint32(reg() | (node[1] & 0x3F)))
            log(f"body {node[1]}", "ok")
        elif kind == "arith":
            r0 = reg() & ~0x3F
            got = arith_obs()
            if got != expected_arith(r0):
                prop.append(dict(clause="arithmetic-observes-mode", reg=r0, got=got, expected=expected_arith(r0)))
        elif kind == "raise":
            raise Boom()
        elif kind == "try":
            try:
                for ch in node[1]:
                    run(ch)
            except (Boom, AssertionError):
                pass
        elif kind == "with":
            _, i, form, children = node
            if i >= len(ctxs):
                log(f"enter {i}", "bad-op")
                return
            c, args, created_at = ctxs[i]
            if c is None:
                log(f"enter {i}", "bad-op")
                return
            before = reg()
            entered = [False]
            raised = [False]

            def inner():
                entered[0] = True
                log(f"enter {i}", "ok")
                inside = reg()
                mask, val = requested_mask_val(*args)
                if (inside ^ before) & ~mask & 0xFFFFFFFF or (inside & mask) != val:
                    prop.append(dict(clause="only-requested-bits", ctx=i, args=args, before=before, inside=inside, created_at=created_at,
                                     stale=(created_at != before)))
                try:
                    for ch in children:
                        run(ch)
                except BaseException:
                    raised[0] = True
                    raise
                finally:
                    sync()

            try:
                if form == "decorator":
                    c(inner)()
                else:
                    with c:
                        inner()
            except AssertionError:
                if not entered[0]:
                    log(f"enter {i}", "AssertionError")
                raise
            finally:
                if entered[0]:
                    log(f"exit {i} {1 if raised[0] else 0}", "ok")
                    after = reg()
                    if after != before:
                        prop.append(dict(clause="restore", ctx=i, before=before, after=after, raised=raised[0]))
        else:
            raise ValueError(kind)

    try:
        for n in tree:
            run(n)
    except (Boom, AssertionError):
        pass
    return dict(ops=ops, obs=obs, prop=prop)


def main():
    doc = json.load(sys.stdin)
    saved = reg()
    out = []
    for tree, init in zip(doc["histories"], doc["init"]):
        out.append(run_history(tree, init))
    R.set_mxcsr(ctypes.c_uint32(saved))
    json.dump(out, sys.stdout)


if __name__ == "__main__":
    main()
