"""Seeded, type-directed generator of graph recipes for C06 (see c06_worker.py for the recipe format).

Every random choice derives from the `random.Random` passed in.  A recipe is a construction program
for the REAL Context API; the generator tracks a coarse value class per node so that most graphs are
well typed (R real, C complex, B boolean, I integer/opaque), shares sub-expressions (DAG), names
some nodes with `.reference(...)`, uses every declared kind, every comparison, every named constant,
Python numbers as operands (normalize path) and constants of every value type.
"""

# kind -> (operand classes, result class); "N" = R or C (same for all N operands unless mixed), "=" = class of operand 0
SIG = {}
for k in ("negative positive sqrt exp expm1 log log1p log2 log10 sin cos tan sinh cosh tanh asin acos atan asinh acosh atanh square "
          "conjugate").split():
    SIG[k] = ("N", "=")
for k in "ceil floor round sign truncate".split():
    SIG[k] = ("R", "R")
SIG["absolute"] = ("N", "R")
SIG["real"] = ("C", "R")
SIG["imag"] = ("C", "R")
SIG["asin_acos_kernel"] = ("C", "C")
for k in "add subtract multiply divide pow".split():
    SIG[k] = ("NN", "N")
for k in "maximum minimum atan2 remainder nextafter copysign hypot floor_divide".split():
    SIG[k] = ("RR", "R")
SIG["complex"] = ("RR", "C")
for k in "lt le gt ge eq ne".split():
    SIG[k] = ("RR", "B")
for k in "logical_and logical_or logical_xor".split():
    SIG[k] = ("BB", "B")
SIG["logical_not"] = ("B", "B")
SIG["select"] = ("BNN", "N")
for k in "is_finite is_inf is_posinf is_neginf is_nan is_negzero".split():
    SIG[k] = ("R", "B")
for k in "bitwise_and bitwise_or bitwise_xor bitwise_left_shift bitwise_right_shift".split():
    SIG[k] = ("II", "I")
SIG["bitwise_invert"] = ("I", "I")

CMP = ["lt", "le", "gt", "ge", "eq", "ne"]
NONCOMM = ["subtract", "divide", "pow", "atan2", "remainder", "lt", "le", "gt", "ge", "complex", "select", "nextafter",
           "bitwise_left_shift", "bitwise_right_shift"]

ARGTYPES = {
    "stablehlo": dict(R=["float32", "float64", "float", "float16"], C=["complex64", "complex128", "complex"], B=["boolean"],
                      I=["int64", "integer", "int32"]),
    # the XLA printer knows the generic types only (float32 -> KeyError); "opaque" = user type names (Type kind "type")
    "xla_client": dict(R=["float"], C=["complex"], B=["boolean"], I=["int64"]),
    "xla_client:opaque": dict(R=["XlaOp"], C=["XlaOp"], B=["XlaOp"], I=["XlaOp"]),
}

INTS = [0, 1, 2, -1, 3, 8, 1000000]
FLOATS = [0.0, 0.5, 1.0, -1.0, 2.0, 1.5, 1e-06, 1e12, 0.1, -0.0, 4.0, 1.4142135623730951, float("inf")]
NAMES = ["a", "b", "t", "u", "r", "s", "one", "half", "w", "mx"]
ARGNAMES = ["x", "y", "z", "w", "q"]


def _valspec(rng, named_pool, alt, allow_inf=True):
    r = rng.random()
    if r < 0.22 and named_pool:
        return ["s", rng.choice(named_pool)]
    if r < 0.45:
        return ["i", rng.choice(INTS)]
    fl = FLOATS if allow_inf else FLOATS[:-1]
    if r < 0.80:
        return ["f", float(rng.choice(fl)).hex()]
    if r < 0.88:
        return ["f32", float(rng.choice(FLOATS[:9])).hex()]
    if r < 0.96 or not named_pool:
        return ["f64", float(rng.choice(fl)).hex()]
    return ["s", rng.choice(["inf", "-inf", "+inf"])]


def gen_recipe(rng, target, kinds, named, alt=False, dct=None, size=None, must_use=None, malformed=False, rid="", weights=None,
               const_bias=0.22, allow_inf=True):
    """kinds: kinds the target declares; named: named constants it declares; must_use: kind to include;
    weights: kind -> relative weight (kinds the target rejects in every context get a small one)."""
    T = ARGTYPES[target]
    if target == "xla_client" and rng.random() < 0.12:
        T = ARGTYPES["xla_client:opaque"]
    nargs = rng.choice([1, 1, 2, 2, 3])
    args, cls = [], []
    # argument classes: make sure the classes needed by must_use are present
    need = set()
    if must_use in SIG:
        need = set(SIG[must_use][0].replace("N", rng.choice("RC")))
    classes = list(need) + [rng.choice("RRRCCB" + ("I" if rng.random() < 0.15 else "R")) for _ in range(nargs)]
    classes = classes[: max(nargs, len(need))]
    for i, c in enumerate(classes):
        args.append([ARGNAMES[i], rng.choice(T[c])])
        cls.append(c)
    steps = []
    ntarget = size if size is not None else rng.choice([2, 4, 6, 9, 14, 22] if target == "stablehlo" else [2, 4, 6, 9, 13, 18])
    used_names = set(a[0] for a in args)
    uses = [0] * len(cls)

    def pick(c, prefer_recent=True):
        cands = [i for i, k in enumerate(cls) if k == c or (c == "N" and k in "RC")]
        if not cands:
            return None
        if prefer_recent and rng.random() < 0.6:
            cands = cands[-6:]
        i = rng.choice(cands)
        uses[i] += 1
        return i

    def add_node(step, c):
        steps.append(step)
        cls.append(c)
        uses.append(0)
        return len(cls) - 1

    def make_const(c_like_class):
        like = pick(c_like_class) if rng.random() < 0.97 or not malformed else None
        if like is None and not malformed:
            like = pick("R")
            if like is None:
                like = 0
        v = _valspec(rng, named, alt, allow_inf)
        if malformed and rng.random() < 0.3:
            v = ["s", rng.choice(["eps", "undefined", "smallest_subnormal", "nan"])]
        return add_node(["const", v, like], cls[like] if like is not None else "R")

    def operand(c):
        """an operand of class c: an existing node, a fresh constant, or (for pyop) a Python number"""
        r = rng.random()
        if c in "RCN" and r < const_bias:
            return make_const(c if c != "N" else rng.choice("RC") if pick("C", False) is not None else "R")
        i = pick(c)
        if i is None:
            if c == "B":
                a, b = pick("R"), pick("R")
                if a is None:
                    return None
                if b is None:
                    b = a
                return add_node(["op", rng.choice([k for k in CMP if k in kinds] or ["eq"]), [a, b]], "B")
            if c == "R":
                z = pick("C")
                if z is None:
                    return None
                return add_node(["op", rng.choice([k for k in ("real", "imag", "absolute") if k in kinds] or ["real"]), [z]], "R")
            if c == "C":
                a, b = pick("R"), pick("R")
                if a is None:
                    return None
                return add_node(["op", "complex", [a, b if b is not None else a]], "C")
            return None
        return i

    def apply_kind(k):
        sig, res = SIG.get(k, ("R", "R"))
        ops = []
        ncls = None
        for ch in sig:
            want = ch
            if ch == "N":
                want = ncls or rng.choice("RRC")
            o = operand(want)
            if o is None and ch == "N":
                o = operand("R" if want == "C" else "C")
            if o is None:
                return None
            ops.append(o)
            if ch == "N":
                ncls = ncls or cls[o]
                if cls[o] == "C":
                    ncls = "C" if k in ("add", "subtract", "multiply", "divide", "pow") else ncls
        rc = res
        if res == "=":
            rc = cls[ops[0]]
        elif res == "N":
            cl = [cls[o] for o, ch in zip(ops, sig) if ch == "N"]
            rc = "C" if "C" in cl else "R"
        # python-number operand (normalize path): replace one constant-able operand
        if rng.random() < 0.15 and len(ops) >= 2 and sig[-1] in "RN" and k != "select":
            j = rng.randrange(len(ops))
            if sig[j] in "RN" and any(isinstance(o, int) for t, o in enumerate(ops) if t != j):
                pv = ["i", rng.choice(INTS)] if rng.random() < 0.5 else ["f", float(rng.choice(FLOATS[:11])).hex()]
                ops2 = list(ops)
                ops2[j] = {"py": pv}
                return add_node(["pyop", k, ops2], rc)
        return add_node(["op", k, ops], rc)

    pool = [k for k in kinds if k in SIG]
    wts = [(weights or {}).get(k, 1.0) for k in pool]
    todo = [must_use] if must_use else []
    guard = 0
    while len(steps) < ntarget and guard < 200:
        guard += 1
        k = todo.pop() if todo else rng.choices(pool, wts)[0]
        if malformed and rng.random() < 0.15:
            k = rng.choice(["hypot", "frobnicate", "floor_divide", "upcast", "conjugate", "copysign"])
        n = apply_kind(k)
        if n is None:
            continue
        if rng.random() < 0.25:
            nm = rng.choice(NAMES)
            force = rng.choice([True, True, False, None])
            steps.append(["ref", n, nm, force])
    if malformed and rng.random() < 0.5:
        c = rng.choice("RCB")
        add_node(["sym", rng.choice(["p", "_float_value", "x"]), rng.choice(T[c])], c)
    # combine unused roots into one body
    roots = [i for i in range(len(args), len(cls)) if uses[i] == 0]
    if not roots:
        roots = [len(cls) - 1] if len(cls) > len(args) else [0]
    body = roots[0]
    for r in roots[1:]:
        a, b = cls[body], cls[r]
        if a in "RC" and b in "RC":
            k = rng.choice([q for q in ("add", "multiply", "subtract", "divide") if q in kinds] or ["add"])
            body = add_node(["op", k, [body, r] if rng.random() < 0.5 else [r, body]], "C" if "C" in (a, b) else "R")
        elif a == "B" and b == "B":
            k = rng.choice([q for q in ("logical_and", "logical_or", "logical_xor") if q in kinds] or ["logical_and"])
            body = add_node(["op", k, [body, r]], "B")
        elif "B" in (a, b) and "select" in kinds:
            cond, val = (body, r) if a == "B" else (r, body)
            if cls[val] in "RC":
                other = pick(cls[val], False)
                body = add_node(["op", "select", [cond, val, other if other is not None else val]], cls[val])
            else:
                body = val
        else:
            # incompatible classes (integers): keep the larger one
            body = r if rng.random() < 0.5 else body
    props = {}
    if rng.random() < 0.1:
        props["name"] = rng.choice(["CHLO_MyOp", "my_func_0"])
    if target == "stablehlo" and rng.random() < 0.1:
        props["expander_name"] = "Expand" + rng.choice(["A", "B"])
    return dict(mode="recipe", id=rid, target=target, alt=bool(alt), dct=dct, fname=rng.choice(["f", "acos", "my_fn", "hypot2"]),
                args=args, steps=steps, body=body, props=props, malformed=bool(malformed), must_use=must_use)


def directed_recipes(target, alt, dct):
    """Small hand-built shapes aimed at the known weak points (constant aliasing across element types,
    constants printed before their `like`, floor, free symbols)."""
    R = []
    f32, f64, cx = ("float32", "float64", "complex64") if target == "stablehlo" else ("float", "XlaOp", "complex")

    def rec(name, args, steps, body, **kw):
        R.append(dict(mode="recipe", id="directed:" + name, target=target, alt=bool(alt), dct=dct, fname="f", args=args, steps=steps,
                      body=body, props={}, malformed=kw.get("malformed", False), must_use=None))

    # two constants of equal value whose likes have different element types
    rec("alias-real-complex", [["z", cx]],
        [["op", "real", [0]], ["const", ["f", (2.0).hex()], 1], ["op", "multiply", [1, 2]],
         ["const", ["f", (2.0).hex()], 0], ["op", "multiply", [0, 4]], ["op", "imag", [5]], ["op", "complex", [3, 6]]], 7)
    rec("alias-two-args", [["x", f32], ["y", f64]],
        [["const", ["f", (1.0).hex()], 0], ["op", "multiply", [2, 0]], ["const", ["f", (1.0).hex()], 1], ["op", "complex", [1, 4]],
         ["op", "add", [3, 5]]], 6)
    rec("alias-same-type", [["x", f32], ["y", f32]],
        [["const", ["f", (1.0).hex()], 0], ["op", "multiply", [2, 0]], ["const", ["f", (1.0).hex()], 1], ["op", "multiply", [1, 4]],
         ["op", "add", [3, 5]]], 6)
    # constant printed before its like
    rec("const-left-of-like", [["z", cx]], [["op", "real", [0]], ["pyop", "add", [{"py": ["i", 1]}, 1]]], 2)
    rec("const-like-only", [["z", cx]], [["op", "real", [0]], ["const", ["i", 1], 1], ["op", "negative", [2]]], 3)
    rec("const-like-late", [["z", cx]],
        [["op", "real", [0]], ["const", ["i", 1], 1], ["op", "negative", [2]], ["op", "multiply", [3, 3]], ["op", "add", [4, 1]]], 5)
    rec("floor", [["x", f32]], [["op", "floor", [0]]], 1)
    rec("positive", [["x", f32]], [["op", "positive", [0]]], 1)
    rec("every-compare", [["x", f32], ["y", f32]],
        [["op", k, [0, 1]] for k in CMP] + [["op", "logical_and", [2, 3]], ["op", "logical_or", [4, 5]], ["op", "logical_xor", [6, 7]],
                                            ["op", "logical_and", [8, 9]], ["op", "logical_or", [11, 10]], ["op", "select", [12, 0, 1]]], 13)
    rec("free-symbol-like", [["x", f32]], [["const", ["f", (1.5).hex()], None], ["op", "add", [0, 1]]], 2, malformed=True)
    return R


EXPAND_UNARY = ["square", "log2", "log10", "log1p", "asin", "acos", "asinh", "acosh", "atan", "atanh", "absolute", "sqrt", "exp", "log"]
EXPAND_BINARY = ["hypot"]


def expansion_recipes(target, alt, dct):
    """Graphs that go through the TARGET REWRITE (`graph.rewrite(target, rewrite)`): every kind the target does not
    implement natively is replaced by the shipped algorithm through `Context.call`, which names the values of each
    expansion.  n = 1..4 expansions of the same kind on distinct arguments, nested expansions, mixtures, and user
    references that use the algorithms' own local names."""
    T = ARGTYPES[target]
    R = []
    letters = ["a", "b", "c", "d", "e", "g", "h", "k"]   # not "f": the function itself is called f

    def rec(name, args, steps, body):
        R.append(dict(mode="recipe", id=f"expand:{name}", target=target, alt=bool(alt), dct=dct, fname="f", args=args, steps=steps,
                      body=body, props={}, malformed=False, must_use=None, rewrite=True))

    for cls in ("R", "C"):
        ty = T[cls][0]
        for k in EXPAND_UNARY:
            if cls == "R" and k == "absolute":
                continue
            for n in (1, 2, 3, 4):
                args = [[letters[i], ty] for i in range(n)]
                steps = [["op", k, [i]] for i in range(n)]
                acc = n
                for i in range(1, n):
                    steps.append(["op", "add" if i % 2 else "subtract", [acc, n + i]])
                    acc = len(args) + len(steps) - 1
                rec(f"{k}:{cls}:x{n}", args, steps, acc)
        # nested and mixed
        rec(f"square-of-square:{cls}", [["a", ty]], [["op", "square", [0]], ["op", "square", [1]], ["op", "square", [2]]], 3)
        rec(f"mixed:{cls}", [["a", ty], ["b", ty], ["c", ty]],
            [["op", "square", [0]], ["op", "log2", [1]], ["op", "square", [2]], ["op", "add", [3, 4]], ["op", "multiply", [6, 5]], ["op", "square", [7]]], 8)
    ty = T["R"][0]
    for n in (1, 2, 3, 4):
        args = [[letters[i], ty] for i in range(2 * n)]
        steps = [["op", "hypot", [2 * i, 2 * i + 1]] for i in range(n)]
        acc = 2 * n
        for i in range(1, n):
            steps.append(["op", "subtract", [acc, 2 * n + i]])
            acc = len(args) + len(steps) - 1
        rec(f"hypot:x{n}", args, steps, acc)
    rec("hypot-nested", [["a", ty], ["b", ty], ["c", ty], ["d", ty]],
        [["op", "hypot", [0, 1]], ["op", "hypot", [4, 2]], ["op", "hypot", [5, 3]]], 6)
    # user names equal to the algorithms' locals (mx, mn, r, sq ...)
    rec("hypot-user-names", [["mx", ty], ["mn", ty], ["r", ty], ["sq", ty]],
        [["op", "hypot", [0, 1]], ["op", "hypot", [2, 3]], ["op", "add", [4, 5]], ["ref", 6, "h1", True]], 6)
    return R


def probe_recipes(target, kinds, alt, dct):
    """One minimal graph per declared kind: tells which kinds the target can print at all."""
    T = ARGTYPES[target]
    out = []
    for k in kinds:
        sig, _res = SIG.get(k, ("R", "R"))
        args, ops = [], []
        ncls = "R"
        for i, ch in enumerate(sig):
            c = ncls if ch == "N" else ch
            args.append([ARGNAMES[i], T[c][0]])
            ops.append(i)
        out.append(dict(mode="recipe", id=f"probe:{k}", target=target, alt=bool(alt), dct=dct, fname="f", args=args,
                        steps=[["op", k, ops]], body=len(args), props={}, malformed=False, must_use=k))
    return out
