"""Worker process for C09: runs the REAL code of the repo under test ($FAV_REPO first on PYTHONPATH).

stdin : one JSON document {"mode": ..., ...};  stdout: one JSON document.

mode "sha"      : generation requests -> sha-256 of graph.tostring(target) (the search oracle).
                  {"plan": [step, ...], "dirty": k, "texts": bool}
                  step = {"kind": "plain"|"retrace"|"interleave"|"fresh-twice", "req": [target, func, sig_index],
                          "others": [[target, func, sig_index], ...]}
                  result: {"results": [{"req":..., "kind":..., "sha": [...], "text": [...]?}], "hashseed": ..., "tmp": ...}
mode "corr"     : seeded histories of reference registrations / calls on a real fa.Context
                  -> model lines (ops) + observed outputs.
mode "snapshot" : real pipeline request; the context's expression table is dumped and every top-level
                  `make_ref` call made by the printer is logged -> model lines + observed names.
mode "witness"  : replays the Lean negation witness of `noninterference` on the real code.
"""

import hashlib
import io
import json
import contextlib
import os
import re
import sys
import warnings

warnings.simplefilter("ignore")

# No external formatter in any configuration: drop every PATH entry that provides clang-format, so that
# utils.format_cpp deterministically falls back to the unformatted text (see fav/props/c09.py: worker()).
os.environ["PATH"] = os.pathsep.join(d for d in os.environ.get("PATH", "").split(os.pathsep)
                                     if d and not os.path.exists(os.path.join(d, "clang-format")))

with contextlib.redirect_stdout(io.StringIO()):
    import functional_algorithms as fa
    import functional_algorithms.apmath_algorithms  # noqa: F401  (fa.apmath_algorithms: the lax configuration)
    from functional_algorithms import expr as fa_expr

TARGETS = ["python", "numpy", "cpp", "stablehlo", "xla_client"]


def tmp_counter():
    return fa_expr.make_symbol.__defaults__[0][0]


# ---- synthetic user-level algorithms: they exercise naming features the shipped algorithms use sparingly
# (nested Context.call with colliding local names -> stack-name prefixed references; commutative boolean
# operands in both orders -> key ordering; constants built from bare Python numbers under a default constant type)

def _syn_inner(ctx, a, b):
    r = a * b
    s = a - b
    return ctx(r * r + s * s + r * s)


_syn_inner.__name__ = "inner"


def syn_nested(ctx, x: float, y: float):
    r = x + y
    s = x * y
    t = ctx.call(_syn_inner, (x, y))
    u = ctx.call(_syn_inner, (r, s))
    return ctx(r * t + s * u)


def syn_commutative(ctx, x: float, y: float, z: float):
    a = ctx.logical_and(y > x, x > z)
    b = ctx.logical_and(x > z, y > x)
    c = ctx.logical_or(z > y, ctx.logical_and(y != x, x != y))
    d = ctx.logical_or(ctx.logical_and(x != y, y != x), z > y)
    e = ctx.logical_or(ctx.eq(z, x), ctx.eq(x, z))
    return ctx(ctx.select(ctx.logical_or(ctx.logical_and(a, c), ctx.logical_and(d, b)), x, ctx.select(e, y, z)))


def syn_numbers(ctx, x: float):
    return ctx(x * ctx.constant(2) + ctx.constant(3) * x + ctx.constant("pi"))


# ---- definitions with ALIASED locals (two or more local variables bound to the same expression): Context.__call__ walks
# the caller's locals in definition order and the FIRST-bound local names the expression; the later aliases must not
# appear in the text.  Every aliased value is used at least twice so that its reference name is printed.

def alias_scaled_norm(ctx, x: float, y: float):
    mx = ctx.maximum(abs(x), abs(y))
    largest = mx
    mn = ctx.minimum(abs(x), abs(y))
    smallest = mn
    q = mn / mx
    ratio = q
    return ctx(mx * ctx.sqrt(1 + ratio * ratio) + smallest * largest)


def alias_two(ctx, x: float, y: float):
    zeta = x * y
    alpha = zeta
    return ctx(alpha * alpha + zeta)


def alias_three(ctx, x: float, y: float):
    sigma = x + y
    beta = sigma
    omega = sigma
    return ctx(omega * beta + sigma * x)


def alias_of_argument(ctx, x: float, y: float):
    aa = x
    bb = x
    hh = aa * bb
    gg = hh
    return ctx(gg + hh * y + bb)


def alias_used_in_other_order(ctx, x: float, y: float):
    pp = x * y
    kappa = x - y
    second = pp
    first = pp
    later = kappa
    return ctx(first * second + later * kappa + pp)


# name -> (tokens that must occur in the text, tokens that must not)
ALIAS_EXPECT = dict(alias_scaled_norm=(["mx", "mn", "q"], ["largest", "smallest", "ratio"]),
                    alias_two=(["zeta"], ["alpha"]),
                    alias_three=(["sigma"], ["beta", "omega"]),
                    alias_of_argument=(["x", "hh"], ["aa", "bb", "gg"]),
                    alias_used_in_other_order=(["pp", "kappa"], ["first", "second", "later"]))


def alias_struct(fname, text):
    need, forbid = ALIAS_EXPECT[fname]
    toks = set(re.findall(r"[A-Za-z_]\w*", text))
    missing = [n for n in need if n not in toks]
    present = [n for n in forbid if n in toks]
    return dict(first_bound=need, later_aliases=forbid, missing=missing, present=present, ok=not missing and not present)


_ALL5 = ["python", "numpy", "cpp", "stablehlo", "xla_client"]
SYN = dict(alias_scaled_norm=(alias_scaled_norm, [(":float", ":float")], _ALL5),
           alias_two=(alias_two, [(":float", ":float")], _ALL5),
           alias_three=(alias_three, [(":float", ":float")], _ALL5),
           alias_of_argument=(alias_of_argument, [(":float", ":float")], _ALL5),
           alias_used_in_other_order=(alias_used_in_other_order, [(":float", ":float")], _ALL5),
           syn_nested=(syn_nested, [(":float", ":float")], ["python", "numpy", "cpp", "xla_client"]),
           syn_commutative=(syn_commutative, [(":float", ":float", ":float")], ["python", "stablehlo", "xla_client"]),
           syn_numbers=(syn_numbers, [(":float",)], ["xla_client"]))


# ---- the configuration of tools/generate_apmath_lax.py: target lax, paths=[apmath_algorithms], context parameter
# dtypes=[float64, float32, float16], arguments "<name>:ArrayLike", graph.rewrite(lax, fa.rewrite, fa.rewrite).
# It is the only shipped configuration that exercises Context.dtype_index / find_dtype_index / same_dtype_cache.

def _apx_chain(ctx, x, y, z):
    # same-dtype relation declared pairwise and NOT complete: x~y (two_prod), z~y (two_sum); the dtype index is
    # first created for x and later requested for z
    h, l = fa.apmath.two_prod(ctx, x, y, scale=True, fix_overflow=True)
    s, t = fa.apmath.two_sum(ctx, z, y, fix_overflow=True)
    return ctx(h + l + s + t)


def _apx_chain_rev(ctx, x, y, z):
    s, t = fa.apmath.two_sum(ctx, z, y, fix_overflow=True)
    h, l = fa.apmath.two_prod(ctx, x, y, scale=True, fix_overflow=True)
    return ctx(h + l + s + t)


def _apx_chain_deadend(ctx, x, y, z, w):
    # w~y first (no index needed), then x~y (index created for x), then z~y and the index is requested for z:
    # the search from z reaches y whose FIRST peer w is a dead end
    s1, t1 = fa.apmath.two_sum(ctx, w, y, fix_overflow=False)
    h, l = fa.apmath.two_prod(ctx, x, y, scale=True, fix_overflow=True)
    s, t = fa.apmath.two_sum(ctx, z, y, fix_overflow=True)
    return ctx(s1 + t1 + h + l + s + t)


def _apx_mul2(ctx, a, b, c, d):
    return fa.apmath.multiply(ctx, [a, b], [c, d], functional=True, size=2)


def _apx_join(ctx, x, y, z, w):
    # two classes {x,y} and {z,w}, each with its own cached dtype index, joined afterwards by y~w; the index then
    # requested for y can be reached through x or through w->z: the answer depended on set iteration order before 05234cd
    h1, l1 = fa.apmath.two_prod(ctx, x, y, scale=True, fix_overflow=True)
    h2, l2 = fa.apmath.two_prod(ctx, z, w, scale=True, fix_overflow=True)
    s, t = fa.apmath.two_sum(ctx, w, y, fix_overflow=True)
    h3, l3 = fa.apmath.two_prod(ctx, y, w, scale=True, fix_overflow=True)
    return ctx(h1 + l1 + h2 + l2 + s + t + h3 + l3)


def _dtype_two_indices(ctx, a, b, c, d, e):
    lst = ctx.list([a, b, c])
    r = ctx.item(lst, ctx.dtype_index(a)) + ctx.item(lst, ctx.dtype_index(b)) + ctx.item(lst, ctx.dtype_index(d))
    ctx._assume_same_dtype(a, c, b, d)
    ctx._assume_same_dtype(e, c)
    return r + ctx.item(lst, ctx.dtype_index(c)) + ctx.item(lst, ctx.dtype_index(e))


def _dtype_graph(decls_before, first, decls_after, asked):
    """User-level algorithm over explicit primitives: pairwise `_assume_same_dtype` declarations, the dtype index is
    created for `first` (between the two groups of declarations) and afterwards requested for every name in `asked`."""

    def f(ctx, a, b, c, d, e):
        env = dict(a=a, b=b, c=c, d=d, e=e)
        for u, v in decls_before:
            ctx._assume_same_dtype(env[u], env[v])
        lst = ctx.list([a, b, c])
        r = ctx.item(lst, ctx.dtype_index(env[first]))
        for u, v in decls_after:
            ctx._assume_same_dtype(env[u], env[v])
        for n in asked:
            r = r + ctx.item(lst, ctx.dtype_index(env[n]))
        return r

    return f


_A5 = tuple(f"{n}:ArrayLike" for n in "abcde")
_FMA = ("x:ArrayLike", "y:ArrayLike", "z:ArrayLike")
APX = {}


def _apx_table():
    if APX:
        return APX
    two = ("x:ArrayLike", "y:ArrayLike")
    APX.update(
        # the six functions shipped by tools/generate_apmath_lax.py
        two_sum_unsafe=(fa.apmath.two_sum, two, dict(fix_overflow=False, assume_fma=False)),
        two_sum_general=(fa.apmath.two_sum, two, dict(fix_overflow=True, assume_fma=False)),
        two_prod_unsafe=(fa.apmath.two_prod, two, dict(scale=False, fix_overflow=False, assume_fma=False)),
        two_prod_general=(fa.apmath.two_prod, two, dict(scale=True, fix_overflow=True, assume_fma=False)),
        fma_unsafe=(fa.apmath.fma, _FMA, dict(fix_overflow=False, assume_fma=False, algorithm="apmath", functional=True,
                                             scale=False, size=None, possibly_zero_z=False)),
        fma_general=(fa.apmath.fma, _FMA, dict(fix_overflow=True, assume_fma=False, algorithm="a7", functional=True,
                                               scale=True, size=None, possibly_zero_z=True)),
        # incomplete pairwise same-dtype relations
        chain=(_apx_chain, _FMA, {}),
        chain_rev=(_apx_chain_rev, _FMA, {}),
        chain_deadend=(_apx_chain_deadend, tuple(f"{n}:ArrayLike" for n in "xyzw"), {}),
        fma_apmath_general=(fa.apmath.fma, _FMA, dict(fix_overflow=True, assume_fma=False, algorithm="apmath", functional=True,
                                                      scale=True, size=None, possibly_zero_z=True)),
        mul2=(_apx_mul2, tuple(f"{n}:ArrayLike" for n in "abcd"), {}),
        # several cached indices inside one class (hash-seed sensitive before 05234cd; no structural clause)
        join=(_apx_join, tuple(f"{n}:ArrayLike" for n in "xyzw"), {}),
        g_two_indices=(_dtype_two_indices, _A5, {}),
        # explicit declaration graphs (all five arguments end up in ONE same-dtype class)
        g_path=(_dtype_graph([("a", "b"), ("b", "c"), ("c", "d"), ("d", "e")], "a", [], "edcb"), _A5, {}),
        g_path_late=(_dtype_graph([("c", "d"), ("d", "e")], "a", [("b", "c"), ("a", "b")], "ecdb"), _A5, {}),
        g_deadend=(_dtype_graph([("b", "e"), ("b", "d"), ("b", "c"), ("a", "b")], "a", [], "cde"), _A5, {}),
        g_star_last=(_dtype_graph([("c", "b"), ("c", "d"), ("c", "e")], "a", [("c", "a")], "bde"), _A5, {}),
        g_two_hops=(_dtype_graph([("d", "e"), ("d", "c"), ("c", "b")], "a", [("c", "a")], "edb"), _A5, {}),
    )
    return APX


def is_apx(fname):
    return fname.startswith("apx:")


def resolve(tn, fname, i):
    """target, function, positional trace arguments, keyword trace arguments."""
    target = getattr(fa.targets, tn)
    if is_apx(fname):
        func, args, kw = _apx_table()[fname[4:]]
        return target, func, args, dict(kw, override_name=fname[4:])
    if fname in SYN:
        return target, SYN[fname][0], SYN[fname][1][i], {}
    return target, getattr(fa.algorithms, fname), target.trace_arguments[fname][i], {}


def all_requests():
    out = []
    for tn in TARGETS:
        target = getattr(fa.targets, tn)
        for fname in target.trace_arguments:
            for i, _sig in enumerate(target.trace_arguments[fname]):
                out.append([tn, fname, i])
    for fname, (_f, sigs, tns) in SYN.items():
        for tn in tns:
            for i in range(len(sigs)):
                out.append([tn, fname, i])
    for name in _apx_table():
        out.append(["lax", "apx:" + name, 0])
    return out


def new_context(tn):
    if tn == "lax":
        import numpy

        return fa.Context(paths=[fa.apmath_algorithms], parameters=dict(dtypes=[numpy.float64, numpy.float32, numpy.float16]))
    kw = dict(enable_alt=True, default_constant_type="FloatType") if tn == "xla_client" else {}
    return fa.Context(paths=[fa.algorithms], **kw)


def trace_only(ctx, tn, fname, i):
    _target, func, sig, kw = resolve(tn, fname, i)
    return ctx.trace(func, *sig, **kw)


def rewrite_only(g, tn):
    target = getattr(fa.targets, tn)
    if tn == "lax":
        return g.rewrite(target, fa.rewrite, fa.rewrite)
    return g.rewrite(target, fa.rewrite)


def trace_rewrite(ctx, tn, fname, i):
    return rewrite_only(trace_only(ctx, tn, fname, i), tn)


_LAST = {}


def dtype_struct(ctx, graph, text):
    """Structural clause (no luck with hash seeds needed): within one class of arguments that were (transitively)
    declared same-dtype, the text takes `_np_dtypes.index(<arg>.dtype.type)` of at most ONE argument, provided at most
    one index existed before the class was complete (true for every request of this harness)."""
    cache = ctx.parameters.get("same_dtype_cache") or {}
    args = [a for a in graph.operands[1:-1] if a.kind == "symbol"]
    names = {a.key: a.operands[0] for a in args}
    seen, classes = set(), []
    for a in args:
        if a.key in seen:
            continue
        comp, todo = [], [a.key]
        while todo:
            k = todo.pop()
            if k in seen:
                continue
            seen.add(k)
            if k in names:
                comp.append(names[k])
            todo.extend(cache.get(k, ()))
        classes.append(sorted(comp))
    used = sorted(set(re.findall(r"_np_dtypes\.index\((\w+)\.dtype\.type\)", text)))
    bad = [c for c in classes if len([u for u in used if u in c]) > 1]
    return dict(classes=classes, index_args=used, ok=not bad, declared={names.get(k, "?"): [names.get(j, "?") for j in v] for k, v in cache.items() if k in names})


def text_of(thunk):
    """Text or a canonical exception marker; stdout noise of the library is swallowed."""
    buf = io.StringIO()
    try:
        with contextlib.redirect_stdout(buf):
            return thunk()
    except NotImplementedError as e:
        return "EXC:NotImplementedError:" + str(e)
    except Exception as e:  # any other exception is part of the observable behaviour
        return f"EXC:{type(e).__name__}:{e}"


def generate(req):
    tn, fname, i = req
    target = getattr(fa.targets, tn)

    def thunk():
        ctx = new_context(tn)
        g = trace_rewrite(ctx, tn, fname, i)
        t = g.tostring(target)
        _LAST.clear()
        _LAST.update(ctx=ctx, graph=g, text=t)
        return t

    _LAST.clear()
    return text_of(thunk)


def sha(s):
    return hashlib.sha256(s.encode()).hexdigest()


def dirty_process(k):
    """Leave process-global state in a different condition: anonymous symbols (the `_tmp` counter),
    warn-once cache, extra contexts with calls (stack-call counters), extra Type objects."""
    for j in range(k):
        c = fa.Context(default_constant_type="float32" if j % 2 else "float64")
        _ = c.default_like
        x = c.symbol("x", "float")
        c.call(lambda ctx, a: ctx.add(a, a), (x,))
        fa.utils.warn_once(f"c09 dirty {j}")


def mode_sha(doc):
    dirty_process(int(doc.get("dirty", 0)))
    want_text = bool(doc.get("texts"))
    results = []
    for step in doc["plan"]:
        kind, req = step["kind"], step["req"]
        tn, fname, i = req
        target = getattr(fa.targets, tn)
        texts = []
        struct = None
        if kind == "plain":
            texts.append(generate(req))
            if tn == "lax" and _LAST and fname[4:] not in ("join", "g_two_indices"):
                struct = dtype_struct(_LAST["ctx"], _LAST["graph"], _LAST["text"])
        elif kind == "fresh-twice":
            texts.append(generate(req))
            texts.append(generate(req))
        elif kind == "retrace":
            # the same function traced twice in a row in ONE fresh context
            def thunk():
                ctx = new_context(tn)
                t1 = trace_rewrite(ctx, tn, fname, i).tostring(target)
                t2 = trace_rewrite(ctx, tn, fname, i).tostring(target)
                return [t1, t2]

            r = text_of(thunk)
            texts.extend(r if isinstance(r, list) else [r, r])
        elif kind == "interleave":
            # other contexts / targets / functions are used between the phases of this request
            others = list(step.get("others", []))

            def thunk():
                ctx = new_context(tn)
                if others:
                    generate(others[0])
                g = trace_only(ctx, tn, fname, i)
                if len(others) > 1:
                    generate(others[1])
                g = rewrite_only(g, tn)
                if len(others) > 2:
                    # another context is traced and printed between rewrite and printing
                    generate(others[2])
                return g.tostring(target)

            texts.append(text_of(thunk))
        else:
            raise ValueError(kind)
        res = dict(req=req, kind=kind, sha=[sha(t) for t in texts], tmpfree=all("_tmp" not in t for t in texts))
        if struct is not None:
            res["dtype_struct"] = struct
        if fname in ALIAS_EXPECT and texts and not texts[0].startswith("EXC:"):
            res["alias_struct"] = alias_struct(fname, texts[0])
        if want_text:
            res["text"] = texts
        results.append(res)
    return dict(results=results, hashseed=os.environ.get("PYTHONHASHSEED"), tmp=tmp_counter())


# ----------------------------------------------------------------------------- correspondence on histories

KIND_ARITY = dict(add=2, subtract=2, multiply=2, divide=2, negative=1, absolute=1, sqrt=1, square=1, maximum=2,
                  select=3, lt=2, logical_and=2, hypot=2, log1p=1, complex=2, real=1, imag=1)
_bump = [0]


def parse_origin(s):
    if s == "":
        return "-", 0
    m = re.match(r"^_(.+)_(\d+)_$", s)
    if not m:
        return "?" + s, 0
    return m.group(1), int(m.group(2))


def run_history(h):
    lines, obs = [], []
    for _ in range(int(h.get("pre_tmp", 0))):
        _ = fa.Context(default_constant_type="float").default_like
    dct = h.get("dct")
    ctx = fa.Context(default_constant_type=dct) if dct else fa.Context()
    lines.append(f"fresh {tmp_counter()} {h.get('perm', 'id')}")
    obs.append("ok")
    objs = []
    index = {}

    def reg(e):
        k = id(e)
        if k not in index:
            index[k] = len(objs)
            objs.append(e)
        return index[k]

    def pick(raw):
        return None if not objs else raw % len(objs)

    def exec_ops(ops):
        for op in ops:
            k = op[0]
            if k == "symbol":
                e = ctx.symbol(op[1], op[2])
                lines.append(f"symbol {op[1]} {str(e.operands[1]).replace(' ', '')}")
                obs.append(f"id {reg(e)}")
            elif k == "defaultlike":
                e = ctx.default_like
                if e is None:
                    continue
                lines.append(f"defaultlike {str(e.operands[1]).replace(' ', '')}")
                obs.append(f"id {reg(e)}")
            elif k == "const":
                i = pick(op[2])
                if i is None:
                    continue
                v = op[1]
                if isinstance(v, dict):
                    v = float.fromhex(v["f"]) if "f" in v else complex(float.fromhex(v["re"]), float.fromhex(v["im"]))
                e = ctx.constant(v, objs[i])
                like = index.get(id(e.operands[1]))
                if like is None:
                    like = reg(e.operands[1])
                ident = fa_expr.toidentifier(v)
                # the value component of the registration key (whatever the repo puts there: value, type name,
                # str(value) ...) is an INPUT of the model: identity of constants is C07's subject, not C09's
                keytok = re.sub(r"\s+", "", repr(e.key[1]))
                lines.append(f"const {ident} {keytok} {like}")
                obs.append(f"id {reg(e)}")
            elif k == "node":
                kind = op[1]
                ids = [pick(r) for r in op[2][: KIND_ARITY[kind]]]
                if None in ids or len(ids) < KIND_ARITY[kind]:
                    continue
                e = fa.Expr(ctx, kind, tuple(objs[i] for i in ids))
                lines.append("node " + kind + " " + " ".join(map(str, ids)))
                obs.append(f"id {reg(e)}")
            elif k == "bump":
                for _ in range(op[1]):
                    _bump[0] += 1
                    ctx.symbol(f"zzbump{_bump[0]}", "float")
                lines.append(f"bump {op[1]}")
                obs.append("ok")
            elif k == "name":
                i = pick(op[1])
                if i is None:
                    continue
                objs[i].reference(ref_name=op[2])
                lines.append(f"name {i} {op[2]}")
                obs.append("ok")
            elif k == "autoblock":
                pairs = []
                for raw, nm in op[1]:
                    i = pick(raw)
                    if i is not None and nm not in [p[1] for p in pairs]:
                        pairs.append((i, nm))
                if not pairs:
                    continue
                src = "def _f(ctx, _o):\n" + "".join(f"    {nm} = _o[{j}]\n" for j, (_, nm) in enumerate(pairs)) + "    return ctx(_o[0])\n"
                d = {}
                exec(src, d)
                d["_f"](ctx, [objs[i] for i, _ in pairs])
                for i, nm in pairs:
                    lines.append(f"autoname {i} {nm}")
                    obs.append("ok")
            elif k == "call":
                def body(ctx_, _ops=op[2]):
                    lines.append(f"call {op[1]}")
                    obs.append("ok")
                    lines.append("stack")
                    obs.append(f"stack {ctx._stack_name}")
                    exec_ops(_ops)

                body.__name__ = op[1]
                try:
                    ctx.call(body, ())
                finally:
                    lines.append("ret")
                    obs.append("ok")
            elif k == "ref":
                i = pick(op[1])
                if i is None:
                    continue
                lines.append(f"ref {i}")
                try:
                    r = objs[i].ref
                    obs.append(f"name {r}" if isinstance(r, str) else f"name <{type(r).__name__}>")
                except Exception as e:
                    obs.append(f"exc {type(e).__name__}")
            else:
                raise ValueError(k)

    exec_ops(h["ops"])
    lines.append("tmp")
    obs.append(f"tmp {tmp_counter()}")
    lines.append("stack")
    obs.append(f"stack {ctx._stack_name}")
    return dict(lines=lines, obs=obs)


def mode_corr(doc):
    return dict(results=[run_history(h) for h in doc["histories"]], hashseed=os.environ.get("PYTHONHASHSEED"))


# ----------------------------------------------------------------------------- pipeline snapshots

def dump_context(ctx, alt_idents):
    """`load` lines for every expression of the context, in intkey order."""
    exprs = sorted(ctx._expressions.values(), key=lambda e: e.intkey)
    lines = []
    for pos, e in enumerate(exprs):
        assert e.intkey == pos, (e.intkey, pos)
        oF, oK = parse_origin(e.props.get("origin", ""))
        rn = e.props.get("reference_name")
        rn = rn if isinstance(rn, str) else "-"
        ops = []
        if e.kind == "symbol":
            name, typ = e.operands
            typ = str(typ).replace(" ", "") or "-"
            if e is ctx._default_like and re.fullmatch(r"_tmp\d+", name):
                shape, p1, p2 = "anon", name[4:], typ
            else:
                shape, p1, p2 = "sym", name, typ
        elif e.kind == "constant":
            value, like = e.operands
            if isinstance(value, fa.Expr):
                p1 = alt_idents.get(id(value), "?")
            else:
                try:
                    p1 = fa_expr.toidentifier(value)
                except Exception:
                    p1 = "?"
            shape, p2 = "const", type(value).__name__
            ops = [like.intkey]
        else:
            shape, p1, p2 = "node", "-", "-"
            ops = [o.intkey for o in e.operands if isinstance(o, fa.Expr)]
        lines.append(" ".join(["load", e.kind, shape, p1 or "-", p2 or "-", str(e.intkey), oF, str(oK), rn] + [str(o) for o in ops]))
    return lines


def mode_snapshot(doc):
    out = []
    orig = fa_expr.make_ref
    for req in doc["requests"]:
        tn, fname, i = req
        target = getattr(fa.targets, tn)
        try:
            with contextlib.redirect_stdout(io.StringIO()):
                ctx = new_context(tn)
                graph = trace_rewrite(ctx, tn, fname, i)
        except Exception as e:
            out.append(dict(req=req, skipped=f"{type(e).__name__}"))
            continue
        pre_refs = sum(1 for e in ctx._expressions.values() if isinstance(e.props.get("ref"), str))
        stack, log, alt_idents = [], [], {}

        def wrapper(e):
            top = not stack or stack[-1].context is not e.context
            stack.append(e)
            try:
                r = orig(e)
            finally:
                stack.pop()
            if e.context is not ctx:
                alt_idents[id(e)] = r if isinstance(r, str) else "?"
            if top:
                log.append((e.context is ctx, e.intkey, r if isinstance(r, str) else f"<{type(r).__name__}>"))
            return r

        tmp0 = tmp_counter()
        fa_expr.make_ref = wrapper
        try:
            text = text_of(lambda: graph.tostring(target))
        finally:
            fa_expr.make_ref = orig
        sessions = []
        for c, is_main in [(ctx, True)] + ([(ctx._alt, False)] if ctx._alt is not None else []):
            lines = [f"fresh {tmp0} id"] + dump_context(c, alt_idents)
            obs = ["ok"] + [f"id {k}" for k in range(len(lines) - 1)]
            intext = {}
            for main, ik, name in log:
                if main == is_main:
                    # `safe` is asked BEFORE the call (the guard of the theorem is evaluated in the pre-state)
                    lines.append(f"safe {ik}")
                    obs.append("safe ?")
                    intext[str(len(lines) - 1)] = name in text
                    lines.append(f"ref {ik}")
                    obs.append(f"name {name}")
            sessions.append(dict(lines=lines, obs=obs, intext=intext))
        out.append(dict(req=req, sessions=sessions, pre_refs=pre_refs, nexprs=len(ctx._expressions), ncalls=len(log),
                        tmpfree="_tmp" not in text, sha=sha(text)))
    return dict(results=out)


# ----------------------------------------------------------------------------- negation witness on the real code

def mode_witness(doc):
    """[defaultLike, ref 0] under two ambients: the name of the anonymous symbol leaks the process-global counter."""
    names = []
    for burn in doc.get("burn", [0, 3]):
        for _ in range(burn):
            _ = fa.Context(default_constant_type="float").default_like
        c = fa.Context(default_constant_type="float")
        t = tmp_counter()
        names.append(dict(tmp=t, name=c.default_like.ref))
    return dict(names=names)


def mode_probe_dtype_index(doc):
    """A user-level algorithm that asks for `Context.dtype_index` of an argument after `_assume_same_dtype`
    joined it with two arguments whose dtype indices are already cached: `find_dtype_index` returns whichever
    cached index it meets first while ITERATING A SET of expression keys (context.py)."""
    from functional_algorithms import floating_point_algorithms as fpa

    def f(ctx, x: float, y: float, z: float):
        ctx.dtype_index(x)
        ctx.dtype_index(y)
        ctx._assume_same_dtype(x, y, z)
        c = ctx.dtype_index(z)
        return ctx.item(ctx.list([x, y]), c)

    def thunk():
        ctx = fa.Context(paths=[fpa])
        g = ctx.trace(f, ":float32", ":float32", ":float32").rewrite(fa.targets.lax, fa.rewrite)
        return g.tostring(fa.targets.lax)

    t = text_of(thunk)
    return dict(text=t, sha=sha(t), hashseed=os.environ.get("PYTHONHASHSEED"))


def main():
    doc = json.load(sys.stdin)
    mode = doc["mode"]
    if mode == "sha":
        res = mode_sha(doc)
    elif mode == "corr":
        res = mode_corr(doc)
    elif mode == "snapshot":
        res = mode_snapshot(doc)
    elif mode == "witness":
        res = mode_witness(doc)
    elif mode == "probe_dtype_index":
        res = mode_probe_dtype_index(doc)
    elif mode == "requests":
        res = dict(requests=all_requests())
    else:
        raise ValueError(mode)
    json.dump(res, sys.stdout)


if __name__ == "__main__":
    main()
