"""C13 worker: runs the REAL conversion helpers of functional_algorithms.utils.

Two services, both driven by JSON on stdin (or imported in-process by fav/props/c13.py):

  * `real_line(line)`   — executes one line of the Drivers/Conv.lean protocol on the real code and
                          returns the canonical answer string (same format as the driver);
  * `check_*`           — the property's clauses evaluated on the real code against independent
                          references (struct/int view of the bits, fractions.Fraction of the Python
                          float, exact integer arithmetic on mpf man/exp).

Floats travel as bit patterns (decimal integers), rationals as `n/d`, mpf values as their raw
tuple `sign man exp bc`, exceptions as `err <TypeName>`.
"""

import fractions
import json
import signal
import sys
import warnings

import numpy
import mpmath

warnings.simplefilter("ignore")

from functional_algorithms import utils as U  # noqa: E402

Fraction = fractions.Fraction
DT = {"16": numpy.float16, "32": numpy.float32, "64": numpy.float64}
UT = {"16": numpy.uint16, "32": numpy.uint32, "64": numpy.uint64}
P = {"16": 11, "32": 24, "64": 53}
EW = {"16": 5, "32": 8, "64": 11}
ERRS = ("ValueError", "AssertionError", "OverflowError", "IndexError", "ZeroDivisionError", "TypeError", "NonTermination")

_ctx_cache = {}


def ctx_of(prec):
    c = _ctx_cache.get(prec)
    if c is None:
        c = mpmath.mp.clone()
        c.prec = prec
        _ctx_cache[prec] = c
    return c


def mk(F, b):
    return UT[F](b).view(DT[F])


def pat(x):
    return int(x.view({numpy.float16: numpy.uint16, numpy.float32: numpy.uint32, numpy.float64: numpy.uint64}[type(x)]))


def err(e):
    n = type(e).__name__
    return "err " + (n if n in ERRS else "other:" + n)


class NonTermination(Exception):
    pass


def _alarm(signum, frame):
    raise NonTermination()


_guard_hits = [0]


def guarded(fn, seconds=2):
    """Run fn() under a CPU-time guard (ITIMER_VIRTUAL: user CPU seconds of this process, so a loaded
    machine cannot trip it).  Every legitimate call needs milliseconds of CPU; exceeding the budget is
    reported as NonTermination and is ALWAYS a failure of the code under test (before /repo commit
    81efdaa mpf2expansion looped forever on NaN).  After a few hits the budget is shortened so that a
    change making many inputs diverge cannot blow the time budget of the check."""
    if _guard_hits[0] >= 3:
        seconds = 0.3
    old = signal.signal(signal.SIGVTALRM, _alarm)
    signal.setitimer(signal.ITIMER_VIRTUAL, seconds)
    try:
        return fn()
    except NonTermination:
        _guard_hits[0] += 1
        raise
    finally:
        signal.setitimer(signal.ITIMER_VIRTUAL, 0)
        signal.signal(signal.SIGVTALRM, old)


def show_q(q):
    return f"{q.numerator}/{q.denominator}"


def show_mpf(m):
    s, man, e, bc = m._mpf_
    return f"{int(s)} {int(man)} {int(e)} {int(bc)}"


def mpf_from(ctx, s, man, e, bc):
    return ctx.make_mpf((int(s), mpmath.libmp.MPZ(int(man)), int(e), int(bc)))


def opt(s):
    return None if s == "N" else int(s)


# ---------------------------------------------------------------- independent references


def ref_fields(F, b):
    p, ew = P[F], EW[F]
    sign = b >> (ew + p - 1)
    e = (b >> (p - 1)) & ((1 << ew) - 1)
    m = b & ((1 << (p - 1)) - 1)
    return sign, e, m


def ref_kind(F, b):
    sign, e, m = ref_fields(F, b)
    if e == (1 << EW[F]) - 1:
        return "nan" if m else "inf"
    return "zero" if (e == 0 and m == 0) else ("sub" if e == 0 else "normal")


def ref_value(F, b):
    """Exact value of a finite pattern through Python's own float → Fraction conversion
    (numpy's widening to float64 is exact; Fraction(float) uses float.as_integer_ratio)."""
    return Fraction(float(mk(F, b)))


def ref_bin_value(s):
    """Value denoted by a float2bin string, parsed independently: [-]1[.bits]p[+-]ddd or 0."""
    if s == "0":
        return Fraction(0)
    if s in ("inf", "-inf", "nan"):
        return None
    neg = s[0] == "-"
    if neg:
        s = s[1:]
    mant, ex = s.split("p")
    ex = int(ex)
    assert mant[0] == "1" and (len(mant) == 1 or mant[1] == "."), mant
    v = Fraction(1)
    for k, c in enumerate(mant[2:], 1):
        assert c in "01"
        if c == "1":
            v += Fraction(1, 2**k)
    v *= Fraction(2) ** ex
    return -v if neg else v


def mpf_value(m):
    s, man, e, bc = m._mpf_
    if not man and e:
        return None
    v = Fraction(int(man)) * Fraction(2) ** int(e)
    return -v if s else v


# ---------------------------------------------------------------- protocol on the real code


def real_all(F, prec, b):
    dt = DT[F]
    x = mk(F, b)
    ctx = ctx_of(prec)
    out = []
    try:
        q = U.float2fraction(x)
        out.append(show_q(q))
        try:
            out.append(str(pat(U.fraction2float(dt, q))))
        except Exception as e:
            out.append(err(e))
    except Exception as e:
        out.append(err(e))
        out.append("skipped")
    try:
        s = U.float2bin(x)
        out.append(s)
        try:
            out.append("ok %d" % pat(U.bin2float(dt, s)))
        except Exception as e:
            out.append(err(e))
        try:
            v = ref_bin_value(s)
            out.append("none" if v is None else show_q(v))
        except Exception as e:
            out.append("unparsable")
    except Exception as e:
        out.extend([err(e), "skipped", "skipped"])
    try:
        m = U.float2mpf(ctx, x)
        out.append("ok " + show_mpf(m))
        try:
            out.append(str(pat(U.mpf2float(dt, m))))
        except Exception as e:
            out.append(err(e))
    except Exception as e:
        out.append(err(e))
        out.append(err(e))
    return "|".join(out)


def real_line(line):
    t = line.split(" ")
    op = t[0]
    try:
        if op == "all":
            return real_all(t[1], int(t[2]), int(t[3]))
        if op == "f2q":
            return show_q(U.float2fraction(mk(t[1], int(t[2]))))
        if op == "q2f":
            return str(pat(U.fraction2float(DT[t[1]], Fraction(int(t[2]), int(t[3])))))
        if op == "f2b":
            return U.float2bin(mk(t[1], int(t[2])))
        if op == "b2f":
            try:
                return "ok %d" % pat(U.bin2float(DT[t[1]], t[2]))
            except Exception as e:
                return err(e)
        if op == "bval":
            try:
                v = ref_bin_value(t[1])
            except Exception:
                return "none"
            return "none" if v is None else show_q(v)
        if op == "f2m":
            try:
                return "ok " + show_mpf(U.float2mpf(ctx_of(int(t[2])), mk(t[1], int(t[3]))))
            except Exception as e:
                return err(e)
        if op == "m2f":
            # the context precision is irrelevant for mpf2float with default arguments
            return str(pat(U.mpf2float(DT[t[1]], mpf_from(ctx_of(53), *t[2:6]))))
        if op == "m2e":
            ctx = ctx_of(int(t[2]))
            x = mpf_from(ctx, *t[3:7])
            try:
                lst = guarded(lambda: U.mpf2expansion(DT[t[1]], x, length=opt(t[7]), functional=bool(int(t[8]))))
            except NonTermination:
                return "err NonTermination"
            except Exception as e:
                return err(e)
            return ("ok " + " ".join(str(pat(w)) for w in lst)).rstrip()
        if op == "m2w":
            ctx = ctx_of(int(t[2]))
            x = mpf_from(ctx, *t[3:7])
            try:
                lst = guarded(lambda: U.mpf2multiword(DT[t[1]], x, p=opt(t[7]), max_length=opt(t[8])))
            except NonTermination:
                return "err NonTermination"
            except Exception as e:
                return err(e)
            return ("ok " + " ".join(str(pat(w)) for w in lst)).rstrip()
        if op in ("e2m", "w2m"):
            ctx = ctx_of(int(t[2]))
            ws = [mk(t[1], int(w)) for w in t[3:]]
            try:
                r = U.expansion2mpf(ctx, ws) if op == "e2m" else U.multiword2mpf(ctx, ws)
            except Exception as e:
                return err(e)
            return "ok " + show_mpf(r)
    except Exception as e:  # an exception outside the modelled places
        return "crash " + err(e)
    return "bad-op"


# ---------------------------------------------------------------- property clauses (search)

_SLOW = {"n": 0}


def guarded(fn, secs=3):
    """run fn() under a CPU-time watchdog; after three expiries the guarded clauses are skipped for the rest of the run (a change that
    makes a conversion loop for ever must show as a failure, not as a check that takes hours)"""
    if _SLOW["n"] >= 3:
        raise RuntimeError("skipped: three earlier calls did not return within the watchdog")

    def _boom(*_a):
        raise TimeoutError(f"does not return ({secs} s CPU)")

    old_h = signal.signal(signal.SIGPROF, _boom)
    signal.setitimer(signal.ITIMER_PROF, secs)
    try:
        return fn()
    except TimeoutError:
        _SLOW["n"] += 1
        raise
    finally:
        signal.setitimer(signal.ITIMER_PROF, 0)
        signal.signal(signal.SIGPROF, old_h)



def check_float(F, b, prec):
    """Clauses of C13 for one float pattern on the real code.  Returns a list of failures
    dict(clause, signature, detail)."""
    dt = DT[F]
    x = mk(F, b)
    kind = ref_kind(F, b)
    fails = []
    negzero = kind == "zero" and b != 0

    def fail(clause, sig, **kw):
        fails.append(dict(clause=clause, signature=sig, F=F, b=b, kind=kind, **kw))

    # --- fraction
    try:
        q = U.float2fraction(x)
        if kind in ("zero", "sub", "normal"):
            want = ref_value(F, b)
            if q != want:
                fail("fraction-value", f"float2fraction:value:{kind}", got=show_q(q), want=show_q(want))
        if kind != "nan":
            back = pat(U.fraction2float(dt, q))
            want_b = 0 if kind == "zero" else b  # a Fraction cannot carry the sign of zero
            if back != want_b:
                fail("fraction-roundtrip", f"fraction2float(float2fraction):{kind}", got=back, want=want_b)
    except Exception as e:
        fail("fraction-exception", f"float2fraction:{kind}:{type(e).__name__}", exc=repr(e)[:200])
    # --- bin
    try:
        s = U.float2bin(x)
        if kind in ("zero", "sub", "normal"):
            v = ref_bin_value(s)
            if v != ref_value(F, b):
                fail("bin-value", f"float2bin:value:{kind}", got=s)
        back = U.bin2float(dt, s)
        if kind == "nan":
            if not numpy.isnan(back):
                fail("bin-roundtrip", "bin:nan-not-preserved", got=pat(back), s=s)
        elif pat(back) != b:
            if negzero and pat(back) == 0:
                fail("bin-roundtrip", "float2bin:negative-zero-sign-lost", got=pat(back), s=s)
            else:
                fail("bin-roundtrip", f"bin2float(float2bin):{kind}", got=pat(back), s=s)
    except Exception as e:
        fail("bin-exception", f"bin:{kind}:{type(e).__name__}", exc=repr(e)[:200])
    # --- expansion built from the exact fraction (docstring of fraction2expansion: "If the length of output is smaller than the
    # specified length then the conversion is exact"): the float itself, and the float plus a second float far below its last bit
    if kind in ("zero", "sub", "normal"):
        try:
            want = ref_value(F, b)
            y = Fraction(0)
            if kind == "normal":
                e2 = max(emin_of(F), (b >> (P[F] - 1) & ((1 << EW[F]) - 1)) - (2 ** (EW[F] - 1) - 1) - 2 * P[F] - 1)
                y = Fraction(3 + (b & 4), 1) * Fraction(2) ** e2 * (-1 if b & 2 else 1)
            for q2, tag in ((want, "float"), (want + y, "float+tail")):
                for L, fn in ((1, False), (2, False), (3, True), (None, False)):
                    if L is None:
                        ws = guarded(lambda: U.fraction2expansion(dt, Fraction(q2), length=None))
                    else:
                        ws = guarded(lambda: U.fraction2expansion(dt, Fraction(q2), length=L, functional=fn))
                    v = words_value(F, ws)
                    exact_due = (L is None or len(ws) < L or (tag == "float" and L >= 1))
                    if exact_due and v != q2:
                        fail("expansion-from-fraction", f"fraction2expansion:value:{tag}:{kind}", length=L, functional=fn,
                             got=[pat(w) for w in ws], want=show_q(q2))
                    if fn and L is not None and len(ws) != L:
                        fail("expansion-from-fraction", f"fraction2expansion:functional-length:{kind}", length=L, got=len(ws))
        except Exception as e:
            fail("expansion-from-fraction-exception", f"fraction2expansion:{kind}:{type(e).__name__}", exc=repr(e)[:200])
    # --- float2expansion: a wider float (float64) as an expansion of this format: exact while nothing underflows (length=None)
    if kind == "normal" and F in ("16", "32"):
        want = ref_value(F, b)
        e2 = (b >> (P[F] - 1) & ((1 << EW[F]) - 1)) - (2 ** (EW[F] - 1) - 1)
        tail = Fraction(5 + (b & 2), 1) * Fraction(2) ** (e2 - P[F] - 4) if e2 - 2 * P[F] - 8 > emin_of(F) + P[F] else Fraction(0)
        q64 = numpy.float64(float(want + tail))
        if Fraction(float(q64)) == want + tail:
            try:
                ws = guarded(lambda: U.float2expansion(dt, q64))
                v = words_value(F, ws)
                if v != want + tail:
                    fail("expansion-from-float", f"float2expansion:value:{kind}", got=[pat(w) for w in ws], want=show_q(want + tail))
            except Exception as e:
                fail("expansion-from-float-exception", f"float2expansion:{kind}:{type(e).__name__}", exc=repr(e)[:200])
    # --- mpf
    if prec >= P[F]:
        try:
            ctx = ctx_of(prec)
            m = U.float2mpf(ctx, x)
            if kind in ("zero", "sub", "normal"):
                if mpf_value(m) != ref_value(F, b):
                    fail("mpf-value", f"float2mpf:value:{kind}", got=show_mpf(m))
            elif kind == "inf":
                if not (ctx.isinf(m) and (m > 0) == (b >> (P[F] + EW[F] - 1) == 0)):
                    fail("mpf-value", "float2mpf:inf", got=show_mpf(m))
            elif not ctx.isnan(m):
                fail("mpf-value", "float2mpf:nan", got=show_mpf(m))
            back = U.mpf2float(dt, m)
            if kind == "nan":
                if not numpy.isnan(back):
                    fail("mpf-roundtrip", "mpf:nan-not-preserved", got=pat(back))
            elif pat(back) != b:
                if negzero and pat(back) == 0:
                    fail("mpf-roundtrip", "float2mpf:negative-zero-sign-lost", got=pat(back))
                else:
                    fail("mpf-roundtrip", f"mpf2float(float2mpf):{kind}", got=pat(back))
        except Exception as e:
            fail("mpf-exception", f"mpf:{kind}:{type(e).__name__}", exc=repr(e)[:200])
    return fails


def words_value(F, ws):
    tot = Fraction(0)
    for w in ws:
        if ref_kind(F, pat(w)) in ("inf", "nan"):
            return None
        tot += Fraction(float(w))
    return tot


def has_zero_run(man, w):
    """a run of at least w consecutive zero bits strictly inside the mantissa"""
    if w <= 0:
        return False
    return ("0" * w) in bin(man)[2:]


def emin_of(F):
    return 1 - (2 ** (EW[F] - 1) - 1) - (P[F] - 1)


def check_mpf(F, prec, tup, p=None, max_length=None, length=None):
    """Clauses of C13 for one mpf value (raw tuple) on the real code: expansion and multiword."""
    dt = DT[F]
    ctx = ctx_of(prec)
    x = mpf_from(ctx, *tup)
    fails = []
    s, man, e, bc = [int(v) for v in tup]
    special = man == 0 and e != 0
    isnan = special and tuple(x._mpf_) == tuple(mpmath.libmp.fnan)
    val = mpf_value(x)

    def fail(clause, sig, **kw):
        fails.append(dict(clause=clause, signature=sig, F=F, prec=prec, tup=[s, man, e, bc], p=p, max_length=max_length,
                          length=length, **kw))

    # hypotheses of the exactness clauses
    emin = emin_of(F)
    maxexp = 2 ** (EW[F] - 1)
    in_grid = (not special) and (man == 0 or (e >= emin and e + bc <= maxexp))
    maxfinite = Fraction((1 << P[F]) - 1) * Fraction(2) ** (maxexp - P[F])
    in_grid_exp = in_grid and (man == 0 or abs(val) <= maxfinite)   # mpf2expansion rounds: the value itself must not overflow
    fits_prec = bc <= prec
    # ---------------- RSpec: what the expansion theorem assumes about the rounding step mpf2float
    if in_grid_exp and man:
        try:
            y = U.mpf2float(dt, x)
            if ref_kind(F, pat(y)) in ("inf", "nan"):
                fail("expansion-rspec", "mpf2float:RSpec:finite", got=pat(y))
            else:
                X = val / Fraction(2) ** emin
                Y = Fraction(float(y)) / Fraction(2) ** emin
                assert X.denominator == 1 and Y.denominator == 1
                X, Y = int(X), int(Y)
                tzc = lambda n: (abs(n) & -abs(n)).bit_length() - 1
                if Y == 0:
                    fail("expansion-rspec", "mpf2float:RSpec:nonzero", got=pat(y))
                elif not abs(X - Y) < abs(X):
                    fail("expansion-rspec", "mpf2float:RSpec:contraction", got=pat(y))
                elif tzc(Y) < tzc(X):
                    fail("expansion-rspec", "mpf2float:RSpec:grid", got=pat(y))
        except Exception as exn:
            fail("expansion-rspec", f"mpf2float:RSpec:{type(exn).__name__}", exc=repr(exn)[:200])
    # ---------------- expansion
    try:
        ex = guarded(lambda: U.mpf2expansion(dt, x, length=length))
        if special:
            if isnan:
                # NaN maps to itself: the one-word expansion [nan], which expansion2mpf maps back to nan
                if not (len(ex) == 1 and numpy.isnan(ex[0])):
                    fail("expansion-nan", "mpf2expansion:nan-not-preserved", got=[pat(w) for w in ex])
                else:
                    back = U.expansion2mpf(ctx, ex)
                    if not ctx.isnan(back):
                        fail("expansion-nan-roundtrip", "expansion2mpf:nan", got=show_mpf(back))
            else:
                if not (len(ex) == 1 and numpy.isinf(ex[0]) and (ex[0] > 0) == (s == 0)):
                    fail("expansion-inf", "mpf2expansion:inf-not-preserved", got=[pat(w) for w in ex])
                else:
                    back = U.expansion2mpf(ctx, ex)
                    if tuple(back._mpf_) != tuple(x._mpf_):
                        fail("expansion-inf-roundtrip", "expansion2mpf:inf", got=show_mpf(back))
        elif in_grid_exp and fits_prec and length is None:
            tot = words_value(F, ex)
            if tot != val:
                fail("expansion-value", "mpf2expansion:sum!=value(in-range,bc<=prec)", got=[pat(w) for w in ex])
            else:
                back = U.expansion2mpf(ctx, ex)
                if tuple(back._mpf_) != tuple(x._mpf_):
                    fail("expansion-roundtrip", "expansion2mpf(mpf2expansion)", got=show_mpf(back))
        elif length is not None and not special:
            if len(ex) > length:
                fail("expansion-length", "mpf2expansion:len>length", got=[pat(w) for w in ex])
    except NonTermination:
        if isnan and length is None:  # the cause signature of the defect repaired by /repo 81efdaa
            fail("expansion-nan", "mpf2expansion:nan:nontermination(length=None)")
        else:
            fail("expansion-nontermination", "mpf2expansion:nontermination")
    except Exception as exn:
        fail("expansion-exception", f"mpf2expansion:{type(exn).__name__}", exc=repr(exn)[:200])
    # ---------------- multiword
    pp = P[F] if p is None else p
    try:
        mw = guarded(lambda: U.mpf2multiword(dt, x, p=p, max_length=max_length))
        if special:
            ok = len(mw) == 1 and ((isnan and numpy.isnan(mw[0])) or ((not isnan) and numpy.isinf(mw[0]) and (mw[0] > 0) == (s == 0)))
            if not ok:
                fail("multiword-nonfinite", "mpf2multiword:nonfinite->empty-list", got=[pat(w) for w in mw])
        else:
            if max_length is not None and len(mw) > max_length:
                fail("multiword-length", "mpf2multiword:len>max_length", got=[pat(w) for w in mw])
            if in_grid and fits_prec and max_length is None and 1 <= pp <= P[F]:
                tot = words_value(F, mw)
                zr = has_zero_run(man, min(bc, pp))
                if tot != val:
                    if zr:
                        fail("multiword-value", "mpf2multiword:zero-window(truncation-or-double-count)", got=[pat(w) for w in mw])
                    else:
                        fail("multiword-value", "mpf2multiword:sum!=value(in-range)", got=[pat(w) for w in mw])
                elif man:
                    back = U.multiword2mpf(ctx, mw)
                    if tuple(back._mpf_) != tuple(x._mpf_):
                        fail("multiword-roundtrip", "multiword2mpf(mpf2multiword)", got=show_mpf(back))
                # every word carries at most p bits and the words are ordered by decreasing magnitude
                mags = [abs(Fraction(float(w))) for w in mw]
                if not zr and any(mags[i] <= mags[i + 1] for i in range(len(mags) - 1)):
                    fail("multiword-order", "mpf2multiword:not-decreasing", got=[pat(w) for w in mw])
                for w in mw:
                    q = abs(Fraction(float(w)))
                    n = q.numerator
                    while n and n % 2 == 0:
                        n //= 2
                    if n.bit_length() > pp:
                        fail("multiword-width", "mpf2multiword:word-wider-than-p", got=[pat(w) for w in mw])
                        break
    except NonTermination:
        fail("multiword-nontermination", "mpf2multiword:nontermination")
    except AssertionError as exn:
        if max_length == 1 and not special and man != 0:
            fail("multiword-maxlength1", "mpf2multiword:max_length==1:AssertionError", exc=repr(exn)[:100])
        else:
            fail("multiword-exception", "mpf2multiword:AssertionError", exc=repr(exn)[:200])
    except Exception as exn:
        fail("multiword-exception", f"mpf2multiword:{type(exn).__name__}", exc=repr(exn)[:200])
    return fails


def finfo_facts():
    out = {}
    for F, dt in DT.items():
        fi = numpy.finfo(dt)
        out[F] = dict(nexp=int(fi.nexp), negep=int(fi.negep), minexp=int(fi.minexp), maxexp=int(fi.maxexp),
                      max=show_q(Fraction(float(fi.max))), subexp=int(U.vectorize_with_mpmath.float_subexp[dt.__name__]),
                      fmaxexp=int(U.vectorize_with_mpmath.float_maxexp[dt.__name__]), prec=int(U.get_precision(dt)),
                      nan=pat(dt(numpy.nan)))
    out["rounding"] = mpmath.mp._prec_rounding[1]
    out["backend"] = mpmath.libmp.BACKEND
    out["specials"] = [list(map(int, t)) for t in (mpmath.libmp.fzero, mpmath.libmp.finf, mpmath.libmp.fninf, mpmath.libmp.fnan)]
    return out


def main():
    job = json.load(sys.stdin)
    res = {}
    if "lines" in job:
        res["lines"] = [real_line(l) for l in job["lines"]]
    if "floats" in job:
        fl = []
        for F, b, prec in job["floats"]:
            fl.extend(check_float(F, b, prec))
        res["float_fails"] = fl
    if "mpfs" in job:
        mf = []
        for it in job["mpfs"]:
            mf.extend(check_mpf(it["F"], it["prec"], it["tup"], p=it.get("p"), max_length=it.get("max_length"), length=it.get("length")))
        res["mpf_fails"] = mf
    if job.get("facts"):
        res["facts"] = finfo_facts()
    json.dump(res, sys.stdout)


if __name__ == "__main__":
    main()
