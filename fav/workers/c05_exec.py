"""C05 search: execute the emitted source and compare it, bit for bit, with the independent
interpreter (c05_interp) on the special-value lattice plus random inputs.

python / numpy : exec(<target header> + emitted text) in a fresh namespace
cpp            : all emitted functions of this worker + harness wrappers are compiled with
                 `g++ -O0 -ffp-contract=off -frounding-math -shared -fPIC` (-frounding-math: libm calls on
                 constants are evaluated by glibc at run time, not folded by the compiler) into one shared
                 object per batch under
                 <workdir>, loaded through ctypes; a compile error is traced back to the emitted
                 function(s) by line number and the rest is recompiled.
Counterfactual variants (used only to *attribute* a failure to a cause, never to excuse it):
  typed-constants : the same real printer with `make_constant` patched to cast the literal to the
                    type of `like` (cpp: `((float)(0.1))`, python: `float(1)`)
"""

import contextlib
import ctypes
import io
import math
import os
import random
import re
import subprocess
import sys
import warnings

import numpy

from . import c05_interp as interp

with contextlib.redirect_stdout(io.StringIO()):
    import functional_algorithms as fa
    from functional_algorithms import targets

_cpp_jobs = []


# ----------------------------------------------------------------------------- inputs

def float_lattice(dt):
    fi = numpy.finfo(dt)
    vals = [0.0, -0.0, float(fi.smallest_subnormal), -float(fi.smallest_subnormal), float(fi.smallest_normal), 1.0, -1.0,
            float(fi.max), -float(fi.max), math.inf, -math.inf, math.nan]
    return vals


def random_float(rng, dt):
    r = rng.random()
    if r < 0.35:
        return rng.gauss(0, 1) * rng.choice([1e-3, 1, 1, 10, 1e3])
    if r < 0.5:
        return float(rng.randint(-20, 20))
    if r < 0.6:
        return rng.choice([0.5, 1.5, 2.5, -0.5, 0.1, 0.3, 1e-8, 1e8])
    # random bit pattern of the declared type
    n = numpy.dtype(dt).itemsize * 8
    u = {16: numpy.uint16, 32: numpy.uint32, 64: numpy.uint64}[n]
    with numpy.errstate(all="ignore"):
        return float(numpy.array([rng.getrandbits(n)], dtype=u).view(dt)[0])


def arg_domain(tstr):
    """(kind, dtype) of an argument type string"""
    if tstr.startswith("float"):
        return "f", {"float16": numpy.float16, "float32": numpy.float32}.get(tstr, numpy.float64)
    if tstr.startswith("complex"):
        return "c", numpy.float32 if tstr == "complex64" else numpy.float64
    if tstr.startswith("int"):
        return "i", numpy.int32 if tstr.endswith("32") else numpy.int64
    if tstr.startswith("bool"):
        return "b", numpy.bool_
    raise interp.Unsupported(f"argument type {tstr}")


def make_inputs(rng, argtypes, n):
    doms = [arg_domain(t) for t in argtypes]
    out = []

    def one(dom, special):
        k, dt = dom
        if k == "f":
            return rng.choice(float_lattice(dt)) if special else random_float(rng, dt)
        if k == "c":
            if special:
                return complex(rng.choice(float_lattice(dt)), rng.choice(float_lattice(dt)))
            return complex(random_float(rng, dt), random_float(rng, dt))
        if k == "i":
            return rng.choice([0, 1, -1, 2, 7, -3, 100]) if special else rng.randint(-50, 50)
        return rng.random() < 0.5

    if len(doms) == 1 and doms[0][0] == "f":
        for v in float_lattice(doms[0][1]):
            out.append([v])
    nspecial = max(0, (2 * n) // 3 - len(out))
    for _ in range(nspecial):
        out.append([one(d, True) if rng.random() < 0.8 else one(d, False) for d in doms])
    while len(out) < n:
        out.append([one(d, False) for d in doms])
    return out


def present(rng, tname, argtypes, tup):
    """How the values are handed to the emitted function."""
    vals = []
    for t, v in zip(argtypes, tup):
        k, dt = arg_domain(t)
        if tname == "python":
            vals.append(v)
        elif tname == "numpy":
            with numpy.errstate(all="ignore"):
                if k == "f":
                    # the emitted code must cast: sometimes hand over a Python float / a wider scalar
                    r = rng.random()
                    vals.append(dt(v) if r < 0.6 else (float(v) if r < 0.8 else numpy.float64(v)))
                elif k == "c":
                    cdt = numpy.complex64 if dt is numpy.float32 else numpy.complex128
                    vals.append(cdt(v) if rng.random() < 0.7 else complex(v))
                elif k == "i":
                    vals.append(dt(v) if rng.random() < 0.7 else int(v))
                else:
                    vals.append(numpy.bool_(v))
        else:
            vals.append(v)
    return vals


# ----------------------------------------------------------------------------- counterfactual printers

@contextlib.contextmanager
def typed_constants(tname):
    target = getattr(targets, tname)
    P = target.Printer
    orig = P.make_constant

    def make_constant(self, like, value):
        s = orig(self, like, value)
        try:
            typ = self.get_type(like)
        except Exception:  # noqa: BLE001
            return s
        if tname == "cpp":
            if typ in ("float", "double") and re.fullmatch(r"-?\d+", s):
                s = repr(float(s))  # the value converted to the type of `like`, then printed
            return f"(({typ})({s}))"
        return f"{typ}({s})"

    P.make_constant = make_constant
    # the literal `1` inside the C++ `sign` template is an untyped constant too
    # (`std::copysign(1, x)` is `double` for a `float` x)
    old_sign = P.kind_to_target.get("sign") if tname == "cpp" else None
    if isinstance(old_sign, str) and "copysign(1," in old_sign:
        P.kind_to_target["sign"] = old_sign.replace("copysign(1,", "copysign(({typeof_0})(1),")
    try:
        yield
    finally:
        P.make_constant = orig
        if isinstance(old_sign, str):
            P.kind_to_target["sign"] = old_sign


def print_variant(graph, tname, name, variant):
    target = getattr(targets, tname)
    old = graph.props.get("name", None)
    graph.props["name"] = name
    try:
        with contextlib.redirect_stdout(io.StringIO()), warnings.catch_warnings():
            warnings.simplefilter("ignore")
            if variant == "typed-constants":
                with typed_constants(tname):
                    return graph.tostring(target, debug=0)
            return graph.tostring(target, debug=0)
    except Exception:  # noqa: BLE001
        return None
    finally:
        if old is None:
            graph.props.pop("name", None)
        else:
            graph.props["name"] = old


# ----------------------------------------------------------------------------- python / numpy

def exec_text(tname, text, fname):
    target = getattr(targets, tname)
    d = {}
    exec(target.source_file_header + "\n" + text, d)
    return d[fname]


def call(fn, vals):
    try:
        with warnings.catch_warnings(), numpy.errstate(all="ignore"), contextlib.redirect_stdout(io.StringIO()):
            warnings.simplefilter("ignore")
            return fn(*vals)
    except Exception as ex:  # noqa: BLE001
        return interp.Exc(ex)


def compare_py(real, expect, eager_exc):
    """None if consistent, else a short reason"""
    if isinstance(real, interp.Exc):
        if eager_exc:
            return None
        return f"emitted code raised {real.name} ({real.msg}); direct evaluation raises nothing"
    if isinstance(expect, interp.Exc):
        return f"direct evaluation raises {expect.name} (even lazily); emitted code returned {interp.canon(real)}"
    a, b = interp.canon(real), interp.canon(expect)
    return None if a == b else f"emitted {a} != direct {b}"


def run_py(case, g, tname, fname, prints, cfg):
    rng = random.Random(f"{cfg.get('seed', 0)}:{case['id']}")
    argtypes = [str(a.operands[1]) for a in g.operands[1:-1]]
    out = dict(ninputs=0, mismatches=[], errors=[], attrib=None)
    try:
        inputs = make_inputs(rng, argtypes, cfg.get("ninputs", 40))
    except interp.Unsupported as ex:
        out["unsupported"] = str(ex)
        return out
    I = interp.Interp(tname)
    fns = []
    for p in prints:
        if p["text"] is None:
            continue
        try:
            fns.append((p["debug"], exec_text(tname, p["text"], fname)))
        except Exception as ex:  # noqa: BLE001
            out["errors"].append(dict(debug=p["debug"], stage="exec-definition", error=f"{type(ex).__name__}: {ex}"[:300]))
    if not fns:
        return out
    bad_inputs = []
    for tup in inputs:
        try:
            expect, eager = I.evaluate(g, tup if tname == "python" else tup)
        except interp.Unsupported as ex:
            out["unsupported"] = str(ex)
            return out
        out["ninputs"] += 1
        vals = present(rng, tname, argtypes, tup)
        for dbg, fn in fns:
            real = call(fn, vals)
            why = compare_py(real, expect, eager)
            if why is not None:
                if len(out["mismatches"]) < 4:
                    out["mismatches"].append(dict(debug=dbg, inputs=[interp.canon(v) for v in vals], why=why))
                bad_inputs.append((dbg, tup, vals))
    out["nmismatch"] = len(bad_inputs)
    # attribution by counterfactual: would typed constants remove the mismatch?
    if bad_inputs and tname == "python":
        I2 = interp.Interp(tname, literal=True)
        ok = True
        for dbg, tup, vals in bad_inputs[:20]:
            expect, eager = I2.evaluate(g, tup)
            fn = dict(fns)[dbg]
            if compare_py(call(fn, vals), expect, eager) is not None:
                ok = False
                break
        if ok:
            out["attrib"] = "python-constant-keeps-value-class"
    return out


# ----------------------------------------------------------------------------- cpp

CTYPE = {"float": ("float", numpy.float32), "double": ("double", numpy.float64), "int32_t": ("int32_t", numpy.int32),
         "int64_t": ("int64_t", numpy.int64), "int8_t": ("int8_t", numpy.int8), "int16_t": ("int16_t", numpy.int16),
         "bool": ("bool", numpy.uint8), "std::complex<float>": ("std::complex<float>", numpy.float32),
         "std::complex<double>": ("std::complex<double>", numpy.float64)}


def wrapper(fname, argtys, retty):
    """extern "C" harness: arrays in, array out; complex values travel as (re, im) pairs."""
    params, call_args = [], []
    for i, t in enumerate(argtys):
        ct, _ = CTYPE[t]
        if t.startswith("std::complex"):
            base = "float" if "float" in t else "double"
            params.append(f"const {base}* a{i}")
            call_args.append(f"{t}(a{i}[2*k], a{i}[2*k+1])")
        elif t == "bool":
            params.append(f"const unsigned char* a{i}")
            call_args.append(f"(bool)a{i}[k]")
        else:
            params.append(f"const {ct}* a{i}")
            call_args.append(f"a{i}[k]")
    if retty.startswith("std::complex"):
        base = "float" if "float" in retty else "double"
        body = f"{retty} r = {fname}({', '.join(call_args)}); out[2*k] = r.real(); out[2*k+1] = r.imag();"
        outp = f"{base}* out"
    elif retty == "bool":
        body = f"out[k] = {fname}({', '.join(call_args)}) ? 1 : 0;"
        outp = "unsigned char* out"
    else:
        body = f"out[k] = {fname}({', '.join(call_args)});"
        outp = f"{CTYPE[retty][0]}* out"
    return f'extern "C" void w_{fname}(int n, {", ".join(params + [outp])}) {{ for (int k = 0; k < n; ++k) {{ {body} }} }}\n'


def prepare(case, g, target, tname, fname, prints, cfg):
    if tname in ("python", "numpy"):
        try:
            return run_py(case, g, tname, fname, prints, cfg)
        except Exception as ex:  # noqa: BLE001
            import traceback
            return dict(harness_error=traceback.format_exc()[-1200:])
    # cpp: evaluate the interpreter now, compile later (batched)
    P = target.Printer({}, debug=0)
    out = dict(ninputs=0, mismatches=[], errors=[], attrib=None)
    text = prints[0]["text"] if prints else None
    if text is None:
        return out
    try:
        argtys = [P.get_type(a) for a in g.operands[1:-1]]
        retty = P.get_type(g.operands[-1])
    except Exception:  # noqa: BLE001
        return out
    if not all(t in CTYPE for t in argtys + [retty]):
        out["unsupported"] = "C type outside the harness"
        return out
    variants = {"": text}
    if {"constant", "sign"} & {e.kind for e in _walk(g)}:
        v = print_variant(g, "cpp", fname + "__typed", "typed-constants")
        if v is not None:
            variants["__typed"] = v
    argtypes = [str(a.operands[1]) for a in g.operands[1:-1]]
    inputs, expects = [], []
    try:
        rng = random.Random(f"{cfg.get('seed', 0)}:{case['id']}")
        inputs = make_inputs(rng, argtypes, cfg.get("ninputs", 40))
        I = interp.Interp("cpp")
        for tup in inputs:
            vals = []
            for t, v in zip(argtypes, tup):
                k, dt = arg_domain(t)
                vals.append(("complex", dt(v.real), dt(v.imag)) if k == "c" else v)
            with numpy.errstate(all="ignore"):
                r, _ = I.evaluate(g, vals)
            expects.append(r)
    except interp.Unsupported as ex:
        # the interpreter cannot evaluate this graph: the emitted source is still compiled and loaded
        out["unsupported"] = str(ex)
        inputs, expects = [], []
    _cpp_jobs.append(dict(id=case["id"], fname=fname, variants=variants, argtys=argtys, retty=retty, argtypes=argtypes,
                          inputs=inputs, expects=expects, out=out))
    return out


def _walk(g):
    seen, stack = set(), [g]
    while stack:
        e = stack.pop()
        if id(e) in seen:
            continue
        seen.add(id(e))
        yield e
        for o in e.operands:
            if hasattr(o, "operands"):
                stack.append(o)


def compile_unit(workdir, tag, pieces):
    """pieces: list of (key, text).  Returns (so path or None, {key: error text})."""
    header = targets.cpp.source_file_header
    failed = {}
    for attempt in range(6):
        live = [(k, t) for k, t in pieces if k not in failed]
        lines = header.split("\n")
        spans = []
        for k, t in live:
            start = len(lines) + 1
            lines.extend(t.split("\n"))
            spans.append((start, len(lines), k))
        src = os.path.join(workdir, f"{tag}.cpp")
        so = os.path.join(workdir, f"{tag}.so")
        with open(src, "w") as f:
            f.write("\n".join(lines) + "\n")
        p = subprocess.run(["g++", "-O0", "-ffp-contract=off", "-frounding-math", "-shared", "-fPIC", "-w", src, "-o", so],
                           capture_output=True, text=True, timeout=300)
        if p.returncode == 0:
            return so, failed
        bad = {}
        for m in re.finditer(r"^%s:(\d+):\d+: (?:fatal )?error: (.*)$" % re.escape(src), p.stderr, re.M):
            ln = int(m.group(1))
            for a, b, k in spans:
                if a <= ln <= b and k not in bad:
                    bad[k] = m.group(2)[:300]
        if not bad:
            for k, _t in live:
                failed[k] = "compilation failed: " + p.stderr[-400:]
            return None, failed
        failed.update(bad)
    return None, failed


def cmp_arrays(got, expects, retty):
    bad = []
    for k, e in enumerate(expects):
        if retty.startswith("std::complex"):
            g = ("complex", got[2 * k], got[2 * k + 1])
            if isinstance(e, tuple):
                dt = type(got[0])
                a = [interp.canon(got[2 * k]), interp.canon(got[2 * k + 1])]
                b = [interp.canon(dt(e[1])), interp.canon(dt(e[2]))]
            else:
                a, b = ["?"], [interp.canon(e)]
        elif retty == "bool":
            a, b = ["bool", int(got[k])], ["bool", int(bool(e))] if not isinstance(e, interp.Exc) else interp.canon(e)
        else:
            a = interp.canon(got[k])
            with numpy.errstate(all="ignore"):
                b = interp.canon(type(got[k])(e)) if isinstance(e, (numpy.generic, int, float)) and not isinstance(e, interp.Exc) else interp.canon(e)
        if a != b:
            bad.append((k, a, b))
    return bad


def run_compiled(lib, job, suffix):
    fn = getattr(lib, "w_" + job["fname"] + suffix)
    n = len(job["inputs"])
    if n == 0:
        return numpy.zeros(0)
    arrs = []
    for j, t in enumerate(job["argtys"]):
        _, dt = CTYPE[t]
        col = [tup[j] for tup in job["inputs"]]
        with numpy.errstate(all="ignore"):
            if t.startswith("std::complex"):
                a = numpy.array([[complex(c).real, complex(c).imag] for c in col], dtype=dt).reshape(-1)
            else:
                a = numpy.array(col, dtype=dt)
        arrs.append(numpy.ascontiguousarray(a))
    _, rdt = CTYPE[job["retty"]]
    out = numpy.zeros(2 * n if job["retty"].startswith("std::complex") else n, dtype=rdt)
    fn.restype = None
    fn(ctypes.c_int(n), *[a.ctypes.data_as(ctypes.c_void_p) for a in arrs], out.ctypes.data_as(ctypes.c_void_p))
    return out


def run_forked(lib, jobs, todo):
    """Run the compiled functions in a forked child (a SIGFPE / SIGSEGV of emitted code — e.g. the integer
    division `(7) / (0)` printed for float constants — must not take the worker down).  The child streams
    pickled results; when it dies the variant in progress is recorded as `run-crash` and a new child
    continues after it."""
    import pickle
    import signal as _signal
    import struct as _struct

    results = {}
    start = 0
    while start < len(todo):
        r, w = os.pipe()
        pid = os.fork()
        if pid == 0:
            try:
                os.close(r)
                with os.fdopen(w, "wb") as f:
                    for k in range(start, len(todo)):
                        j, sfx = todo[k]
                        f.write(_struct.pack("<ii", 0, k))
                        f.flush()
                        try:
                            payload = ("ran", run_compiled(lib, jobs[j], sfx))
                        except Exception as ex:  # noqa: BLE001
                            payload = ("load-error", f"{type(ex).__name__}: {ex}"[:300])
                        blob = pickle.dumps(payload)
                        f.write(_struct.pack("<ii", 1, len(blob)))
                        f.write(blob)
                        f.flush()
            finally:
                os._exit(0)
        os.close(w)
        current, done_upto = None, start
        with os.fdopen(r, "rb") as f:
            while True:
                h = f.read(8)
                if len(h) < 8:
                    break
                tag, n = _struct.unpack("<ii", h)
                if tag == 0:
                    current = n
                else:
                    blob = f.read(n)
                    if len(blob) < n:
                        break
                    results[todo[current]] = pickle.loads(blob)
                    done_upto = current + 1
                    current = None
        _, status = os.waitpid(pid, 0)
        if current is not None and todo[current] not in results:
            sig = os.WTERMSIG(status) if os.WIFSIGNALED(status) else 0
            name = _signal.Signals(sig).name if sig else f"exit {status}"
            results[todo[current]] = ("run-crash", f"the compiled function terminated the process with {name}")
            start = current + 1
        elif done_upto >= len(todo):
            break
        else:
            start = max(done_upto, start + 1)
    return results


def finish(results, cfg):
    """compile in units of at most 250 emitted functions (bounded compiler memory)"""
    jobs = list(_cpp_jobs)
    _cpp_jobs.clear()
    for k in range(0, len(jobs), 250):
        finish_unit(jobs[k:k + 250], cfg, f"{cfg.get('tag', 'unit')}_{k // 250}")


def finish_unit(_cpp_jobs, cfg, tag):
    if not _cpp_jobs:
        return
    workdir = cfg["workdir"]
    os.makedirs(workdir, exist_ok=True)
    pieces = []
    for job in _cpp_jobs:
        for sfx, text in job["variants"].items():
            pieces.append(((job["id"], sfx), text + "\n" + wrapper(job["fname"] + sfx, job["argtys"], job["retty"])))
    so, failed = compile_unit(workdir, tag, pieces)
    lib = ctypes.CDLL(so) if so else None
    todo = [(j, sfx) for j, job in enumerate(_cpp_jobs) for sfx in job["variants"]
            if lib is not None and (job["id"], sfx) not in failed]
    ran = run_forked(lib, _cpp_jobs, todo) if todo else {}
    for j, job in enumerate(_cpp_jobs):
        out = job["out"]
        res = {}
        for sfx in job["variants"]:
            key = (job["id"], sfx)
            if key in failed:
                res[sfx] = ("compile-error", failed[key])
                continue
            if lib is None:
                res[sfx] = ("compile-error", "unit failed")
                continue
            st_, val_ = ran.get((j, sfx), ("load-error", "not run"))
            if st_ == "ran":
                res[sfx] = ("ran", cmp_arrays(val_, job["expects"], job["retty"]))
            else:
                res[sfx] = (st_, val_)
        st, val = res[""]
        out["ninputs"] = len(job["inputs"])
        if st != "ran":
            out["errors"].append(dict(debug=0, stage=st, error=val))
        else:
            out["nmismatch"] = len(val)
            for k, a, b in val[:4]:
                out["mismatches"].append(dict(debug=0, inputs=[interp.canon(v) if not isinstance(v, complex) else repr(v) for v in job["inputs"][k]],
                                              why=f"emitted {a} != direct {b}"))
        if (st != "ran" or val) and "__typed" in res:
            st2, val2 = res["__typed"]
            if st2 == "ran" and not val2:
                out["attrib"] = "cpp-constant-printed-untyped"
