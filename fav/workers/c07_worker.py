"""C07 helper library (imported in-process by fav/props/c07.py; no subprocess is needed).

It contains the three pieces that touch the REAL package:
  * `build_value` / `build_type`: turn JSON specs of a history into Python values / type arguments,
  * `Encoder`: canonical line-protocol encoding of values, types and real keys for Drivers/HashCons.lean,
  * `execute`: run one construction history on a real `functional_algorithms.Context`, evaluating the
    independent structural oracle (`Oracle`, pure tuples + object identity) along the way.

History steps (JSON, replayable):
  {"op":"sym",   "name":str, "ty":TY, "via":"ctx"|"make"}
  {"op":"const", "val":VAL, "like":ref, "via":"ctx"|"make"}
  {"op":"expr",  "kind":str, "args":[ref,..], "via":"method"|"operator"|"expr"}
  compound API calls (oracle only, never sent to the Lean driver):
  {"op":"cconst","val":VAL, "like":null|TYSTR}        ctx.constant(v) / ctx.constant(v, "float32")
  {"op":"cexpr", "kind":str, "args":[ref|{"py":VAL},..], "via":"method"|"operator"}   Python numbers as operands
  {"op":"cpow",  "base":ref, "exp":VAL}                ctx.pow(x, 0.5) -> sqrt, ctx.pow(x, 2) -> square
refs are indices of earlier steps; a step whose referenced step failed is skipped.

TY  = {"s": "float32"} | {"py": "float"} | {"np": "float32"} | {"T": [kind, PARAM]}
PARAM = null | int | str | [TY,..] | TY
VAL = {"t": tag, "v": repr, "slot": int|null}   slot: values with the same slot number are ONE Python object
"""

import contextlib
import io
import math
import struct
import warnings

import numpy

# --------------------------------------------------------------------------------------------------
# values


class _SubFloat(float):
    """A distinct class whose __name__ is 'float' (reaches the RuntimeError branch of the registry)."""


_SubFloat.__name__ = "float"
_SubFloat.__qualname__ = "float"


class _SubInt(int):
    pass


_SubInt.__name__ = "int"
_SubInt.__qualname__ = "int"

NP_INT = {"np.int8": numpy.int8, "np.int16": numpy.int16, "np.int32": numpy.int32, "np.int64": numpy.int64,
          "np.uint8": numpy.uint8, "np.uint16": numpy.uint16, "np.uint32": numpy.uint32, "np.uint64": numpy.uint64,
          "np.longlong": numpy.longlong}
NP_FLOAT = {"np.float16": (numpy.float16, numpy.uint16), "np.float32": (numpy.float32, numpy.uint32),
            "np.float64": (numpy.float64, numpy.uint64)}
NP_COMPLEX = {"np.complex64": (numpy.complex64, numpy.float32, numpy.uint32), "np.complex128": (numpy.complex128, numpy.float64, numpy.uint64)}
FLOAT_FMT = {"float16": (16, 10), "float32": (32, 23), "float64": (64, 52)}


def _f64(bits):
    return struct.unpack("<d", struct.pack("<Q", bits))[0]


def _bits64(x):
    return struct.unpack("<Q", struct.pack("<d", x))[0]


def build_value(spec):
    """Python object described by a VAL spec (always a fresh object)."""
    t, v = spec["t"], spec["v"]
    if t == "bool":
        return bool(v)
    if t == "int":
        return int(v)
    if t == "float":
        return _f64(v)
    if t == "complex":
        return complex(_f64(v[0]), _f64(v[1]))
    if t == "str":
        return str(v)
    if t in NP_INT:
        return NP_INT[t](int(v))
    if t in NP_FLOAT:
        ft, ut = NP_FLOAT[t]
        return numpy.array([v], dtype=ut).view(ft)[0]
    if t == "np.longdouble":
        return numpy.longdouble(_f64(v[0])) + numpy.longdouble(_f64(v[1]))
    if t in NP_COMPLEX:
        ct, ft, ut = NP_COMPLEX[t]
        return numpy.array([v[0], v[1]], dtype=ut).view(ct)[0]
    if t == "sub.float":
        return _SubFloat(_f64(v))
    if t == "sub.int":
        return _SubInt(int(v))
    if t == "np.bool_":
        return numpy.bool_(bool(v))
    if t == "none":
        return None
    raise ValueError(t)


def strict_value(spec):
    """The property's notion of a constant value: type name + exact content (from the SPEC only)."""
    t, v = spec["t"], spec["v"]
    name = {"sub.float": "float", "sub.int": "int"}.get(t, t[3:] if t.startswith("np.") else t)
    if isinstance(v, list):
        v = tuple(v)
    return (name, v)


def zero_sign_blind(spec):
    """strict value with the signs of zeros removed (to recognise the -0.0 finding)."""
    t, v = spec["t"], spec["v"]

    def unz(bits, width):
        return 0 if bits == 1 << (width - 1) else bits

    if t in ("float", "sub.float"):
        return ("float", unz(v, 64))
    if t == "complex":
        return (t, unz(v[0], 64), unz(v[1], 64))
    if t in NP_FLOAT:
        return (t, unz(v, FLOAT_FMT[t[3:]][0]))
    if t in NP_COMPLEX:
        w = 32 if t == "np.complex64" else 64
        return (t, unz(v[0], w), unz(v[1], w))
    if t == "np.longdouble":
        return (t, unz(v[0], 64), unz(v[1], 64))
    return strict_value(spec)


def has_nan(spec):
    t, v = spec["t"], spec["v"]

    def isnan(bits, width, mant):
        e = (bits >> mant) & ((1 << (width - 1 - mant)) - 1)
        return e == (1 << (width - 1 - mant)) - 1 and bits & ((1 << mant) - 1) != 0

    if t in ("float", "sub.float"):
        return isnan(v, 64, 52)
    if t == "complex":
        return isnan(v[0], 64, 52) or isnan(v[1], 64, 52)
    if t in NP_FLOAT:
        w, m = FLOAT_FMT[t[3:]]
        return isnan(v, w, m)
    if t in NP_COMPLEX:
        w, m = (32, 23) if t == "np.complex64" else (64, 52)
        return isnan(v[0], w, m) or isnan(v[1], w, m)
    if t == "np.longdouble":
        return isnan(v[0], 64, 52) or isnan(v[1], 64, 52)
    return False


# --------------------------------------------------------------------------------------------------
# types

PYTYPES = {"float": float, "int": int, "bool": bool, "complex": complex}


def build_type(fa, ctx, spec):
    """Argument for ctx.symbol(name, typ) described by a TY spec."""
    if "s" in spec:
        return spec["s"]
    if "py" in spec:
        return PYTYPES[spec["py"]]
    if "np" in spec:
        return getattr(numpy, spec["np"])
    kind, param = spec["T"]
    Type = fa.typesystem.Type
    if isinstance(param, list):
        param = tuple(Type.fromobject(ctx, build_type(fa, ctx, p)) for p in param)
    elif isinstance(param, dict):
        param = Type.fromobject(ctx, build_type(fa, ctx, param))
    return Type(ctx, kind, param)


def _strip_letters(s):
    return s.strip("abcdefghijklmnopqrstuvwxyzABCDEFGHIJKLMNOPQRSTUVWXYZ")


def type_struct(spec):
    """Independent reading of what Type a TY spec denotes: nested tuples (kind, param)."""
    if "s" in spec:
        s = spec["s"]
        for prefix, kind in (("float", "float"), ("int", "integer"), ("complex", "complex"), ("bool", "boolean")):
            if s.startswith(prefix):
                b = _strip_letters(s)
                return (kind, int(b) if b else None)
        if s.startswith("list"):
            inner = s[4:].strip()[1:-1]
            return ("list", tuple(type_struct({"s": p.strip()}) for p in inner.split(",")))
        if s == "array":
            return ("array", None)
        return ("type", "str:" + s)
    if "py" in spec:
        return ({"float": "float", "int": "integer", "bool": "boolean", "complex": "complex"}[spec["py"]], None)
    if "np" in spec:
        return type_struct({"s": spec["np"]})
    kind, param = spec["T"]
    if isinstance(param, list):
        return (kind, tuple(type_struct(p) for p in param))
    if isinstance(param, dict):
        return (kind, (type_struct(param),)) if kind == "array" else (kind, type_struct(param))
    if isinstance(param, str):
        return (kind, "str:" + param)
    return (kind, param)


# --------------------------------------------------------------------------------------------------
# line-protocol encoding


def hx(s):
    return s.encode("utf-8").hex() or "-"


def ty_tokens(ts):
    kind, param = ts
    if param is None:
        return ["T", hx(kind), "N"]
    if isinstance(param, bool) or isinstance(param, int):
        return ["T", hx(kind), "B", str(int(param))]
    if isinstance(param, str):
        return ["T", hx(kind), "S", hx(param[4:])]
    out = ["T", hx(kind), "L", str(len(param))]
    for p in param:
        out += ty_tokens(p)
    return out


def ty_text(ts):
    kind, param = ts
    if param is None:
        p = "N"
    elif isinstance(param, int):
        p = "B%d" % param
    elif isinstance(param, str):
        p = "S" + hx(param[4:])
    else:
        p = "L[" + "".join(ty_text(q) + ";" for q in param) + "]"
    return "T(%s,%s)" % (hx(kind), p)


def real_type_struct(T):
    """Walk a real Type object (attributes kind/param only)."""
    p = T.param
    if p is None:
        return (T.kind, None)
    if isinstance(p, bool) or isinstance(p, int):
        return (T.kind, int(p))
    if isinstance(p, str):
        return (T.kind, "str:" + p)
    if isinstance(p, tuple):
        return (T.kind, tuple(real_type_struct(q) for q in p))
    if hasattr(p, "kind") and hasattr(p, "param"):
        return (T.kind, real_type_struct(p))
    return (T.kind, "other:" + type(p).__name__)


def real_key_text(key):
    """Canonical text of a real `Expr.key` tuple, same grammar as showKey in the driver."""
    if key[0] == "symbol" and len(key) == 3 and not isinstance(key[1], tuple):
        return "S:%s:%s" % (hx(key[1]), ty_text(real_type_struct(key[2])))
    if key[0] == "z_constant" and len(key) == 3 and isinstance(key[1], tuple) and len(key[1]) in (2, 3) and isinstance(key[1][1], str):
        return "C:%s:(%s)" % (hx(key[1][1]), real_key_text(key[2]))
    return "O:%s:%s" % (key[0], ";".join(",".join(str(x) for x in t) if isinstance(t, tuple) else "!" + repr(t) for t in key[1:]))


def _canon_dyadic(neg, n, e):
    if n == 0:
        return "n%d_0_0" % int(neg)
    while n % 2 == 0:
        n //= 2
        e += 1
    return "n%d_%d_%d" % (int(neg), n, e)


def enc_double(x, nanbits=None):
    if x != x:
        b = _bits64(x) if nanbits is None else nanbits
        return "N%d_%d" % (int(math.copysign(1.0, x) < 0), b)
    if math.isinf(x):
        return "I%d" % int(x < 0)
    neg = math.copysign(1.0, x) < 0
    n, d = abs(x).as_integer_ratio()
    return _canon_dyadic(neg, n, -(d.bit_length() - 1))


def enc_npfloat(v):
    name = type(v).__name__
    if name == "longdouble":
        if numpy.isnan(v):
            return "N%d_0" % int(numpy.signbit(v))
        if numpy.isinf(v):
            return "I%d" % int(v < 0)
        m, e = numpy.frexp(abs(v))
        n = int(m * numpy.longdouble(2) ** 64)
        return _canon_dyadic(bool(numpy.signbit(v)), n, int(e) - 64)
    w, mant = FLOAT_FMT[name]
    if numpy.isnan(v):
        bits = int(v.view({16: numpy.uint16, 32: numpy.uint32, 64: numpy.uint64}[w]))
        return "N%d_%d" % (bits >> (w - 1), bits & ((1 << mant) - 1))
    return enc_double(float(v))


def enc_data(v):
    """<data> token of a Python value (exact content)."""
    if isinstance(v, (bool, numpy.bool_)):
        return "i%d" % int(v)
    if isinstance(v, (int, numpy.integer)):
        return "i%d" % int(v)
    if isinstance(v, float):
        x = float(v)
        return "f" + (enc_double(x, _bits64(x) & ((1 << 52) - 1)) if x != x else enc_double(x))
    if isinstance(v, numpy.floating):
        return "f" + enc_npfloat(v)
    if isinstance(v, complex):
        def c(x):
            return enc_double(x, _bits64(x) & ((1 << 52) - 1)) if x != x else enc_double(x)
        return "c%s|%s" % (c(v.real), c(v.imag))
    if isinstance(v, numpy.complexfloating):
        return "c%s|%s" % (enc_npfloat(v.real), enc_npfloat(v.imag))
    if isinstance(v, str):
        return "s" + hx(v)
    raise TypeError(type(v))


class Encoder:
    """Numbers type objects (whole run) and value objects (per history) by identity."""

    def __init__(self):
        self.types = {}
        self.keep = []

    def tid(self, v):
        t = type(v)
        if id(t) not in self.types:
            self.types[id(t)] = len(self.types)
            self.keep.append(t)
        return self.types[id(t)]

    def value_tokens(self, v, oid):
        return [str(self.tid(v)), hx(type(v).__name__), str(oid), enc_data(v)]


# --------------------------------------------------------------------------------------------------
# kinds

UNARY = ["negative", "positive", "absolute", "asin", "acos", "atan", "asinh", "acosh", "atanh", "asin_acos_kernel",
         "sin", "cos", "tan", "sinh", "cosh", "tanh", "log", "log1p", "log2", "log10", "exp", "expm1", "sqrt", "square", "exp2",
         "conjugate", "real", "imag", "logical_not", "bitwise_invert", "ceil", "floor", "round", "truncate", "sign",
         "upcast", "downcast", "is_finite", "is_inf", "is_posinf", "is_neginf", "is_nan", "is_negzero", "dtype_index"]
BINARY = ["add", "subtract", "multiply", "divide", "minimum", "maximum", "atan2", "pow", "complex", "hypot",
          "lt", "gt", "le", "ge", "eq", "ne", "logical_and", "logical_or", "logical_xor",
          "bitwise_and", "bitwise_or", "bitwise_xor", "bitwise_left_shift", "bitwise_right_shift",
          "floor_divide", "remainder", "copysign", "nextafter"]
TERNARY = ["select"]
VARIADIC = ["list", "apply"]
SPECIAL = ["item", "len"]
ALL_KINDS = UNARY + BINARY + TERNARY + VARIADIC + SPECIAL

# Context method implementing a kind (when it takes exactly the operands)
METHOD = {k: k for k in UNARY + BINARY + TERNARY if k not in
          ("bitwise_invert", "is_inf", "is_posinf", "is_neginf", "is_nan", "is_negzero", "nextafter", "dtype_index")}
METHOD.update(len="len", item="item")
OPERATOR = {
    "negative": lambda a: -a, "positive": lambda a: +a, "absolute": lambda a: abs(a),
    "add": lambda a, b: a + b, "subtract": lambda a, b: a - b, "multiply": lambda a, b: a * b, "divide": lambda a, b: a / b,
    "floor_divide": lambda a, b: a // b, "remainder": lambda a, b: a % b, "pow": lambda a, b: a**b,
    "lt": lambda a, b: a < b, "le": lambda a, b: a <= b, "gt": lambda a, b: a > b, "ge": lambda a, b: a >= b,
    "eq": lambda a, b: a == b, "ne": lambda a, b: a != b,
}
ROPERATOR = {  # Python number on the left
    "add": lambda a, b: a + b, "subtract": lambda a, b: a - b, "multiply": lambda a, b: a * b, "divide": lambda a, b: a / b,
}

# kinds through which `normalize_like` descends to operand 0 (own copy of the list in expr.py)
LIKE_FIRST = {"negative", "positive", "add", "subtract", "multiply", "divide", "maximum", "minimum", "acos", "acosh", "asin",
              "asinh", "atan", "atan2", "atanh", "cos", "cosh", "sin", "sinh", "tan", "tanh", "exp", "exp2", "expm1", "log",
              "log1p", "log2", "log10", "conj", "hypot", "sqrt", "square", "asin_acos_kernel"}


def oracle_normalize_like(e):
    """Own re-statement of expr.normalize_like over real objects' kind/operands.  Returns None when
    the answer needs type inference the oracle does not have (absolute of a non-symbol) or when an
    operation of irregular arity makes the walk fall off the operand tuple."""
    try:
        return _oracle_normalize_like(e)
    except IndexError:
        return None


def _oracle_normalize_like(e):
    while True:
        k = e.kind
        if k in ("constant", "select"):
            e = e.operands[1]
        elif k in LIKE_FIRST:
            e = e.operands[0]
        elif k == "absolute":
            o = e.operands[0]
            if o.kind != "symbol":
                return None
            if o.operands[1].kind == "complex":
                return e
            e = o
        elif k == "real" and e.operands[0].kind == "complex":
            e = e.operands[0].operands[0]
        elif k == "imag" and e.operands[0].kind == "complex":
            e = e.operands[0].operands[1]
        else:
            return e


# --------------------------------------------------------------------------------------------------
# execution on the real package with the structural oracle


class Result:
    def __init__(self):
        self.lines = []       # driver input lines for modelled steps
        self.expect = []      # what the real code did on each of those lines
        self.line_step = []   # step index of each line
        self.findings = []    # property failures: dict(signature, what, step)
        self.outcomes = []    # per step: "fresh"/"hit"/"RuntimeError"/"EXC:<type>"/"skip"
        self.constructions = 0
        self.desync = False
        self.stats = {}

    def count(self, k, n=1):
        self.stats[k] = self.stats.get(k, 0) + n


def execute(fa, history, enc, want_lines=True, alt=False):
    """Run one history on a fresh real Context.  `fa` is the imported functional_algorithms package.
    alt=True: the context is created with enable_alt=True (constant values live in the alternate context as
    expressions; not modelled in Lean, so no driver lines; the oracle's classes are the same because the
    alternate constant is a function of the exact value).  Operations whose operands are ALL constants are
    skipped in that mode (they are folded into one constant, which is not a structural construction)."""
    Expr = fa.expr.Expr
    res = Result()
    ctx = fa.Context(enable_alt=True) if alt else fa.Context()
    if alt:
        want_lines = False
    objs = []            # step -> returned Expr or None
    slots = {}           # slot -> python value object
    keep_vals = []       # value objects kept alive (ids stay unique)
    oid_of = {}
    objnum = {}          # id(Expr) -> canonical number (first appearance)
    keep_exprs = []
    cls_first_obj = {}   # oracle struct -> object number
    obj_first_cls = {}   # object number -> oracle struct
    valspec_of_obj = {}  # object number of a constant -> its value spec (as first requested)
    state = {"has_sub": False}  # a value of a class that shadows a builtin type name was used (malformed stream)

    def num(o):
        if id(o) not in objnum:
            objnum[id(o)] = len(objnum)
            keep_exprs.append(o)
        return objnum[id(o)]

    def value_of(spec):
        slot = spec.get("slot")
        if slot is not None and slot in slots:
            return slots[slot]
        v = build_value(spec)
        keep_vals.append(v)
        if slot is not None:
            slots[slot] = v
        return v

    def oid(v):
        if id(v) not in oid_of:
            oid_of[id(v)] = len(oid_of)
        return oid_of[id(v)]

    def finding(sig, what, step):
        res.findings.append(dict(signature=sig, what=what, step=step))

    def judge(step, struct, r, spec=None):
        """Compare object identity of the result with the oracle's structural classes."""
        n = num(r)
        if struct in cls_first_obj:
            if cls_first_obj[struct] != n:
                # structurally identical construction returned a different object
                if spec is not None and has_nan(spec):
                    finding("constant:equal-NaN-values-in-distinct-objects-are-not-shared",
                            "two constants of identical type, NaN content and like operand are distinct expressions "
                            "(the value objects are distinct Python objects and NaN != NaN)", step)
                else:
                    finding("split:" + _cls(struct[0]), "structurally identical constructions returned different objects: %r" % (struct,), step)
        else:
            if n in obj_first_cls:
                other = obj_first_cls[n]
                if spec is not None and other[0] == "constant" and other[2:] == struct[2:] and \
                        zero_sign_blind(spec) == zero_sign_blind(valspec_of_obj[n]) and not has_nan(spec):
                    finding("constant:negative-zero-aliases-positive-zero",
                            "constants whose values differ only in the sign of a zero are one expression "
                            "(key compares values with ==): requested %r, got the expression of %r" % (spec["v"], valspec_of_obj[n]["v"]), step)
                else:
                    finding("alias:%s~%s" % (_cls(other[0]), _cls(struct[0])),
                            "a construction returned the object of a structurally different earlier one: %r vs %r" % (struct, other), step)
            else:
                cls_first_obj[struct] = n
        if n not in obj_first_cls:
            obj_first_cls[n] = struct
            if spec is not None:
                valspec_of_obj[n] = spec

    def check_returned(step, r, kind, operands, spec=None, value=None):
        """returned_is_requested on the real object."""
        ok = r.kind == kind and len(r.operands) == len(operands)
        if ok and kind == "symbol":
            ok = r.operands[0] == operands[0] and real_type_struct(r.operands[1]) == operands[1]
        elif ok and kind == "constant":
            got = r.operands[0]
            if alt and isinstance(got, Expr):
                ok = got.kind == "constant" and got.context is ctx.alt
                got = got.operands[0] if ok else got
            ok = ok and r.operands[1] is operands[1]
            if ok and not (type(got) is type(value) and _same_content(got, value)):
                if type(got).__name__ == type(value).__name__ and zero_sign_blind(spec) == zero_sign_blind(valspec_of_obj.get(num(r), spec)) and not has_nan(spec):
                    finding("constant:negative-zero-aliases-positive-zero",
                            "the expression returned for constant %r holds %r" % (value, got), step)
                else:
                    finding("returned-constant-holds-other-value", "requested %r (%s) got %r (%s)" % (value, type(value).__name__, got, type(got).__name__), step)
        elif ok:
            ok = all(a is b for a, b in zip(r.operands, operands))
        if not ok:
            finding("returned-expression-is-not-the-requested-one:" + _cls(kind), "requested %s%r, got %s with operands %r" % (kind, operands, r.kind, r.operands), step)

    def sync_new(step, before):
        """Registrations made implicitly by a compound call (or by a primitive call that registered more than
        one expression): replay them to the model as primitive constructions read off the registered objects."""
        if not want_lines:
            return
        new = sorted((e for e in ctx._expressions.values() if isinstance(e.intkey, int) and e.intkey >= before), key=lambda e: e.intkey)
        for e in new:
            try:
                if e.kind == "symbol":
                    toks = ["sym", hx(e.operands[0])] + ty_tokens(real_type_struct(e.operands[1]))
                elif e.kind == "constant":
                    v = e.operands[0]
                    toks = ["const"] + enc.value_tokens(v, oid(v)) + [str(e.operands[1].intkey)]
                else:
                    toks = ["op", e.kind] + [str(o.intkey) for o in e.operands]
                res.lines.append(" ".join(toks))
                res.expect.append("fresh %d %s" % (e.intkey, real_key_text(e.key)))
                res.line_step.append(step)
                res.count("line:implicit")
            except Exception:  # noqa
                res.desync = True
                return

    def attempt(step, thunk, line_tokens, struct_fn, kind, operands, spec=None, value=None, modelled=True, wellformed=lambda: True):
        before = ctx._expression_counter
        res.constructions += 1
        try:
            with contextlib.redirect_stdout(io.StringIO()), warnings.catch_warnings():
                warnings.simplefilter("ignore")
                r = thunk()
        except RuntimeError as e:
            out = "RuntimeError" if "re-register" in str(e) else "EXC:RuntimeError"
            r = None
        except Exception as e:  # noqa
            out = "EXC:" + type(e).__name__
            r = None
        else:
            if not isinstance(r, Expr):
                out = "EXC:not-an-Expr"
                r = None
            else:
                new = ctx._expression_counter - before
                out = ("fresh" if new == 1 and r.intkey == before else "hit" if new == 0 and isinstance(r.intkey, int) else "multi%d" % new)
        res.outcomes.append(out)
        res.count("out:" + out.split(":")[0])
        if r is None and wellformed():
            finding("wellformed-construction-raises:" + out.replace("EXC:", ""),
                    "a construction over valid operands/values raised %s" % out, step)
        if out.startswith("multi") or (out.startswith("EXC") and ctx._expression_counter != before):
            sync_new(step, before)
        if modelled and want_lines and (out in ("fresh", "hit", "RuntimeError")):
            res.lines.append(" ".join(line_tokens))
            res.line_step.append(step)
            if r is None:
                res.expect.append(out)
            else:
                try:
                    res.expect.append("%s %d %s" % (out, r.intkey, real_key_text(r.key)))
                except Exception as e:  # noqa
                    res.expect.append("%s %d key-error:%s" % (out, r.intkey, type(e).__name__))
        if r is not None:
            judge(step, struct_fn(), r, spec)
            check_returned(step, r, kind, operands, spec, value)
        return r

    lines_reset = "reset"
    if want_lines:
        res.lines.append(lines_reset)
        res.expect.append("ok")
        res.line_step.append(-1)

    for step, st in enumerate(history):
        op = st["op"]
        r = None
        if op == "sym":
            ts = type_struct(st["ty"])
            try:
                targ = build_type(fa, ctx, st["ty"])
            except Exception as e:  # noqa
                res.outcomes.append("EXC:type:" + type(e).__name__)
                objs.append(None)
                continue
            name = st["name"]
            thunk = (lambda: ctx.symbol(name, targ)) if st.get("via", "ctx") == "ctx" else (lambda: fa.expr.make_symbol(ctx, name, targ))
            r = attempt(step, thunk, ["sym", hx(name)] + ty_tokens(ts), lambda: ("symbol", name, ts), "symbol", (name, ts))
            res.count("step:sym")
        elif op == "const":
            like = objs[st["like"]] if st["like"] is not None and st["like"] < len(objs) else None
            if like is None:
                res.outcomes.append("skip")
                objs.append(None)
                continue
            nl = oracle_normalize_like(like)
            if nl is None:
                res.outcomes.append("skip")
                objs.append(None)
                continue
            spec = st["val"]
            v = value_of(spec)
            try:
                toks = ["const"] + enc.value_tokens(v, oid(v)) + [str(nl.intkey)]
                modelled = True
            except TypeError:
                toks, modelled = [], False
            thunk = (lambda: ctx.constant(v, like)) if st.get("via", "ctx") == "ctx" else (lambda: fa.expr.make_constant(ctx, v, like))
            if spec["t"].startswith("sub."):
                state["has_sub"] = True
            wf = spec["t"] not in ("np.bool_", "none") and not spec["t"].startswith("sub.") and not (alt and spec["t"] == "str")
            r = attempt(step, thunk, toks, lambda: ("constant", strict_value(spec), num(nl)), "constant", (v, nl), spec, v, modelled,
                        wellformed=lambda: wf and not state["has_sub"])
            res.count("step:const:" + spec["t"])
            if spec.get("slot") is not None:
                res.count("const:shared-object")
            if has_nan(spec):
                res.count("const:nan")
        elif op == "expr":
            args = [objs[a] if a < len(objs) else None for a in st["args"]]
            if any(a is None for a in args):
                res.outcomes.append("skip")
                objs.append(None)
                continue
            kind, via = st["kind"], st.get("via", "expr")
            if alt and kind != "list" and all(a.kind == "constant" for a in args):
                res.outcomes.append("skip")
                objs.append(None)
                continue
            if via == "method" and kind in METHOD:
                thunk = lambda: getattr(ctx, METHOD[kind])(*args)  # noqa
            elif via == "operator" and kind in OPERATOR:
                thunk = lambda: OPERATOR[kind](*args)  # noqa
            else:
                thunk = lambda: Expr(ctx, kind, tuple(args))  # noqa
            r = attempt(step, thunk, ["op", kind] + [str(a.intkey) for a in args],
                        lambda: (kind,) + tuple(num(a) for a in args), kind, tuple(args), wellformed=lambda: kind not in SPECIAL and not (kind == "select" and len(args) < 2)
                        # with enable_alt the constructor runs type inference over constant operands, which may raise
                        and not (alt and any(a.kind == "constant" for a in args)))
            res.count("step:expr:arity%d" % len(args))
            res.count("kind:" + kind)
        elif op == "cconst":
            spec = st["val"]
            v = value_of(spec)
            likespec = st.get("like")
            # the oracle's reading of Context.constant defaults
            if likespec is None:
                t = spec["t"]
                if t == "bool":
                    exp_sym = ("_boolean_value", ("boolean", None))
                elif t == "int" or t in NP_INT:
                    exp_sym = ("_integer_value", ("integer", None) if t == "int" else type_struct({"s": t[3:]}))
                elif t == "float" or t in NP_FLOAT:
                    exp_sym = ("_float_value", ("float", None) if t == "float" else type_struct({"s": t[3:]}))
                elif t == "complex" or t in NP_COMPLEX:
                    exp_sym = ("_complex_value", ("complex", None) if t == "complex" else type_struct({"s": t[3:]}))
                else:
                    exp_sym = None
                thunk = lambda: ctx.constant(v)  # noqa
            else:
                ts = type_struct({"s": likespec})
                exp_sym = ("_%s_value" % ts[0], ts)
                thunk = lambda: ctx.constant(v, likespec)  # noqa
            if exp_sym is None:
                res.outcomes.append("skip")
                objs.append(None)
                continue
            before = ctx._expression_counter
            res.constructions += 1
            try:
                with contextlib.redirect_stdout(io.StringIO()), warnings.catch_warnings():
                    warnings.simplefilter("ignore")
                    r = thunk()
                res.outcomes.append("compound")
            except Exception as e:  # noqa
                res.outcomes.append("EXC:" + type(e).__name__)
                r = None
            res.count("step:cconst")
            sync_new(step, before)
            if r is not None:
                like_obj = r.operands[1] if r.kind == "constant" else None
                if like_obj is None or like_obj.kind != "symbol" or like_obj.operands[0] != exp_sym[0] or real_type_struct(like_obj.operands[1]) != exp_sym[1]:
                    finding("default-like-of-constant", "ctx.constant default like: expected symbol %r, got %r" % (exp_sym, like_obj), step)
                else:
                    judge(step, ("symbol", exp_sym[0], exp_sym[1]), like_obj)
                    judge(step, ("constant", strict_value(spec), num(like_obj)), r, spec)
                    check_returned(step, r, "constant", (v, like_obj), spec, v)
        elif op in ("cexpr", "cpow"):
            if op == "cpow":
                base = objs[st["base"]] if st["base"] < len(objs) else None
                spec = st["exp"]
                if base is None:
                    res.outcomes.append("skip")
                    objs.append(None)
                    continue
                v = value_of(spec)
                thunk = lambda: ctx.pow(base, v)  # noqa
                if spec["t"] == "float" and spec["v"] == _bits64(0.5):
                    exp_kind, exp_args = "sqrt", [base]
                elif spec["t"] == "int" and int(spec["v"]) == 2:
                    exp_kind, exp_args = "square", [base]
                else:
                    exp_kind, exp_args = "pow", [base, ("py", spec, v)]
            else:
                raw = []
                for a in st["args"]:
                    if isinstance(a, dict):
                        v = value_of(a["py"])
                        raw.append(("py", a["py"], v))
                    else:
                        raw.append(objs[a] if a < len(objs) else None)
                if any(a is None for a in raw) or not any(isinstance(a, Expr) for a in raw):
                    res.outcomes.append("skip")
                    objs.append(None)
                    continue
                exp_kind, exp_args = st["kind"], raw
                call_args = [a[2] if isinstance(a, tuple) else a for a in raw]
                if st.get("via") == "operator" and exp_kind in OPERATOR and isinstance(call_args[0], Expr):
                    thunk = lambda: OPERATOR[exp_kind](*call_args)  # noqa
                elif st.get("via") == "operator" and exp_kind in ROPERATOR:
                    thunk = lambda: ROPERATOR[exp_kind](*call_args)  # noqa
                else:
                    thunk = lambda: getattr(ctx, METHOD[exp_kind])(*call_args)  # noqa
            res.constructions += 1
            before = ctx._expression_counter
            try:
                with contextlib.redirect_stdout(io.StringIO()), warnings.catch_warnings():
                    warnings.simplefilter("ignore")
                    r = thunk()
                res.outcomes.append("compound")
            except Exception as e:  # noqa
                res.outcomes.append("EXC:" + type(e).__name__)
                r = None
            res.count("step:" + op)
            sync_new(step, before)
            if r is not None:
                # reference operand of `normalize`: the first Expr operand (for select: among operands[1:])
                pool = exp_args[1:] if exp_kind == "select" else exp_args
                ref = next((a for a in pool if isinstance(a, Expr)), None)
                if r.kind != exp_kind or len(r.operands) != len(exp_args) or ref is None:
                    finding("compound-call-shape:" + exp_kind, "expected kind %s with %d operands, got %s/%d" % (exp_kind, len(exp_args), r.kind, len(r.operands)), step)
                else:
                    nl = oracle_normalize_like(ref)
                    final_ops = []
                    okc = True
                    for want, got in zip(exp_args, r.operands):
                        if isinstance(want, tuple):
                            if nl is None:
                                okc = False
                                break
                            _, spec, v = want
                            if got.kind != "constant":
                                finding("compound-call-shape:" + exp_kind, "python operand %r was not turned into a constant" % (v,), step)
                                okc = False
                                break
                            judge(step, ("constant", strict_value(spec), num(nl)), got, spec)
                            check_returned(step, got, "constant", (v, nl), spec, v)
                            final_ops.append(got)
                        else:
                            final_ops.append(want)
                    if okc:
                        judge(step, (exp_kind,) + tuple(num(a) for a in final_ops), r)
                        check_returned(step, r, exp_kind, tuple(final_ops))
        else:
            raise ValueError(op)
        objs.append(r)

    # Type objects are per-context singletons: equal structure <=> same object (searched clause)
    seen = {}
    for o in keep_exprs:
        if o.kind == "symbol":
            T = o.operands[1]
            ts = real_type_struct(T)
            if ts in seen and seen[ts] is not T:
                finding("type-singleton:structurally-equal-types-are-distinct-objects", repr(ts), len(history))
            seen.setdefault(ts, T)
    # ... and Type.__eq__/__hash__ are structural: equal iff same (kind, param) tree
    tl = list(seen.items())[:12]
    for i, (ts1, T1) in enumerate(tl):
        for ts2, T2 in tl[i:]:
            try:
                eq = bool(T1 == T2)
                heq = hash(T1) == hash(T2)
            except Exception as e:  # noqa
                finding("type-eq:raises", "%r == %r raised %s" % (ts1, ts2, type(e).__name__), len(history))
                continue
            if eq != (ts1 == ts2) or (eq and not heq):
                finding("type-eq:not-structural", "Type %r == Type %r is %r (hash equal: %r)" % (ts1, ts2, eq, heq), len(history))
    # ids dense: intkeys of all objects are exactly 0..counter-1, each once
    ids = [o.intkey for o in ctx._expressions.values()]
    ids = sorted(i if isinstance(i, int) else -1 for i in ids)
    if ids != list(range(ctx._expression_counter)):
        finding("ids-not-dense", "intkeys %r vs counter %d" % (ids[:20], ctx._expression_counter), len(history))
    res.n_objects = len(objnum)
    res.n_registered = ctx._expression_counter
    return res


def _cls(kind):
    """cause signatures name the class of expression, not the individual kind"""
    return kind if kind in ("symbol", "constant") else "operation"


def _same_content(a, b):
    try:
        return enc_data(a) == enc_data(b)
    except TypeError:
        return a is b
