"""C05 worker: runs the REAL printers of the repo under test (first on PYTHONPATH).

Input (JSON on stdin): dict(cases=[case...], mode=..., workdir=..., seed=..., ninputs=...)
  case = dict(id, kind="recipe", recipe={...})                      generated graph
       | dict(id, kind="shipped", target, func, sig, index)          shipped (function, signature)
       | dict(id, kind="history", calls=[...])                       reference-registry history
Output (JSON on stdout): dict(results=[...]) — per case: driver lines (`N`/`P`), the real text or the
exception per debug level, execution comparison against the independent interpreter.
Nothing here looks at the Lean model.
"""

import contextlib
import io
import json
import math
import os
import resource
import signal
import sys
import traceback
import warnings

# hard resource bounds for this process and everything it starts (g++): 3 GB of address space
try:
    resource.setrlimit(resource.RLIMIT_AS, (3 << 30, 3 << 30))
except (ValueError, OSError):
    pass

import numpy

warnings.simplefilter("ignore")
with contextlib.redirect_stdout(io.StringIO()):
    import functional_algorithms as fa
    from functional_algorithms import algorithms, rewrite, targets, utils
    from functional_algorithms import expr as fa_expr
    from functional_algorithms.utils import UNSPECIFIED

from . import c05_interp as interp
from . import c05_exec as cexec

NONE = "~"

# record what the printers hand to the formatters (black may refuse it); forward unchanged
_last_raw = {}
_orig_format_python = utils.format_python
_orig_format_cpp = utils.format_cpp


class TooLarge(Exception):
    """harness limit: the emitted text is too long to be formatted / compiled within the resource bounds"""


MAX_TEXT = 200_000


def _fp(code):
    _last_raw["text"] = code
    if len(code) > MAX_TEXT:
        raise TooLarge(len(code))
    return _orig_format_python(code)


def _fc(code):
    _last_raw["text"] = code
    if len(code) > MAX_TEXT:
        raise TooLarge(len(code))
    if any(os.path.exists(os.path.join(d, "clang-format")) for d in os.environ.get("PATH", "").split(os.pathsep) if d):
        return code  # never start clang-format from the harness (memory); unformatted text is what is compared
    with contextlib.redirect_stdout(io.StringIO()):
        return _orig_format_cpp(code)


class CaseTimeout(Exception):
    pass


def _alarm(signum, frame):
    raise CaseTimeout()


# CPU time, not wall-clock time (independent of machine load)
signal.signal(signal.SIGPROF, _alarm)
CASE_SECONDS = 60


utils.format_python = _fp
utils.format_cpp = _fc


def exc_name(e):
    n = type(e).__name__
    return n


# ----------------------------------------------------------------------------- recipe -> real graph

def value_of(spec):
    k = spec[0]
    if k == "int":
        return int(spec[1])
    if k == "float":
        return float.fromhex(spec[1]) if spec[1] not in ("inf", "-inf", "nan") else float(spec[1])
    if k == "bool":
        return bool(spec[1])
    if k == "np":
        v = _fl(spec[2])
        with numpy.errstate(all="ignore"):
            return getattr(numpy, spec[1])(v)
    if k == "npbits":
        u = {"float16": numpy.uint16, "float32": numpy.uint32, "float64": numpy.uint64}[spec[1]]
        return numpy.array([spec[2]], dtype=u).view(getattr(numpy, spec[1]))[0]
    if k == "complex":
        return complex(_fl(spec[1]), _fl(spec[2]))
    if k == "npc":
        with numpy.errstate(all="ignore"):
            return getattr(numpy, spec[1])(complex(_fl(spec[2]), _fl(spec[3])))
    raise ValueError(spec)


def _fl(h):
    return float(h) if h in ("inf", "-inf", "nan") else float.fromhex(h)


def _bits(v, w):
    dt, u = {16: (numpy.float16, numpy.uint16), 32: (numpy.float32, numpy.uint32), 64: (numpy.float64, numpy.uint64)}[w]
    return int(numpy.array([v], dtype=dt).view(u)[0])


def val_spec(value):
    """value specification handed to the Lean model of `toidentifier` (Models/ConstName.lean); follows the
    isinstance order of the real function (numpy.float64 is a `float`, numpy.complex128 a `complex`)"""
    if isinstance(value, bool):
        return f"@bool:{int(value)}"
    if isinstance(value, (int, numpy.integer)):
        return f"@int:{int(value)}"
    if isinstance(value, float):
        return f"@pyfloat:{_bits(value, 64)}"
    if isinstance(value, complex):
        return f"@pycomplex:{_bits(value.real, 64)}:{_bits(value.imag, 64)}"
    if isinstance(value, str):
        return f"@name:{value}" if value.isidentifier() else None
    if isinstance(value, numpy.floating) and value.dtype.itemsize in (2, 4):
        w = value.dtype.itemsize * 8
        return f"@npfloat:{w}:{_bits(value, w)}"
    if isinstance(value, numpy.complexfloating) and value.dtype.itemsize == 8:
        return f"@npcomplex:32:{_bits(value.real, 32)}:{_bits(value.imag, 32)}"
    return None


def build_impl(recipe, ctx, args):
    vals = []
    refs = recipe.get("refs", {})
    for j, n in enumerate(recipe["nodes"]):
        if n[0] == "arg":
            e = args[n[1]]
        elif n[0] == "const":
            e = ctx.constant(value_of(n[1]), vals[n[2]])
        elif n[0] == "named":
            e = ctx.constant(n[1], vals[n[2]])
        elif n[0] == "op":
            e = fa.Expr(ctx, n[1], tuple(vals[i] for i in n[2]))
        elif n[0] == "item":
            e = ctx.item(vals[n[1]], n[2])
        else:
            raise ValueError(n)
        r = refs.get(str(j))
        if r is not None and n[0] != "arg":
            if r[0] is None:
                e.reference(force=bool(r[1]))
            else:
                e.reference(ref_name=r[0], force=bool(r[1]))
        vals.append(e)
    root = recipe["root"]
    if isinstance(root, list):
        return tuple(vals[i] for i in root)
    return vals[root]


def trace_recipe(recipe, ctx):
    names = [a[0] for a in recipe["args"]]
    src = f"def {recipe['name']}(ctx, {', '.join(names)}):\n    return _impl(_recipe, ctx, [{', '.join(names)}])\n"
    d = dict(_impl=build_impl, _recipe=recipe)
    exec(src, d)
    fn = d[recipe["name"]]
    return ctx.trace(fn, *[f"{a[0]}:{a[1]}" for a in recipe["args"]])


def trace_shipped(target, func, sig, index, ctx):
    g = ctx.trace(getattr(algorithms, func), *sig)
    return g


# ----------------------------------------------------------------------------- description for the model

class Describer:
    """Flattens Expr DAGs of one context into `N` lines (operands first) for Drivers/Printer.lean."""

    def __init__(self, target_name):
        self.tname = target_name
        self.target = getattr(targets, target_name)
        self.printer = self.target.Printer({}, debug=0)
        self.ids = {}
        self.exprs = []
        self.lines = []
        self.unsupported = None

    def typ(self, e):
        try:
            return self.printer.get_type(e), None
        except Exception as ex:  # noqa: BLE001
            return "", exc_name(ex)

    def node(self, e):
        k = id(e)
        if k in self.ids:
            return self.ids[k]
        ops = [o for o in e.operands if isinstance(o, fa.Expr)]
        op_ids = [self.node(o) for o in ops]
        kind = e.kind
        text, ident, like_ty, typeof0, named, pre = "", "", "", "", False, None
        pargs = []
        P = self.printer
        if kind == "symbol":
            text = str(e.operands[0])
        elif kind == "constant":
            value, like = e.operands
            if isinstance(value, fa.Expr):
                self.unsupported = "constant with an alt-context value"
            named = isinstance(value, str)
            text = str(value)
            # the MODEL derives the identifier from the value (Models/ConstName.lean); value classes it does
            # not cover fall back to the real function's answer
            ident = val_spec(value)
            if ident is None:
                try:
                    ident = fa_expr.toidentifier(value)
                except Exception as ex:  # noqa: BLE001
                    ident = "!" + exc_name(ex)
            if named and P.constant_to_target.get(value, NotImplemented) is not NotImplemented:
                t, err = self.typ(e)
                pre = pre or err
            if self.tname != "python":
                like_ty, err = self.typ(like)
                pre = pre or err
        elif kind == "apply":
            pass
        else:
            pargs = op_ids
            tmpl = P.kind_to_target.get(kind, NotImplemented)
            if tmpl is NotImplemented:
                pre = "NotImplementedError"
            elif callable(tmpl):
                nm = getattr(tmpl, "__name__", "")
                if nm in ("upcast_func", "downcast_func"):
                    like_ty, err = self.typ(e.operands[0])
                    pre = pre or err
                    if err is None:
                        tab = dict(upcast_func=UP, downcast_func=DOWN)[nm]
                        if like_ty not in tab:
                            pre = "KeyError"
                elif nm != "list_func":
                    self.unsupported = f"callable row {nm}"
            else:
                for o in e.operands:
                    typeof0, err = self.typ(o)
                    if err is not None:
                        pre = pre or err
                        break
        ty, ty_err = self.typ(e) if kind != "apply" else ("", None)
        try:
            no_check = e.get_type().kind == "list" if kind != "apply" else False
        except Exception:  # noqa: BLE001
            no_check = False
        rn = e.props.get("reference_name", None)
        i = len(self.exprs)
        self.ids[k] = i
        self.exprs.append(e)
        fields = ["N", str(i), kind, ",".join(map(str, pargs)), ",".join(map(str, op_ids)),
                  rn if isinstance(rn, str) else NONE, "1" if e.props.get("force_ref", False) else "0",
                  str(e.props.get("origin", "")), str(e.intkey), text, ident, ty, like_ty, typeof0,
                  "1" if named else "0", pre or NONE, ty_err or NONE, "1" if no_check else "0"]
        for f in fields:
            if "\t" in f or "\n" in f or "\x1f" in f:
                self.unsupported = "control character in a field"
        self.lines.append("\t".join(fields))
        return i

    def print_line(self, graph, debug):
        """`P` line for an apply graph (its nodes must have been declared by `node`)."""
        P = self.printer
        root = self.node(graph)
        name = graph.props.get("name", graph.operands[0])
        if not isinstance(name, str):
            name = name.operands[0]
        args, arg_err = [], None
        for a in graph.operands[1:-1]:
            if a.kind != "symbol":
                self.unsupported = "list argument"
                continue
            try:
                if self.tname == "python":
                    ty = self.target.type_to_target[str(a.operands[1])]
                else:
                    ty = P.get_type(a)
            except Exception as ex:  # noqa: BLE001
                ty, arg_err = "", arg_err or exc_name(ex)
            args.append(f"{self.ids[id(a)]}|{a.operands[0]}|{ty}")
        body = graph.operands[-1]
        ret_err = None
        try:
            if self.tname == "python":
                ret_ty = self.target.type_to_target[str(body.get_type())]
            else:
                ret_ty = P.get_type(body)
        except Exception as ex:  # noqa: BLE001
            ret_ty, ret_err = "", exc_name(ex)
        items = NONE
        if self.tname == "numpy" and debug >= 1:
            try:
                bt = body.get_type()
                if bt.kind == "list":
                    items = ";".join(t.__name__ for t in bt.asdtype())
            except Exception as ex:  # noqa: BLE001
                ret_err = ret_err or exc_name(ex)
        return "\t".join(["P", self.tname, str(debug), str(root), name, ";".join(args) or NONE, ret_ty, items,
                          arg_err or NONE, ret_err or NONE])


UP = {"numpy.float16": "numpy.float32", "numpy.float32": "numpy.float64", "numpy.float64": "numpy.float128",
      "numpy.complex32": "numpy.complex64", "numpy.complex64": "numpy.complex128", "numpy.complex128": "numpy.complex256",
      "numpy.int8": "numpy.int16", "numpy.int16": "numpy.int32", "numpy.int32": "numpy.int64"}
DOWN = {"numpy.float32": "numpy.float16", "numpy.float64": "numpy.float32", "numpy.float128": "numpy.float64",
        "numpy.complex64": "numpy.complex32", "numpy.complex128": "numpy.complex64", "numpy.complex256": "numpy.complex128",
        "numpy.int16": "numpy.int8", "numpy.int32": "numpy.int16", "numpy.int64": "numpy.int32"}


# ----------------------------------------------------------------------------- printing with the real code

def real_print(graph, target, debug, **kw):
    """(text, exception name, raw text handed to the formatter when the formatter refused it)"""
    _last_raw.pop("text", None)
    try:
        with contextlib.redirect_stdout(io.StringIO()), warnings.catch_warnings(record=True) as wlist:
            warnings.simplefilter("always")
            text = graph.tostring(target, debug=debug, **kw)
        _last_raw["warned"] = [str(w.message) for w in wlist if "does not implement" in str(w.message)]
        return text, None, None
    except Exception as ex:  # noqa: BLE001
        _last_raw["warned"] = []
        return None, exc_name(ex), _last_raw.get("text")


def typed_value_key(c):
    """(declared type, value after conversion to it) of a constant expression"""
    value, like = c.operands
    try:
        t = str(like.get_type())
    except Exception:  # noqa: BLE001
        t = "?"  # the type of `like` cannot be computed (such a constant cannot be printed either)
    if isinstance(value, str):
        value = {"posinf": math.inf, "neginf": -math.inf, "nan": math.nan}.get(value, value)
        if isinstance(value, str):
            return (t, "name", value)
    try:
        dt = interp.NP_DTYPE.get(t)
        with numpy.errstate(all="ignore"):
            v = dt(value) if dt is not None else (float(value) if isinstance(value, (int, float, numpy.floating, numpy.integer)) else value)
        return (t,) + tuple(interp.canon(v))
    except Exception:  # noqa: BLE001
        return (t, "repr", repr(value))


def complex_str_roundtrip_fails(value):
    """`str(complex)` (what the printers emit) read back as an expression differs from the value in the
    sign of a zero part: (-0+0.1j) -> +0.0 real, (1-0j) -> +0.0 imag, -2j -> -0.0 real"""
    if not isinstance(value, (complex, numpy.complexfloating)):
        return False
    try:
        with numpy.errstate(all="ignore"):
            back = type(value)(eval(str(value), {"inf": math.inf, "nan": math.nan, "infj": complex(0, math.inf), "nanj": complex(0, math.nan)}))
        return interp.canon(back) != interp.canon(value)
    except Exception:  # noqa: BLE001
        return False


def narrow_np_constant(c):
    """numpy scalar constant whose own dtype is narrower than the type of `like` and whose shortest repr
    (`str(value)`, what the printers emit) denotes another value in the wider type"""
    value, like = c.operands
    if not isinstance(value, (numpy.floating, numpy.complexfloating)) or isinstance(value, (float, complex)):
        return False
    try:
        dt = interp.NP_DTYPE.get(str(like.get_type()))
        if dt is None or numpy.dtype(dt).itemsize <= value.dtype.itemsize:
            return False
        with numpy.errstate(all="ignore"):
            return interp.canon(dt(value)) != interp.canon(dt(complex(str(value)) if isinstance(value, numpy.complexfloating) else float(str(value))))
    except Exception:  # noqa: BLE001
        return False


def zero_sign_blind(key):
    """typed value key with the sign bit of every zero part cleared"""
    out = []
    for x in key:
        if isinstance(x, int) and x in (1 << 15, 1 << 31, 1 << 63):
            x = 0
        out.append(x)
    return tuple(out)


def padded_idents_differ(es):
    """would the identifiers differ if every byte were printed as two hex digits?"""
    def padded(v):
        parts = [v.real, v.imag] if isinstance(v, numpy.complexfloating) else [v]
        return tuple(p.tobytes()[::-1].hex() for p in parts)
    return len({padded(x.operands[0]) for x in es}) == len(es)


def alias_report(graph):
    """no_alias evaluated on the real objects: distinct expressions reachable through printed
    operands that carry the same reference name."""
    seen, by_ref = {}, {}
    stack = [graph]
    while stack:
        e = stack.pop()
        if id(e) in seen:
            continue
        seen[id(e)] = e
        try:
            r = e.ref
        except Exception:  # noqa: BLE001
            r = None
        if isinstance(r, str):
            by_ref.setdefault(r, []).append(e)
        if e.kind == "constant":
            continue
        for o in e.operands:
            if isinstance(o, fa.Expr):
                stack.append(o)
    out = []
    for r, es in by_ref.items():
        if len(es) > 1:
            kinds = sorted(x.kind for x in es)
            if all(k == "constant" for k in kinds):
                keys = {typed_value_key(x) for x in es}
                likes = {k[0] for k in keys}
                if len(keys) == 1:
                    cls = "benign-same-typed-value"
                elif len(likes) > 1:
                    cls = "constant-name-ignores-like-type"
                elif len({zero_sign_blind(k) for k in keys}) == 1:
                    cls = "constant-name-ignores-sign-of-zero"
                elif all(isinstance(x.operands[0], (numpy.floating, numpy.complexfloating)) and
                         not isinstance(x.operands[0], (float, complex)) for x in es) and padded_idents_differ(es):
                    cls = "constant-name-numpy-hex-bytes-not-zero-padded"
                else:
                    cls = "constant-different-values"
            elif any(isinstance(x.props.get("reference_name"), str) for x in es):
                cls = "registered-name-shared" if all(isinstance(x.props.get("reference_name"), str) for x in es) else "auto-name-equals-registered-name"
            else:
                cls = "auto-name-join-ambiguity"
            rec = dict(ref=r, kinds=kinds, cls=cls)
            if all(k == "constant" for k in kinds):
                rec["typed_values"] = sorted(repr(typed_value_key(x)) for x in es)
            out.append(rec)
    return out


def prepare_graph(case, recipe_or_none, ctx, tname, target, res):
    """trace + rewrite; returns (graph, fname) or None after filling res['status']"""
    if recipe_or_none is not None:
        recipe = recipe_or_none
        try:
            with contextlib.redirect_stdout(io.StringIO()):
                g0 = trace_recipe(recipe, ctx)
        except Exception as ex:  # noqa: BLE001
            res["status"] = "unbuildable"
            res["error"] = f"{exc_name(ex)}: {ex}"[:300]
            return None
        fname = recipe["name"]
    else:
        try:
            with contextlib.redirect_stdout(io.StringIO()):
                g0 = trace_shipped(tname, case["func"], case["sig"], case["index"], ctx)
        except NotImplementedError as ex:
            res["status"] = "skipped"
            res["error"] = str(ex)[:200]
            return None
        fname = f"{case['func']}_{case['index']}"
    try:
        with contextlib.redirect_stdout(io.StringIO()):
            g = g0.rewrite(target)
            if recipe_or_none is None:
                g = g.rewrite(rewrite)
                g.props.update(name=fname)
            elif recipe_or_none.get("rewrite"):
                g = g.rewrite(rewrite)
    except NotImplementedError as ex:
        res["status"] = "rejected"
        res["error"] = str(ex)[:200]
        return None
    except Exception as ex:  # noqa: BLE001
        res["status"] = "rewrite-error"
        res["error"] = f"{exc_name(ex)}: {ex}"[:300]
        return None
    return g, fname


def run_case(case, cfg):
    """one case under a wall-clock and memory bound; a graph whose emitted text is too large / too slow
    to handle is reported as skipped, never as a violation"""
    signal.setitimer(signal.ITIMER_PROF, CASE_SECONDS)
    try:
        res = run_case_(case, cfg)
    except (CaseTimeout, MemoryError, RecursionError) as ex:
        res = dict(id=case["id"], kind=case["kind"], status="skipped-too-large", error=type(ex).__name__,
                   target=(case.get("recipe") or {}).get("target", case.get("target")))
    finally:
        signal.setitimer(signal.ITIMER_PROF, 0)
    if any(p.get("error") in ("TooLarge", "MemoryError", "RecursionError") for p in res.get("prints", [])):
        res = dict(id=case["id"], kind=case["kind"], status="skipped-too-large", error="TooLarge", target=res.get("target"))
    return res


def run_idents(case, res):
    """`toidentifier` on the real code for a family of values + collisions among them (no_alias side
    condition evaluated on the real function, independent of the model)"""
    lines, out, seen = [], [], {}
    collisions = []
    for spec in case["values"]:
        v = value_of(spec)
        vs = val_spec(v)
        if vs is None:
            continue
        try:
            r = fa_expr.toidentifier(v)
        except Exception as ex:  # noqa: BLE001
            r = "!" + exc_name(ex)
        lines.append("I\t" + vs)
        out.append(r)
        if r.startswith("!"):
            continue
        # typed value: class + bit patterns (vs encodes exactly that)
        # value class (for numpy scalars: with the width — equal values of different dtypes legitimately share the
        # value part of the name; that the name ignores the type is the separate `like`-type finding)
        cls_key = ":".join(vs.split(":")[:2]) if vs.startswith("@np") else vs.split(":")[0]
        other, ospec = seen.setdefault((cls_key, r), (vs, spec))
        if other != vs:
            a, b = other.split(":")[1:], vs.split(":")[1:]
            zero = all(x == y or {int(x), int(y)} <= {0, 1 << 15, 1 << 31, 1 << 63} for x, y in zip(a, b))
            collisions.append(dict(ident=r, values=[other, vs], specs=[ospec, spec],
                                   cls="sign-of-zero" if zero else ("numpy-hex-bytes" if vs.startswith("@np") else "other")))
    res["status"] = "idents"
    res["ilines"] = lines
    res["iout"] = out
    res["collisions"] = collisions
    return res


def run_case_(case, cfg):
    res = dict(id=case["id"], kind=case["kind"])
    try:
        if case["kind"] == "history":
            return run_history(case, res)
        if case["kind"] == "idents":
            return run_idents(case, res)
        recipe = case.get("recipe") if case["kind"] == "recipe" else None
        tname = recipe["target"] if recipe is not None else case["target"]
        res["target"] = tname
        target = getattr(targets, tname)
        ctx = fa.Context(paths=[algorithms])
        pre = None
        d = Describer(tname)
        pmap = []
        if case.get("prelude") is not None:
            # another function traced and printed FIRST in the same context (reference names persist);
            # it is described before the main function is traced (tracing may set props on shared nodes)
            pr = prepare_graph(case, case["prelude"], ctx, tname, target, dict())
            if pr is not None:
                text, err, raw = real_print(pr[0], target, 0)
                pre = (pr[0], dict(debug=0, text=text, error=err, raw=raw))
                d.node(pre[0])
                pmap.append([len(d.lines), "pre"])
                d.lines.append(d.print_line(pre[0], 0))
                res["pre_print"] = pre[1]
        got = prepare_graph(case, recipe, ctx, tname, target, res)
        if got is None:
            return res
        g, fname = got
        res["fname"] = fname
        res["status"] = "printed"
        prints = []
        for dbg in cfg.get("debugs", [0, 1]):
            text, err, raw = real_print(g, target, dbg)
            prints.append(dict(debug=dbg, text=text, error=err, raw=raw))
            if _last_raw.get("warned"):
                # the printer says "constant_to_target does not implement <name>": the target does not accept the graph
                res["warned"] = _last_raw["warned"][0][:200]
        res["prints"] = prints
        # description for the model (after printing, so that describing cannot disturb the printer)
        d.node(g)
        for k, p in enumerate(prints):
            pmap.append([len(d.lines), k])
            d.lines.append(d.print_line(g, p["debug"]))
        res["dlines"] = d.lines
        res["pmap"] = pmap
        res["unsupported"] = d.unsupported
        res["nnodes"] = len(d.exprs)
        res["kinds"] = sorted({e.kind for e in d.exprs})
        res["alias"] = alias_report(g)
        res["negzero_complex_constant"] = any(
            e.kind == "constant" and complex_str_roundtrip_fails(e.operands[0]) for e in d.exprs)
        res["narrow_np_constant"] = any(narrow_np_constant(e) for e in d.exprs if e.kind == "constant")
        res["nan_constant"] = any(e.kind == "constant" and isinstance(e.operands[0], float) and e.operands[0] != e.operands[0] for e in d.exprs)
        if cfg.get("search", True) and not res.get("warned"):
            res["exec"] = cexec.prepare(case, g, target, tname, fname, prints, cfg)
        return res
    except (CaseTimeout, MemoryError, RecursionError):
        raise
    except Exception:  # noqa: BLE001
        res["status"] = "worker-exception"
        res["error"] = traceback.format_exc()[-1500:]
        return res


def run_history(case, res):
    """Registration history on a real Context.
    case: exprs=[(scope, ref_name)], scopes=[function name of scope k>=1], order=[expression index, ...]
    Expression k is the symbol `s<k>` created at top level (scope 0) or inside the k-th `ctx.call`
    (so that its `origin` is the genuine stack name), with `.reference(ref_name=...)`;
    `order` is the sequence of `.ref` calls."""
    ctx = fa.Context(paths=[algorithms])
    exprs = {}

    def make(scope):
        def body(ctx_):
            for k, (sc, name) in enumerate(case["exprs"]):
                if sc == scope:
                    exprs[k] = ctx_.symbol(f"s{k}", "float64").reference(ref_name=name)
            return None
        return body

    make(0)(ctx)
    for k, fname in enumerate(case["scopes"], 1):
        f = make(k)
        f.__name__ = fname
        ctx.call(f, ())
    out, lines, overwrites = [], [], []
    for e in case["order"]:
        x = exprs[e]
        before = dict(ctx._ref_values)
        had = isinstance(x.props.get("ref"), str)
        try:
            r = x.ref
            out.append(r if isinstance(r, str) else "ERR returns-Expr")
        except Exception as ex:  # noqa: BLE001
            r = None
            out.append("ERR " + exc_name(ex))
        origin, name = x.props["origin"], x.props["reference_name"]
        lines.append("\t".join(["H", str(e), origin, name]))
        # no_alias on the real registry: a name handed out although it belongs to another expression
        if isinstance(r, str) and not had and r in before and before[r] is not x:
            overwrites.append(dict(name=r, origin=origin, asked=name,
                                   unchecked_0=bool(origin) and r == f"_{origin}{name}_0_" and (origin + name) not in before))
    res["overwrites"] = overwrites
    res["status"] = "history"
    res["hlines"] = lines
    res["hout"] = out
    # no_alias on the real registry: two expressions with the same ref
    refs = {}
    for e, x in exprs.items():
        r = x.props.get("ref")
        if isinstance(r, str):
            refs.setdefault(r, []).append(e)
    res["shared"] = {r: sorted(es) for r, es in refs.items() if len(es) > 1}
    return res


def main():
    job = json.load(sys.stdin)
    cfg = job.get("cfg", {})
    try:  # a primitive stuck in C code (bignum `**`) cannot be interrupted by SIGALRM: bound the CPU time
        lim = int(cfg.get("cpu_seconds", 900))
        resource.setrlimit(resource.RLIMIT_CPU, (lim, lim + 30))
    except (ValueError, OSError):
        pass
    results = []
    prog = None
    if cfg.get("workdir"):
        os.makedirs(cfg["workdir"], exist_ok=True)
        prog = os.path.join(cfg["workdir"], f"progress_{cfg.get('tag', 'w')}.txt")
    for case in job["cases"]:
        if prog:
            with open(prog, "w") as f:  # which case is running (diagnosis of a stuck worker)
                f.write(case["id"] + "\n")
        results.append(run_case(case, cfg))
    if cfg.get("search", True):
        cexec.finish(results, cfg)
    json.dump(dict(results=results), sys.stdout)


if __name__ == "__main__":
    main()
