"""C05 — type-directed random graph recipes with DAG sharing (pure Python, no repo import).

A recipe is JSON:
  target   "python" | "numpy" | "cpp"
  name     function name
  args     [[name, type], ...]                      type as in `ctx.trace("x:float32")`
  nodes    [["arg", i] | ["const", valuespec, like] | ["named", cname, like] | ["op", kind, [operands]]]
           (operands / like are indices of earlier nodes)
  root     index, or a list of indices (list-valued function: numpy only)
  refs     {index: [ref_name | None, force]}        explicit `.reference(ref_name=, force=)`
  stream   generator stream that produced it
valuespec: ["int", n] | ["float", hex] | ["bool", b] | ["np", dtype, hex-of-float64-value]
           | ["complex", hex(re), hex(im)]                 Python complex
           | ["npc", "complex64"|"complex128", hex(re), hex(im)]   numpy complex scalar
  rewrite  (optional) true: the `rewrite` module is applied after the target rewrite, as for shipped functions
"""

FLOATS = {"python": ["float"], "numpy": ["float32", "float64", "float16"], "cpp": ["float32", "float64"]}
INTS = {"python": ["integer"], "numpy": ["integer64", "integer32"], "cpp": ["integer64", "integer32"]}
COMPLEX_OF = {"float": "complex", "float32": "complex64", "float64": "complex128"}
PART_OF = {v: k for k, v in COMPLEX_OF.items()}
BITS = {"float16": 16, "float32": 32, "float64": 64, "float": 64, "integer32": 32, "integer64": 64, "integer": 64}

F_UNARY = ["negative", "positive", "absolute", "sqrt", "floor", "ceil", "sign", "sin", "cos", "tan", "sinh", "cosh", "tanh",
           "asin", "acos", "atan", "asinh", "acosh", "atanh", "exp", "expm1", "exp2", "log", "log1p", "log2", "log10",
           "truncate", "round", "square"]
F_BINARY = ["add", "subtract", "multiply", "divide", "maximum", "minimum", "atan2", "copysign", "hypot", "pow", "remainder",
            "floor_divide", "nextafter"]
COMPARE = ["lt", "le", "gt", "ge", "eq", "ne"]
B_BINARY = ["logical_and", "logical_or", "logical_xor"]
I_BINARY = ["bitwise_and", "bitwise_or", "bitwise_xor", "bitwise_left_shift", "bitwise_right_shift"]
I_ARITH = ["add", "subtract", "multiply", "maximum", "minimum"]
OTHER = ["logical_not", "bitwise_invert", "is_finite", "select", "complex", "real", "imag", "conjugate", "upcast", "downcast",
         "list", "item"]
KNOWN = set(F_UNARY + F_BINARY + COMPARE + B_BINARY + I_BINARY + OTHER)

FLOAT_VALUES = [0.0, -0.0, 1.0, 2.0, 0.5, -1.0, 0.1, 3.141592653589793, 1e10, 1e-10, 1.5, -2.5, 0.3333333333333333, 7.0, 1e30,
                float("inf"), float("-inf"), 100.0, 0.7071067811865476]
INT_VALUES = [0, 1, 2, -1, 7, 3]
COMPLEX_PARTS = [0.0, 1.0, 2.0, 3.0, -2.0, 0.5, -0.5, 0.1, -1.0, 1e10]


def fhex(x):
    return float(x).hex()


class Gen:
    """One recipe.  `avoid` switches off constructs with a known finding (bulk stream)."""

    def __init__(self, rng, target, declared, consts, name, size, must=None, mixed=False, avoid=True, stream="bulk"):
        self.rng, self.target, self.declared, self.consts = rng, target, list(declared), list(consts)
        self.name, self.size, self.must, self.avoid, self.stream = name, size, must, avoid, stream
        self.nodes, self.types, self.refs = [], [], {}
        self.const_like = {}  # value key -> like type (to keep equal-valued constants on one type in the bulk stream)
        fl = FLOATS[target]
        self.ftypes = [rng.choice(fl[:2])]
        if mixed and len(fl) > 1:
            self.ftypes = fl[:2]
        elif target == "numpy" and rng.random() < 0.08:
            self.ftypes = ["float16"]
        self.itype = rng.choice(INTS[target])
        self.args = []

    # ---------------------------------------------------------------- pool
    def add(self, node, typ):
        self.nodes.append(node)
        self.types.append(typ)
        return len(self.nodes) - 1

    def of_type(self, pred):
        return [i for i, t in enumerate(self.types) if pred(t)]

    def pick(self, pred, make=None):
        c = self.of_type(pred)
        if c and (make is None or self.rng.random() < 0.8):
            # bias towards recent nodes, but allow any (sharing)
            k = len(c)
            j = min(k - 1, int(abs(self.rng.gauss(0, max(1.0, k / 2.5)))))
            return c[k - 1 - j]
        if make is not None:
            return make()
        return None

    def is_f(self, t):
        return t in BITS and t.startswith("float")

    def is_i(self, t):
        return t.startswith("integer")

    def is_c(self, t):
        return t.startswith("complex")

    def fmax(self, a, b):
        return a if BITS[a] >= BITS[b] else b

    def new_float(self, t=None):
        t = t or self.rng.choice(self.ftypes)
        likes = self.of_type(lambda u: u == t)
        if not likes:
            return self.new_arg(t)
        if len(self.ftypes) > 1:
            # `make_constant` normalises `like` down to a leaf (expr.normalize_like): in a mixed-dtype graph the
            # constant would silently take the type of that leaf, not of the node chosen here; use a leaf directly
            leaf = [j for j in likes if self.nodes[j][0] == "arg"]
            if not leaf:
                return self.new_arg(t)
            likes = leaf
        like = self.rng.choice(likes)
        r = self.rng.random()
        if r < 0.12 and self.consts:
            names = [c for c in self.consts if not (self.target == "cpp" and c in ("pi", "nan") and self.avoid and t == "float32")]
            if names:
                return self.add(["named", self.rng.choice(names), like], t)
        v = self.rng.choice(FLOAT_VALUES)
        if self.avoid and self.target == "python" and abs(v) == float("inf"):
            v = 1e30  # inf/nan values print as bare names on the python target (known finding)
        isint = v == v and abs(v) != float("inf") and v == int(v)
        r = self.rng.random()
        if self.target == "python":
            # integer-valued constants of float type are a known finding (printed as int literals)
            spec = ["int", int(v)] if (isint and not self.avoid and r < 0.3) else ["float", fhex(v)]
        elif r < 0.3:
            spec = ["np", t, fhex(v)]
        elif isint and r < 0.6:
            spec = ["int", int(v)]
        else:
            spec = ["float", fhex(v)]
        key = fhex(v)  # the reference name of a constant depends on the value only: keep one `like` type per value
        if self.avoid:
            if self.const_like.setdefault(key, t) != t:
                return self.pick(lambda u: u == t) if self.of_type(lambda u: u == t) else self.new_arg(t)
        return self.add(["const", spec, like], t)

    def new_arg(self, t):
        if len(self.args) >= 4:
            c = self.of_type(lambda u: u == t)
            if c:
                return self.rng.choice(c)
        nm = "xyzwuv"[len(self.args)] if len(self.args) < 6 else f"a{len(self.args)}"
        self.args.append([nm, t])
        return self.add(["arg", len(self.args) - 1], t)

    def f(self, t=None):
        t = t or self.rng.choice(self.ftypes)
        return self.pick(lambda u: u == t, lambda: self.new_float(t))

    def anyf(self):
        return self.pick(self.is_f, lambda: self.new_float())

    def b(self):
        def make():
            a = self.anyf()
            return self.add(["op", self.rng.choice([k for k in COMPARE if k in self.declared] or ["lt"]), [a, self.f(self.types[a])]], "boolean")
        return self.pick(lambda u: u == "boolean", make)

    def i(self):
        def make():
            likes = self.of_type(lambda u: u == self.itype)
            if not likes or self.rng.random() < 0.3:
                return self.new_arg(self.itype)
            return self.add(["const", ["int", self.rng.choice(INT_VALUES)], self.rng.choice(likes)], self.itype)
        return self.pick(lambda u: u == self.itype, make)

    def new_complex_const(self, like):
        """complex-valued constant (Python complex or numpy complex scalar) like an existing complex node.
        Parts are finite and free of -0.0: `str(complex(-0.0, 0.1))` is `(-0+0.1j)`, which reads back with a +0.0
        part (known finding, like inf/nan parts); real-valued -0.0 constants ARE drawn (since /repo a45d4e7)."""
        ct = self.types[like]
        re, im = self.rng.choice(COMPLEX_PARTS), self.rng.choice(COMPLEX_PARTS)
        if self.target == "python" or self.rng.random() < 0.5:
            spec = ["complex", fhex(re), fhex(im)]
        else:
            spec = ["npc", self.rng.choice(["complex64", "complex128"]), fhex(re), fhex(im)]
        key = "c" + fhex(re) + fhex(im)
        if self.avoid and self.const_like.setdefault(key, ct) != ct:
            return like
        return self.add(["const", spec, like], ct)

    def c(self):
        def make():
            ts = [t for t in self.ftypes if t in COMPLEX_OF]
            if not ts:
                return None
            t = self.rng.choice(ts)
            have = self.of_type(lambda u: u == COMPLEX_OF[t])
            if have and self.target != "cpp" and self.rng.random() < 0.6:
                return self.new_complex_const(self.rng.choice(have))
            if self.rng.random() < 0.4 and len(self.args) < 3:
                return self.new_arg(COMPLEX_OF[t])
            return self.add(["op", "complex", [self.f(t), self.f(t)]], COMPLEX_OF[t])
        return self.pick(self.is_c, make)

    # ---------------------------------------------------------------- one operation of a given kind
    def emit(self, kind):
        rng, tg = self.rng, self.target
        if kind in COMPARE:
            if rng.random() < 0.1 and kind in ("eq", "ne") and self.of_type(self.is_c):
                a = self.c()
                return self.add(["op", kind, [a, self.pick(lambda u: u == self.types[a])]], "boolean")
            if rng.random() < 0.15:
                a = self.i()
                return self.add(["op", kind, [a, self.i()]], "boolean")
            a = self.anyf()
            return self.add(["op", kind, [a, self.f(self.types[a]) if rng.random() < 0.8 else self.anyf()]], "boolean")
        if kind in B_BINARY:
            return self.add(["op", kind, [self.b(), self.b()]], "boolean")
        if kind == "logical_not":
            return self.add(["op", kind, [self.b()]], "boolean")
        if kind == "is_finite":
            return self.add(["op", kind, [self.anyf()]], "boolean")
        if kind in I_BINARY:
            return self.add(["op", kind, [self.i(), self.i()]], self.itype)
        if kind == "bitwise_invert":
            return self.add(["op", kind, [self.i()]], self.itype)
        if kind == "select":
            r = rng.random()
            if r < 0.1:
                a = self.i()
                return self.add(["op", kind, [self.b(), a, self.i()]], self.itype)
            a = self.anyf()
            b2 = self.f(self.types[a]) if rng.random() < 0.85 else self.anyf()
            return self.add(["op", kind, [self.b(), a, b2]], self.fmax(self.types[a], self.types[b2]))
        if kind == "complex":
            ts = [t for t in self.ftypes if t in COMPLEX_OF]
            if not ts:
                return None
            t = rng.choice(ts)
            return self.add(["op", kind, [self.f(t), self.f(t)]], COMPLEX_OF[t])
        if kind in ("real", "imag"):
            a = self.c()
            if a is None:
                return None
            return self.add(["op", kind, [a]], PART_OF[self.types[a]])
        if kind == "conjugate":
            a = self.c()
            if a is None:
                return None
            return self.add(["op", kind, [a]], self.types[a])
        if kind == "upcast":
            c = self.of_type(lambda u: u in ("float16", "float32"))
            if not c:
                return None
            a = rng.choice(c)
            return self.add(["op", kind, [a]], {"float16": "float32", "float32": "float64"}[self.types[a]])
        if kind == "downcast":
            c = self.of_type(lambda u: u in ("float32", "float64"))
            if not c:
                return None
            a = rng.choice(c)
            return self.add(["op", kind, [a]], {"float32": "float16", "float64": "float32"}[self.types[a]])
        if kind == "item":
            a = self.anyf()
            b2 = self.f(self.types[a])
            lst = self.add(["op", "list", [a, b2]], "list")
            k = rng.randrange(2)
            return self.add(["item", lst, k], self.types[a])
        if kind == "list":
            return None  # produced as the root of list-valued functions
        if kind in F_UNARY:
            if kind == "absolute" and rng.random() < 0.2 and self.of_type(self.is_c):
                a = self.c()
                return self.add(["op", kind, [a]], PART_OF[self.types[a]])
            if kind in ("negative", "absolute") and rng.random() < 0.1:
                return self.add(["op", kind, [self.i()]], self.itype)
            a = self.anyf()
            if self.avoid and tg == "python" and kind == "sign":
                # bare holes: keep the operand atomic in the bulk stream
                cands = [j for j in self.of_type(self.is_f) if self.nodes[j][0] in ("arg",)]
                a = rng.choice(cands) if cands else self.new_arg(self.ftypes[0])
            return self.add(["op", kind, [a]], self.types[a])
        if kind in F_BINARY:
            if rng.random() < 0.12 and self.of_type(self.is_c) and kind in ("add", "subtract", "multiply", "divide") and tg != "cpp":
                a = self.c()
                return self.add(["op", kind, [a, self.pick(lambda u: u == self.types[a])]], self.types[a])
            if rng.random() < 0.1 and kind in I_ARITH + ["remainder"]:
                return self.add(["op", kind, [self.i(), self.i()]], self.itype)
            a = self.anyf()
            same = rng.random() < 0.85 or (self.avoid and tg == "cpp" and kind in ("maximum", "minimum"))
            b2 = self.f(self.types[a]) if same else self.anyf()
            if kind == "pow" and tg == "python" and self.mayint(a) and self.mayint(b2):
                # math.floor/ceil/trunc return Python ints: int ** int is exact bignum arithmetic and may not
                # terminate in practice (floor(1e308) ** 10**10); give the power a genuine float exponent
                b2 = self.add(["const", ["float", fhex(rng.choice([0.5, 1.5, 2.5, -0.5]))], a], self.types[a])
            return self.add(["op", kind, [a, b2]], self.fmax(self.types[a], self.types[b2]))
        return None

    def mayint(self, j, depth=0):
        """python target: may node j evaluate to a Python int (so that `**` would be bignum arithmetic)?"""
        n = self.nodes[j]
        if n[0] == "arg":
            return self.types[j].startswith("integer")
        if n[0] == "const":
            return n[1][0] == "int"
        if n[0] != "op" or depth > 60:
            return False
        k, ops = n[1], n[2]
        if k in ("floor", "ceil", "truncate", "round"):
            return True
        if k in ("select", "maximum", "minimum"):
            return any(self.mayint(o, depth + 1) for o in ops[-2:])
        if k in ("add", "subtract", "multiply", "negative", "positive", "absolute", "remainder", "floor_divide", "pow", "square", "sign"):
            return all(self.mayint(o, depth + 1) for o in ops)
        return False

    def build(self):
        rng = self.rng
        for t in self.ftypes:
            self.new_arg(t)
        if self.target != "cpp" and self.ftypes[0] in COMPLEX_OF and rng.random() < 0.2:
            self.new_arg(COMPLEX_OF[self.ftypes[0]])  # complex argument: complex constants can be `like` it
        avoid_kinds = set()  # (kinds with a known finding would be listed here; none at present)
        kinds = [k for k in self.declared if k in KNOWN and k not in avoid_kinds]
        extra = [k for k in ("square", "hypot") if k not in self.declared]
        todo = []
        if self.must and self.must in KNOWN and self.must not in avoid_kinds:
            todo.append(self.must)
        while len(todo) < self.size:
            todo.append(rng.choice(kinds + extra) if rng.random() < 0.93 else rng.choice(F_BINARY[:4]))
        rng.shuffle(todo)
        last = None
        cap = 40 if self.target == "cpp" else 120
        for k in todo:
            if len(self.nodes) >= cap - 6:
                break
            if self.avoid and self.target == "cpp" and k == "remainder":
                r = self.add(["op", k, [self.i(), self.i()]], self.itype)
            else:
                r = self.emit(k)
            if r is not None:
                last = r
        # result: combine a few unused values so that most of the DAG is live
        used = set()
        for n in self.nodes:
            if n[0] == "op":
                used.update(n[2])
            elif n[0] == "item":
                used.add(n[1])
        live = [j for j in range(len(self.nodes)) if j not in used and self.nodes[j][0] in ("op", "item") and self.types[j] != "list"]
        fl = [j for j in live if self.is_f(self.types[j])]
        root = last if last is not None and self.types[last] != "list" else 0
        if len(fl) >= 2 and "add" in self.declared:
            acc = fl[0]
            for j in fl[1:4]:
                acc = self.add(["op", "add", [acc, j]], self.fmax(self.types[acc], self.types[j]))
            root = acc
        elif fl:
            root = fl[-1]
        elif live:
            root = live[-1]
        roots = root
        if self.target == "numpy" and "list" in self.declared and rng.random() < 0.06:
            others = [j for j in live if j != root and self.types[j] != "list"][:2]
            if others:
                roots = [root] + others
        # explicit references on a few shared / unshared nodes
        if rng.random() < 0.35:
            cands = [j for j, n in enumerate(self.nodes) if n[0] in ("op", "const")]
            for j in rng.sample(cands, min(len(cands), rng.choice([1, 1, 2, 3]))):
                nm = rng.choice([f"t{j}", f"v{j}", "tmp%d" % j, None])
                self.refs[str(j)] = [nm, rng.random() < 0.6]
        return dict(target=self.target, name=self.name, args=self.args, nodes=self.nodes, root=roots, refs=self.refs,
                    stream=self.stream, ftypes=self.ftypes)


def generate(rng, target, declared, consts, n, prefix="g"):
    """n bulk recipes; recipe j is forced to contain kind `declared[j % len]` so every kind is exercised."""
    out = []
    dk = [k for k in declared if k in KNOWN]
    for j in range(n):
        size = rng.choice([2, 3, 4, 6, 8, 12, 20]) if rng.random() < 0.9 else rng.choice([28, 36] if target == "cpp" else [30, 45])
        g = Gen(rng, target, declared, consts, f"{prefix}{j}", size, must=dk[j % len(dk)] if dk else None,
                mixed=(rng.random() < 0.2), avoid=True)
        out.append(g.build())
    return out


# ------------------------------------------------------------------------- directed recipes

def op(kind, *a):
    return ["op", kind, list(a)]


def minimal(target, kind, ftype=None, name=None):
    """Smallest graph using `kind` (for the directed search when a template row breaks)."""
    ft = ftype or FLOATS[target][0]
    it = INTS[target][0]
    nm = name or f"min_{kind}"
    A = lambda *ts: [["xyzw"[i], t] for i, t in enumerate(ts)]
    arg = lambda i: ["arg", i]
    if kind in COMPARE or kind in F_BINARY:
        return dict(target=target, name=nm, args=A(ft, ft), nodes=[arg(0), arg(1), op(kind, 0, 1)], root=2, refs={}, stream="minimal")
    if kind in F_UNARY or kind == "is_finite":
        return dict(target=target, name=nm, args=A(ft), nodes=[arg(0), op(kind, 0)], root=1, refs={}, stream="minimal")
    if kind in B_BINARY:
        return dict(target=target, name=nm, args=A(ft, ft), nodes=[arg(0), arg(1), op("lt", 0, 1), op("gt", 0, 1), op(kind, 2, 3)], root=4, refs={}, stream="minimal")
    if kind == "logical_not":
        return dict(target=target, name=nm, args=A(ft, ft), nodes=[arg(0), arg(1), op("lt", 0, 1), op(kind, 2)], root=3, refs={}, stream="minimal")
    if kind in I_BINARY:
        return dict(target=target, name=nm, args=A(it, it), nodes=[arg(0), arg(1), op(kind, 0, 1)], root=2, refs={}, stream="minimal")
    if kind == "bitwise_invert":
        return dict(target=target, name=nm, args=A(it), nodes=[arg(0), op(kind, 0)], root=1, refs={}, stream="minimal")
    if kind == "select":
        return dict(target=target, name=nm, args=A(ft, ft), nodes=[arg(0), arg(1), op("lt", 0, 1), op(kind, 2, 0, 1)], root=3, refs={}, stream="minimal")
    if kind == "complex" and ft in COMPLEX_OF:
        return dict(target=target, name=nm, args=A(ft, ft), nodes=[arg(0), arg(1), op(kind, 0, 1)], root=2, refs={}, stream="minimal")
    if kind in ("real", "imag", "conjugate") and ft in COMPLEX_OF:
        return dict(target=target, name=nm, args=A(COMPLEX_OF[ft]), nodes=[arg(0), op(kind, 0)], root=1, refs={}, stream="minimal")
    if kind == "upcast":
        return dict(target=target, name=nm, args=A("float32"), nodes=[arg(0), op(kind, 0)], root=1, refs={}, stream="minimal")
    if kind == "downcast":
        return dict(target=target, name=nm, args=A("float64"), nodes=[arg(0), op(kind, 0)], root=1, refs={}, stream="minimal")
    if kind == "item":
        return dict(target=target, name=nm, args=A(ft, ft), nodes=[arg(0), arg(1), op("list", 0, 1), ["item", 2, 1]], root=3, refs={}, stream="minimal")
    if kind == "list":
        return dict(target=target, name=nm, args=A(ft, ft), nodes=[arg(0), arg(1)], root=[0, 1], refs={}, stream="minimal")
    return None


def known_finding_recipes():
    """One deliberately constructed graph per known finding (they are excluded from the bulk stream)."""
    arg = lambda i: ["arg", i]
    R = []
    R.append(dict(minimal("cpp", "remainder", "float32"), name="kf_cpp_remainder_float", stream="kf"))
    R.append(dict(target="python", name="kf_py_sign_select", args=[["x", "float"], ["y", "float"]],
                  nodes=[arg(0), arg(1), op("lt", 0, 1), op("select", 2, 0, 1), op("sign", 3)], root=4, refs={}, stream="kf"))
    R.append(dict(target="cpp", name="kf_cpp_max_literal", args=[["x", "float32"]],
                  nodes=[arg(0), ["const", ["float", fhex(0.5)], 0], op("maximum", 0, 1)], root=2, refs={}, stream="kf"))
    R.append(dict(target="cpp", name="kf_cpp_double_literal", args=[["x", "float32"]],
                  nodes=[arg(0), ["const", ["float", fhex(0.1)], 0], op("multiply", 0, 1)], root=2, refs={}, stream="kf"))
    R.append(dict(target="cpp", name="kf_cpp_pi_double", args=[["x", "float32"]],
                  nodes=[arg(0), ["named", "pi", 0], op("multiply", 0, 1)], root=2, refs={}, stream="kf"))
    R.append(dict(target="cpp", name="kf_cpp_max_mixed", args=[["x", "float64"], ["y", "float32"]],
                  nodes=[arg(0), arg(1), op("maximum", 0, 1)], root=2, refs={}, stream="kf"))
    R.append(dict(target="python", name="kf_py_inf_literal", args=[["x", "float"]],
                  nodes=[arg(0), ["const", ["float", "inf"], 0], op("minimum", 0, 1)], root=2, refs={}, stream="kf"))
    R.append(dict(target="numpy", name="kf_np_list_bool_debug1", args=[["x", "float64"]],
                  nodes=[arg(0), op("lt", 0, 0), op("negative", 0)], root=[2, 1], refs={}, stream="kf"))
    R.append(dict(target="numpy", name="kf_np_copysign_mixed", args=[["x", "float32"], ["y", "float64"]],
                  nodes=[arg(0), arg(1), op("copysign", 0, 1), op("exp2", 2)], root=3, refs={"2": ["tmp2", True]}, stream="kf"))
    R.append(dict(target="numpy", name="kf_np_const_alias", args=[["x", "float32"], ["y", "float64"]],
                  nodes=[arg(0), arg(1), ["const", ["float", fhex(0.1)], 0], ["const", ["float", fhex(0.1)], 1],
                         op("multiply", 0, 2), op("multiply", 1, 3), op("add", 4, 5)], root=6, refs={}, stream="kf"))
    R.append(dict(target="cpp", name="kf_cpp_const_alias", args=[["x", "float64"], ["y", "float32"]],
                  nodes=[arg(0), arg(1), ["const", ["float", fhex(0.1)], 0], ["const", ["float", fhex(0.1)], 1],
                         op("multiply", 0, 2), op("multiply", 2, 0), op("multiply", 1, 3), op("multiply", 3, 1),
                         op("add", 4, 5), op("add", 6, 7), op("add", 8, 9)], root=10, refs={}, stream="kf"))
    R.append(dict(target="numpy", name="kf_np_auto_name_join", args=[["x", "float64"], ["y_z", "float64"], ["x_y", "float64"], ["z", "float64"]],
                  nodes=[arg(0), arg(1), arg(2), arg(3), op("add", 0, 1), op("add", 2, 3), op("multiply", 4, 4),
                         op("multiply", 5, 5), op("subtract", 6, 7)], root=8, refs={}, stream="kf"))
    # str(complex) does not round-trip a negative zero part: (-0+0.1j) reads back as (0+0.1j), (1-0j) as (1+0j)
    R.append(dict(target="python", name="kf_py_complex_negzero_part", args=[["z", "complex"], ["x", "float"]],
                  nodes=[arg(0), arg(1), ["const", ["complex", fhex(-0.0), fhex(0.1)], 0], op("real", 2), op("copysign", 1, 3)],
                  root=4, refs={}, stream="kf"))
    R.append(dict(target="numpy", name="kf_np_complex_negzero_part", args=[["z", "complex128"], ["x", "float64"]],
                  nodes=[arg(0), arg(1), ["const", ["complex", fhex(1.0), fhex(-0.0)], 0], op("imag", 2), op("copysign", 1, 3)],
                  root=4, refs={}, stream="kf"))
    # complex constants with an infinite part print as `(1+infj)`
    R.append(dict(target="numpy", name="kf_np_complex_inf_part", args=[["z", "complex128"]],
                  nodes=[arg(0), ["const", ["complex", fhex(1.0), "inf"], 0], op("add", 0, 1)], root=2, refs={}, stream="kf"))
    # cpp prints a complex constant as the GNU imaginary literal `(1+2j)` (a `__complex__ double`)
    R.append(dict(target="cpp", name="kf_cpp_complex_literal", args=[["z", "complex128"], ["x", "float64"]],
                  nodes=[arg(0), arg(1), ["const", ["complex", fhex(1.0), fhex(2.0)], 0], op("imag", 2), op("add", 1, 3)],
                  root=4, refs={}, stream="kf"))
    R.append(dict(target="python", name="kf_py_int_literal", args=[["x", "float"]],
                  nodes=[arg(0), ["const", ["int", 0], 0], op("negative", 1), ["const", ["float", fhex(1.0)], 0], op("copysign", 3, 2),
                         op("multiply", 0, 4)], root=5, refs={}, stream="kf"))
    return R


def complex_constant_recipes():
    """Directed stream `cconst`: two or more complex constants that agree in one part — same real part and
    different imaginary parts (1j / 2j, 1+2j / 1+3j, a value and its conjugate), same imaginary part and
    different real parts, equal values (same or different value class, same or different `like`) — each used
    twice so that each gets a variable; python complex, numpy complex64 / complex128; with and without the
    `rewrite` module.  A reference name that ignores one part makes two of them share a variable."""
    arg = lambda i: ["arg", i]
    fam = [
        ("re_1j_2j", (0.0, 1.0), (0.0, 2.0)),
        ("re_12_13", (1.0, 2.0), (1.0, 3.0)),
        ("conj", (1.0, 2.0), (1.0, -2.0)),
        ("conj_frac", (0.1, 0.5), (0.1, -0.5)),
        ("im_12_32", (1.0, 2.0), (3.0, 2.0)),
        ("im_frac", (0.5, 1.0), (-0.5, 1.0)),
        ("equal", (1.0, 2.0), (1.0, 2.0)),
        ("swap", (1.0, 2.0), (2.0, 1.0)),
    ]
    out = []

    def spec(cls, v):
        if cls == "py":
            return ["complex", fhex(v[0]), fhex(v[1])]
        return ["npc", cls, fhex(v[0]), fhex(v[1])]

    for target, ctypes, classes in (("python", ["complex"], ["py"]),
                                    ("numpy", ["complex64", "complex128"], ["py", "complex64", "complex128"])):
        for ct in ctypes:
            for name, v1, v2 in fam:
                for c1 in classes:
                    for c2 in classes:
                        if name != "equal" and c1 != c2:
                            continue
                        for rw in (False, True):
                            for two_likes in ((False, True) if name == "equal" else (False,)):
                                args = [["z", ct], ["w", ct]]
                                nodes = [arg(0), arg(1), ["const", spec(c1, v1), 0], ["const", spec(c2, v2), 1 if two_likes else 0],
                                         op("multiply", 0, 2), op("multiply", 1, 3), op("add", 4, 5), op("multiply", 2, 3),
                                         op("subtract", 6, 7), op("multiply", 3, 3), op("add", 8, 9)]
                                nm = f"cc_{target}_{ct}_{name}_{c1}_{c2}_{int(rw)}{int(two_likes)}"
                                out.append(dict(target=target, name=nm, args=args, nodes=nodes, root=10, refs={}, stream="cconst",
                                                rewrite=rw))
    return out


def ident_values(rng, n):
    """value specs for the `toidentifier` correspondence / collision search"""
    parts = [0.0, -0.0, 1.0, -1.0, 2.0, 3.0, 0.5, 0.1, -2.5, 1e10, 1e30, 2.0 ** 63, 2.0 ** 64, -2.0 ** 63, 5e-324, 1.7976931348623157e308,
             float("inf"), float("-inf"), float("nan"), 12345678.0, 0.3333333333333333]
    vals = [["int", i] for i in (0, 1, -1, 7, -300, 2 ** 70, -2 ** 70)] + [["bool", True], ["bool", False]]
    vals += [["float", fhex(v) if v == v and abs(v) != float("inf") else repr(v)] for v in parts]
    for dt in ("float16", "float32", "float64"):
        vals += [["np", dt, fhex(v) if v == v and abs(v) != float("inf") else repr(v)] for v in parts]
    # byte patterns that differ only in where a zero nibble sits
    vals += [["npbits", "float32", b] for b in (0x3f011000, 0x3f110000, 0x3f100100, 0x3f010010, 0x3f001100, 0x40490fdb, 0x00000001, 0x7f7fffff)]
    vals += [["npbits", "float16", b] for b in (0x3c01, 0x3c10, 0x3555, 0x0001, 0x7bff)]
    small = [0.0, -0.0, 1.0, 2.0, 3.0, -2.0, 0.5, 0.1, float("inf")]
    for re in small:
        for im in small:
            h = lambda v: fhex(v) if abs(v) != float("inf") else repr(v)
            vals.append(["complex", h(re), h(im)])
            if rng.random() < 0.5:
                vals.append(["npc", rng.choice(["complex64", "complex128"]), h(re), h(im)])
    while len(vals) < n:
        r = rng.random()
        if r < 0.4:
            vals.append(["float", fhex(rng.choice([rng.uniform(-10, 10), float(rng.randint(-10 ** 6, 10 ** 6)), rng.random() * 10.0 ** rng.randint(-30, 30)]))])
        elif r < 0.7:
            vals.append(["npbits", "float32", rng.getrandbits(32)])
        elif r < 0.8:
            vals.append(["npbits", "float16", rng.getrandbits(16)])
        else:
            vals.append(["complex", fhex(rng.choice(small[:8])), fhex(rng.uniform(-3, 3))])
    return vals
