"""Writes MANIFEST.json from the per-property metadata (python -m fav.manifest)."""
import importlib
import json
import os

ROOT = os.path.dirname(os.path.dirname(os.path.abspath(__file__)))
PROPS = [f"C{i:02d}" for i in range(1, 20)]
BASELINE = "cd /repo && /venv/bin/python -m pytest -ra -q -p no:cacheprovider --timeout=900 --continue-on-collection-errors"


def build():
    checks, na = [], []
    for p in PROPS:
        try:
            mod = importlib.import_module(f"fav.props.{p.lower()}")
            if not all(hasattr(mod, a) for a in ("LEVEL_TEXT", "LEVEL_NOTE", "TECHNIQUE", "run")):
                raise ModuleNotFoundError(p)
        except Exception:
            na.append(dict(property_id=p, reason="check not built yet in this round (planned in DESIGN.md section 6); not claimed"))
            continue
        checks.append(dict(
            property_id=p,
            quick_cmd=f"./check {p} --tier quick",
            thorough_cmd=f"./check {p} --tier thorough",
            evidence_file=f"evidence/{p}.json",
            replay_cmd_template=f"./check {p} --replay {{path}}",
            engine="lean4-proof+tie",
            level_claimed=dict(category="proof", text=mod.LEVEL_TEXT, design_ref=f"DESIGN.md section 6 ({p})"),
            level_note=mod.LEVEL_NOTE,
            technique=mod.TECHNIQUE,
        ))
    return dict(
        version=1,
        setup_cmd="./check --setup",
        hooks=dict(guard="PEARU_FUNCTIONAL_ALGORITHMS_VERIF", enable="no hooks are needed: every check observes public API results of /repo's working tree (imported in-process by /venv/bin/python)",
                   baseline_off_cmd=BASELINE, source_commits=[], add_only=True),
        engines=[
            dict(name="lean4-proof+tie", path="lean/", serves_properties=[c["property_id"] for c in checks],
                 kind_free_text="Lean 4 theorems over a model (lean/FAVerif/Props), model tied to /repo on every run by translator-regenerated Lean files and/or a line-protocol correspondence check (fav/props), directed failing-input search on the real code; verdict protocol in fav/runner.py"),
        ],
        checks=checks,
        not_applicable=na,
        notes="See DESIGN.md. known_findings.json lists fixed/known findings. Exit 2 = infrastructure failure (never a violation).",
    )


if __name__ == "__main__":
    with open(os.path.join(ROOT, "MANIFEST.json"), "w") as f:
        json.dump(build(), f, indent=1)
        f.write("\n")
    print("MANIFEST.json written")
