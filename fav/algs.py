"""Shipped algorithms (functional_algorithms.algorithms) as regenerated programs.

For every documented function and dtype:  trace with the repo's tracer -> expand every complex
sub-operation (and hypot/square/kernels) through the package's own definitions (the mechanism
of targets.base.modifier_base, applied type-directedly) -> the repo's own rewriter ->
  * `prog`  : canonical IR program (JSON twin + Lean literal), and
  * `func`  : the repo's own generated NumPy implementation of the SAME expanded graph
              (targets.numpy.as_function), which is the implementation under test.
"""

import contextlib
import io
import warnings

import numpy

from . import fpx
from .translate import ir

COMPLEX = ["absolute", "acos", "acosh", "asin", "asinh", "atan", "atanh", "exp", "log", "log2", "log10", "log1p", "sqrt", "square"]
REAL = ["absolute", "acos", "acosh", "asin", "asinh", "square"]
CDT = {"complex64": "float32", "complex128": "float64"}
_CACHE = {}


def build(name, dtype):
    """dtype in complex64/complex128/float32/float64; name may be 'hypot' (two real args). -> dict(prog, func, fmt, nin)"""
    key = (name, dtype)
    if key in _CACHE:
        return _CACHE[key]
    import functional_algorithms as fa
    from functional_algorithms import algorithms, targets

    with warnings.catch_warnings(), contextlib.redirect_stdout(io.StringIO()):
        warnings.simplefilter("ignore")
        ctx = fa.Context(paths=[algorithms])
        nargs = 2 if name == "hypot" else 1
        graph = ctx.trace(getattr(algorithms, name), *([getattr(numpy, dtype)] * nargs))
        g2 = graph.rewrite(ir.full_expansion_modifier(algorithms))
        g3 = g2.rewrite(targets.numpy, fa.rewrite)
        fmt = CDT.get(dtype, dtype)
        prog = ir.prog_of_apply(g3, fmt)
        func = targets.numpy.as_function(g3, debug=0)
    res = dict(prog=prog, func=func, fmt=fmt, complex=dtype in CDT, name=name, dtype=dtype)
    _CACHE[key] = res
    return res


def run_func(entry, cols):
    """Run the generated NumPy implementation on arrays of bit patterns (one list per real input).
    Returns list of tuples of canonical output patterns (re, im) or (value,)."""
    fmt = entry["fmt"]
    arrs = [fpx.arr_from_bits(c, fmt) for c in cols]
    out = []
    f = entry["func"]
    with warnings.catch_warnings(), numpy.errstate(all="ignore"):
        warnings.simplefilter("ignore")
        n = len(cols[0])
        if entry["complex"]:
            cdt = numpy.complex64 if fmt == "float32" else numpy.complex128
            for i in range(n):
                z = numpy.array([arrs[0][i], arrs[1][i]], dtype=fpx.NPF[fmt]).view(cdt)[0]
                r = f(z)
                if isinstance(r, numpy.complexfloating):
                    parts = numpy.array([r], dtype=cdt).view(fpx.NPF[fmt])
                    re, im = parts[0], parts[1]
                else:  # real-valued result (absolute)
                    re, im = fpx.NPF[fmt](r), None
                o = [ir.canon_bits(ir.bits_of(re, fmt), fmt)]
                if im is not None:
                    o.append(ir.canon_bits(ir.bits_of(im, fmt), fmt))
                out.append(tuple(o))
        else:
            for i in range(n):
                r = f(*[a[i] for a in arrs])
                out.append((ir.canon_bits(ir.bits_of(fpx.NPF[fmt](r), fmt), fmt),))
    return out


def thresholds(prog):
    """Region boundaries of the program: the values of CONSTANT sub-expressions (literal constants and everything computed
    from constants only, e.g. sqrt(largest)/8 or safe_max*1e-6) that are compared against something or selected on."""
    nodes = prog["nodes"]
    cmp_ops = {"lt", "le", "gt", "ge", "eq", "ne", "pymax", "pymin", "npmax", "npmin"}
    is_const = []
    for n in nodes:
        if n["op"] == "const":
            is_const.append(True)
        elif n["op"] in ("input", "bconst") or n["op"] in cmp_ops or n["op"] in ("and", "or", "not", "xor", "select", "isfinite"):
            is_const.append(False)
        else:
            is_const.append(bool(n["args"]) and all(is_const[a] for a in n["args"]))
    want = []
    for n in nodes:
        if n["op"] in cmp_ops:
            for a in n["args"]:
                if is_const[a] and a not in want:
                    want.append(a)
    used = set(nodes[a]["imm"] for a in want if nodes[a]["op"] == "const")
    derived = [a for a in want if nodes[a]["op"] != "const"]
    if derived:
        try:
            nin = 1 + max([n["imm"] for n in nodes if n["op"] == "input"] or [0])
            ft = fpx.NPF[prog["fmt"]]
            vals = eval_prog_vec(dict(prog, outs=derived), [numpy.ones(1, dtype=ft) for _ in range(nin)])
            for v in vals:
                used.add(ir.canon_bits(ir.bits_of(v[0], prog["fmt"]), prog["fmt"]) if not numpy.isnan(v[0]) else 0)
        except Exception:  # noqa: BLE001 - a constant sub-expression the vector interpreter cannot evaluate: literal constants only
            pass
    return sorted(t for t in used if isinstance(t, int))


def eval_prog_vec(prog, cols):
    """Vectorised independent interpreter of an IR program on NumPy arrays (one array of values per input).
    Returns list of output arrays."""
    fmt = prog["fmt"]
    ft = fpx.NPF[fmt]
    env = []
    n = len(cols[0])
    with warnings.catch_warnings(), numpy.errstate(all="ignore"):
        warnings.simplefilter("ignore")
        for nd in prog["nodes"]:
            op = nd["op"]
            a = [env[i] for i in nd["args"]]
            if op == "input":
                v = cols[nd["imm"]]
            elif op == "const":
                v = numpy.full(n, ir.float_of(nd["imm"], fmt), dtype=ft)
            elif op == "bconst":
                v = numpy.full(n, bool(nd["imm"]))
            elif op == "add":
                v = a[0] + a[1]
            elif op == "sub":
                v = a[0] - a[1]
            elif op == "mul":
                v = a[0] * a[1]
            elif op == "div":
                v = a[0] / a[1]
            elif op == "neg":
                v = -a[0]
            elif op == "abs":
                v = numpy.abs(a[0])
            elif op == "sqrt":
                v = numpy.sqrt(a[0])
            elif op == "pymax":
                v = numpy.where(a[1] > a[0], a[1], a[0])
            elif op == "pymin":
                v = numpy.where(a[1] < a[0], a[1], a[0])
            elif op in ("lt", "le", "gt", "ge", "eq", "ne"):
                v = {"lt": numpy.less, "le": numpy.less_equal, "gt": numpy.greater, "ge": numpy.greater_equal, "eq": numpy.equal,
                     "ne": numpy.not_equal}[op](a[0], a[1])
            elif op == "and":
                v = numpy.logical_and(a[0], a[1])
            elif op == "or":
                v = numpy.logical_or(a[0], a[1])
            elif op == "xor":
                v = numpy.logical_xor(a[0], a[1])
            elif op == "not":
                v = numpy.logical_not(a[0])
            elif op == "select":
                v = numpy.where(a[0], a[1], a[2])
            elif op == "isfinite":
                v = numpy.isfinite(a[0])
            elif op.startswith("libm:"):
                v = ir.NP_LIBM[op[5:]](*a).astype(ft)
            else:
                raise ValueError(op)
            env.append(v)
    return [env[k] for k in prog["outs"]]
