"""Validation of lean/FAVerif/FP/Soft.lean against the machine's IEEE arithmetic (NumPy).

`run(ctx, n)` generates directed operand tuples for float16/32/64 (ties, binade edges,
subnormal results, overflow edge, signed zeros, inf/NaN, random), evaluates every primitive
with NumPy and with the Lean driver and compares bit patterns.  Returns list of mismatches.
"""

import warnings

import numpy

DT = {16: (numpy.float16, numpy.uint16, 11, 5), 32: (numpy.float32, numpy.uint32, 24, 8), 64: (numpy.float64, numpy.uint64, 53, 11)}
BIN = ["add", "sub", "mul", "div", "min", "max", "lt", "le", "eq", "ne"]
UN = ["sqrt", "neg", "abs", "nextup", "nextdown"]


def special_patterns(w):
    _, _, p, ew = DT[w]
    fb = p - 1
    sign = 1 << (w - 1)
    inf = ((1 << ew) - 1) << fb
    base = [0, 1, 2, 3, (1 << fb) - 1, 1 << fb, (1 << fb) + 1, inf - 1, inf - 2, inf, inf + 1, inf + (1 << (fb - 1)),
            ((1 << (ew - 1)) - 1) << fb, (((1 << (ew - 1)) - 1) << fb) + 1, (((1 << (ew - 1)) - 1) << fb) - 1,
            ((1 << (ew - 1))) << fb, (((1 << (ew - 1)) - 1 + p) << fb), (((1 << (ew - 1)) - 1 + p // 2) << fb) + 1]
    return base + [b | sign for b in base]


def rand_pattern(rng, w):
    _, _, p, ew = DT[w]
    fb = p - 1
    r = rng.random()
    if r < 0.08:
        return rng.choice(special_patterns(w))
    sign = rng.getrandbits(1) << (w - 1)
    if r < 0.25:  # subnormal / tiny
        return sign | rng.getrandbits(fb) | (rng.randrange(0, 3) << fb)
    if r < 0.4:  # near overflow
        return sign | rng.getrandbits(fb) | (((1 << ew) - 1 - rng.randrange(1, 4)) << fb)
    if r < 0.7:  # moderate exponent, structured mantissa (few bits set / trailing ones)
        e = (1 << (ew - 1)) - 1 + rng.randrange(-p - 2, p + 3)
        e = max(1, min((1 << ew) - 2, e))
        kind = rng.randrange(4)
        if kind == 0:
            m = 0
        elif kind == 1:
            m = (1 << fb) - 1 - rng.getrandbits(2)
        elif kind == 2:
            m = (1 << rng.randrange(fb)) | rng.getrandbits(2)
        else:
            m = rng.getrandbits(fb) & ~((1 << rng.randrange(fb)) - 1)
        return sign | (e << fb) | (m & ((1 << fb) - 1))
    return rng.getrandbits(w) if rng.random() < 0.5 else sign | rng.getrandbits(fb) | (rng.randrange(1, (1 << ew) - 1) << fb)


def np_eval(w, op, args):
    ft, ut, _, _ = DT[w]
    a = [numpy.array([x], dtype=ut).view(ft)[0] for x in args]
    with warnings.catch_warnings(), numpy.errstate(all="ignore"):
        warnings.simplefilter("ignore")
        if op == "add":
            r = a[0] + a[1]
        elif op == "sub":
            r = a[0] - a[1]
        elif op == "mul":
            r = a[0] * a[1]
        elif op == "div":
            r = a[0] / a[1]
        elif op == "min":
            r = numpy.minimum(a[0], a[1])
        elif op == "max":
            r = numpy.maximum(a[0], a[1])
        elif op == "sqrt":
            r = numpy.sqrt(a[0])
        elif op == "neg":
            r = -a[0]
        elif op == "abs":
            r = abs(a[0])
        elif op == "nextup":
            r = numpy.nextafter(a[0], ft(numpy.inf))
        elif op == "nextdown":
            r = numpy.nextafter(a[0], ft(-numpy.inf))
        elif op in ("lt", "le", "eq", "ne"):
            return int({"lt": a[0] < a[1], "le": a[0] <= a[1], "eq": a[0] == a[1], "ne": a[0] != a[1]}[op])
        elif op.startswith("to"):
            r = DT[int(op[2:])][0](a[0])
            w = int(op[2:])
            ft, ut = DT[w][0], DT[w][1]
        else:
            raise ValueError(op)
    r = ft(r)
    bits = int(numpy.array([r], dtype=ft).view(ut)[0])
    if numpy.isnan(r):
        return "nan"
    return bits


def canon(w, out_w, s):
    """canonicalise a Lean result: every NaN pattern -> 'nan'"""
    if s in ("0", "1") and False:
        return s
    try:
        v = int(s)
    except ValueError:
        return s
    _, _, p, ew = DT[out_w]
    fb = p - 1
    if (v >> fb) & ((1 << ew) - 1) == (1 << ew) - 1 and v & ((1 << fb) - 1):
        return "nan"
    return v


def run(ctx, n):
    rng = ctx.rng
    cases = []
    for w in (16, 32, 64):
        sp = special_patterns(w)
        for op in BIN:
            for a in sp[:: 3 if op in ("lt", "le", "eq", "ne") else 1]:
                for b in sp[::2]:
                    cases.append((w, op, (a, b)))
        for op in UN:
            for a in sp:
                cases.append((w, op, (a,)))
        for tw in (16, 32, 64):
            if tw != w:
                for a in sp:
                    cases.append((w, f"to{tw}", (a,)))
    for _ in range(n):
        w = rng.choice((16, 32, 64))
        r = rng.random()
        if r < 0.75:
            op = rng.choice(BIN[:4] if rng.random() < 0.8 else BIN)
            a = rand_pattern(rng, w)
            b = rand_pattern(rng, w)
            if rng.random() < 0.15:
                # nearby magnitudes (cancellation, ties)
                b = (a ^ (1 << (w - 1))) + rng.randrange(-3, 4) if rng.random() < 0.5 else a + rng.randrange(-3, 4)
                b = max(0, min((1 << w) - 1, b))
            cases.append((w, op, (a, b)))
        elif r < 0.9:
            cases.append((w, rng.choice(UN), (rand_pattern(rng, w),)))
        else:
            tw = rng.choice([t for t in (16, 32, 64) if t != w])
            cases.append((w, f"to{tw}", (rand_pattern(rng, w),)))
    return run_cases(ctx, cases)


def run_cases(ctx, cases):
    """compare the softfloat (Lean driver) with NumPy on explicit (width, op, operand patterns) cases"""
    lines = [f"{w} {op} {' '.join(map(str, args))}" for w, op, args in cases]
    out = ctx.lean.driver("Soft", lines)
    bad = []
    for (w, op, args), o in zip(cases, out):
        out_w = int(op[2:]) if op.startswith("to") else w
        exp = np_eval(w, op, args)
        got = canon(w, out_w, o) if op not in ("lt", "le", "eq", "ne") else int(o)
        if op in ("min", "max") and exp != got and {exp, got} == {0, 1 << (w - 1)}:
            continue  # min/max of zeros of opposite sign: platform-dependent (SSE returns the second operand); not modelled
        if exp != got:
            bad.append(dict(fmt=w, op=op, args=args, numpy=exp, soft=got))
    return len(cases), bad
