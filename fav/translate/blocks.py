"""Registry of floating-point building blocks traced through the repo's own `fa.Context`."""
import warnings

import numpy

from . import ir

DTYPES = {"float16": numpy.float16, "float32": numpy.float32, "float64": numpy.float64}
SUFFIX = {"float16": "f16", "float32": "f32", "float64": "f64"}


def trace_fpa(fname, nargs, fmt, module=None, **kw):
    import functional_algorithms as fa
    from functional_algorithms import floating_point_algorithms as fpa

    mod = module or fpa
    with warnings.catch_warnings():
        warnings.simplefilter("ignore")
        ctx = fa.Context(paths=[fpa])
        names = list("xyzw")[:nargs]
        syms = [ctx.symbol(n, fmt) for n in names]
        res = getattr(mod, fname)(ctx, *syms, dtype=DTYPES[fmt], **kw)
        outs = list(res) if isinstance(res, (tuple, list)) else [res]
        return ir.Builder(fmt, names).program(outs)


def run_fpa_eager(fname, args_bits, fmt, module=None, **kw):
    """Execute the real building block eagerly (NumpyContext, no tracer) on bit patterns."""
    from functional_algorithms import floating_point_algorithms as fpa
    from functional_algorithms import utils

    mod = module or fpa
    nctx = utils.NumpyContext(DTYPES[fmt])
    args = [ir.float_of(b, fmt) for b in args_bits]
    with warnings.catch_warnings(), numpy.errstate(all="ignore"):
        warnings.simplefilter("ignore")
        res = getattr(mod, fname)(nctx, *args, **kw)
    outs = list(res) if isinstance(res, (tuple, list)) else [res]
    r = []
    for v in outs:
        if isinstance(v, (bool, numpy.bool_)):
            r.append(int(bool(v)))
        else:
            v = DTYPES[fmt](v) if not isinstance(v, DTYPES[fmt]) else v
            r.append(ir.canon_bits(ir.bits_of(v, fmt), fmt))
    return r
