"""Translator: traced expression graphs of /repo  ->  IR programs (JSON twin + Lean literal).

The front end uses the repo's own tracer (`fa.Context`), its own expansion mechanism
(`ctx.call(getattr(algorithms, kind), operands)`, as `targets.base.modifier_base` does) and its
own NumPy printer for the value of constants.  Programs are emitted in a canonical form
(operands of commutative primitives ordered by a structural digest; nodes in canonical DFS
post-order), so that a harmless operand swap in the source does not change the program.

`eval_prog_numpy` is an independent interpreter of the JSON twin on NumPy scalars; it also
records every transcendental call (the oracle table handed to the Lean evaluator).
"""

import hashlib
import warnings

import numpy

FMT = {"float16": (11, 5, 16), "float32": (24, 8, 32), "float64": (53, 11, 64)}
NPF = {"float16": numpy.float16, "float32": numpy.float32, "float64": numpy.float64}
NPU = {"float16": numpy.uint16, "float32": numpy.uint32, "float64": numpy.uint64}
COMPLEX_PART = {"complex64": "float32", "complex128": "float64", "complex32": "float16"}

BIN = dict(add="add", subtract="sub", multiply="mul", divide="div", maximum="pymax", minimum="pymin",
           lt="lt", le="le", gt="gt", ge="ge", eq="eq", ne="ne", logical_and="and", logical_or="or", logical_xor="xor")
UN = dict(negative="neg", absolute="abs", sqrt="sqrt", logical_not="not", is_finite="isfinite")
COMMUTATIVE = {"add", "mul", "eq", "ne", "and", "or", "xor"}
LIBM = {"log", "log1p", "log2", "log10", "exp", "expm1", "exp2", "sin", "cos", "tan", "sinh", "cosh", "tanh", "asin", "acos", "atan",
        "asinh", "acosh", "atanh", "atan2", "hypot", "sign", "floor", "ceil", "truncate", "copysign", "nextafter", "pow", "remainder"}
NP_LIBM = dict(log=numpy.log, log1p=numpy.log1p, log2=numpy.log2, log10=numpy.log10, exp=numpy.exp, expm1=numpy.expm1, exp2=numpy.exp2,
               sin=numpy.sin, cos=numpy.cos, tan=numpy.tan, sinh=numpy.sinh, cosh=numpy.cosh, tanh=numpy.tanh, asin=numpy.arcsin,
               acos=numpy.arccos, atan=numpy.arctan, asinh=numpy.arcsinh, acosh=numpy.arccosh, atanh=numpy.arctanh, atan2=numpy.arctan2,
               hypot=numpy.hypot, sign=numpy.sign, floor=numpy.floor, ceil=numpy.ceil, truncate=numpy.trunc, copysign=numpy.copysign,
               nextafter=numpy.nextafter, pow=numpy.power, remainder=numpy.remainder)


class Untranslatable(Exception):
    pass


def is_cplx(e):
    """Expr.is_complex, total (kinds for which the repo does not implement it are real/boolean valued)."""
    try:
        return bool(e.is_complex)
    except NotImplementedError:
        return False


def bits_of(x, fmt):
    return int(numpy.array([x], dtype=NPF[fmt]).view(NPU[fmt])[0])


def float_of(b, fmt):
    return numpy.array([b], dtype=NPU[fmt]).view(NPF[fmt])[0]


def canon_bits(b, fmt):
    p, ew, w = FMT[fmt]
    fb = p - 1
    if (b >> fb) & ((1 << ew) - 1) == (1 << ew) - 1 and b & ((1 << fb) - 1):
        return "nan"
    return b


# --------------------------------------------------------------------------- expansion

def full_expansion_modifier(algorithms, native_real=None):
    """Modifier that expands every node the NumPy arithmetic core cannot do on *real* scalars
    through the package's own definitions (complex kinds, hypot, square, kernels)."""
    import functional_algorithms as fa

    native = set(BIN) | set(UN) | {"select", "symbol", "constant", "apply", "real", "imag", "complex", "list", "item", "positive"}
    native_libm_real = {"log", "log1p", "log2", "log10", "exp", "expm1", "sin", "cos", "tan", "atan2", "sinh", "cosh", "tanh", "atan", "sign"}

    def modifier(expr):
        if expr.kind in {"symbol", "constant", "apply"}:
            return expr
        has_complex = any(isinstance(o, fa.Expr) and is_cplx(o) for o in expr.operands)
        if expr.kind in {"real", "imag", "complex", "list", "item", "select", "positive"}:
            if expr.kind == "select" and has_complex:
                pass  # select on complex values must be expanded by the algorithm itself
            return expr
        if not has_complex and (expr.kind in native or expr.kind in native_libm_real):
            return expr
        ctx = expr.context
        func = getattr(algorithms, expr.kind, NotImplemented)
        if func is NotImplemented:
            raise Untranslatable(f"no definition for kind {expr.kind} (complex operands: {has_complex})")
        result = ctx.call(func, expr.operands)
        if expr.key != result.key:
            return result.rewrite(modifier, deep_first=True)
        return expr

    return modifier


# --------------------------------------------------------------------------- graph -> program

class Builder:
    def __init__(self, fmt, input_names):
        self.fmt = fmt
        self.inputs = list(input_names)  # flattened real inputs
        self.raw = {}  # id(expr) -> raw node key
        self.nodes = {}  # digest -> (op, argdigests, imm)
        self.shape = {}  # digest -> digest of the shape (constant values ignored)
        self._printer = None

    def _const_bits(self, expr):
        import functional_algorithms as fa
        from functional_algorithms.targets import numpy as np_target

        value, like = expr.operands
        typ = str(like.get_type())
        if typ == "boolean":
            return ("bconst", (), int(bool(value)))
        if isinstance(value, fa.Expr):
            raise Untranslatable("constant defined by an alt-context expression")
        if typ in COMPLEX_PART:
            raise Untranslatable("complex constant")
        if typ not in FMT:
            raise Untranslatable(f"constant of type {typ}")
        if typ != self.fmt:
            raise Untranslatable(f"constant of type {typ} in a {self.fmt} program")
        # the value the generated NumPy code materialises: evaluate the real printer's text
        printer = np_target.Printer({}, debug=0)
        text = printer.tostring(expr)
        with warnings.catch_warnings():
            warnings.simplefilter("ignore")
            v = eval(text, {"numpy": numpy})
        if not isinstance(v, NPF[self.fmt]):
            raise Untranslatable(f"constant text {text!r} evaluates to {type(v).__name__}")
        return ("const", (), bits_of(v, self.fmt))

    def digest(self, expr):
        """Returns the canonical digest of the node computing `expr` (a real/boolean value)."""
        import functional_algorithms as fa

        k = id(expr)
        if k in self.raw:
            return self.raw[k]
        kind = expr.kind
        if kind == "symbol":
            name = expr.operands[0]
            if name not in self.inputs:
                raise Untranslatable(f"free symbol {name}")
            spec = ("input", (), self.inputs.index(name))
        elif kind == "constant":
            spec = self._const_bits(expr)
        elif kind in ("real", "imag"):
            (z,) = expr.operands
            if z.kind == "symbol":
                nm = f"{z.operands[0]}.{kind}"
                if nm not in self.inputs:
                    raise Untranslatable(f"free complex symbol {z.operands[0]}")
                spec = ("input", (), self.inputs.index(nm))
            elif z.kind == "complex":
                d = self.digest(z.operands[0 if kind == "real" else 1])
                self.raw[k] = d
                return d
            else:
                raise Untranslatable(f"{kind} of unexpanded complex node {z.kind}")
        elif kind == "positive":
            d = self.digest(expr.operands[0])
            self.raw[k] = d
            return d
        elif kind == "item":
            lst, idx = expr.operands
            if lst.kind == "list" and idx.kind == "constant" and isinstance(idx.operands[0], int):
                d = self.digest(lst.operands[idx.operands[0]])
                self.raw[k] = d
                return d
            raise Untranslatable("item with non-constant index")
        elif kind == "select":
            spec = ("select", tuple(self.digest(o) for o in expr.operands), 0)
        elif kind == "square":
            a = self.digest(expr.operands[0])
            spec = ("mul", (a, a), 0)
        elif kind in BIN:
            op = BIN[kind]
            a, b = (self.digest(o) for o in expr.operands)
            # canonical operand order of commutative primitives: by shape (constant values and
            # input indices ignored, so the order is the same for every format), then by full digest
            if op in COMMUTATIVE and (self.shape[b], b) < (self.shape[a], a):
                a, b = b, a
            spec = (op, (a, b), 0)
        elif kind in UN:
            spec = (UN[kind], (self.digest(expr.operands[0]),), 0)
        elif kind in LIBM:
            if any(is_cplx(o) for o in expr.operands):
                raise Untranslatable(f"complex {kind} not expanded")
            spec = ("libm:" + kind, tuple(self.digest(o) for o in expr.operands), 0)
        else:
            raise Untranslatable(f"kind {kind}")
        t = str(expr.get_type()) if kind not in ("real", "imag") else None
        if kind not in ("symbol", "real", "imag") and t not in (self.fmt, "boolean"):
            raise Untranslatable(f"node {kind} of type {t} in a {self.fmt} program")
        h = hashlib.sha1(repr(spec).encode()).hexdigest()
        shape_spec = (spec[0], tuple(self.shape[a] for a in spec[1]), 0 if spec[0] == "const" else spec[2])
        self.shape[h] = hashlib.sha1(repr(shape_spec).encode()).hexdigest()
        self.nodes[h] = spec
        self.raw[k] = h
        return h

    def program(self, out_exprs):
        outs = [self.digest(e) for e in out_exprs]
        order, index = [], {}

        def visit(h):
            if h in index:
                return
            stack = [(h, 0)]
            while stack:
                cur, i = stack.pop()
                if cur in index:
                    continue
                args = self.nodes[cur][1]
                if i < len(args):
                    stack.append((cur, i + 1))
                    if args[i] not in index:
                        stack.append((args[i], 0))
                else:
                    index[cur] = len(order)
                    order.append(cur)

        for h in outs:
            visit(h)
        nodes = []
        for h in order:
            op, args, imm = self.nodes[h]
            nodes.append(dict(op=op, args=[index[a] for a in args], imm=imm))
        return dict(fmt=self.fmt, inputs=self.inputs, nodes=nodes, outs=[index[h] for h in outs])


def flatten_outputs(body):
    """apply-body -> list of real/boolean expressions (complex(a,b) -> a, b; list -> items)."""
    if body.kind == "list":
        out = []
        for o in body.operands:
            out.extend(flatten_outputs(o))
        return out
    if body.kind == "complex":
        return [body.operands[0], body.operands[1]]
    if is_cplx(body):
        raise Untranslatable(f"complex result of kind {body.kind} not expanded")
    return [body]


def prog_of_apply(graph, fmt):
    """graph: apply node (result of ctx.trace, already expanded)."""
    args = graph.operands[1:-1]
    names = []
    for a in args:
        if a.kind == "list":
            for it in a.operands:
                names.append(it.operands[0])
        elif is_cplx(a):
            names += [f"{a.operands[0]}.real", f"{a.operands[0]}.imag"]
        else:
            names.append(a.operands[0])
    b = Builder(fmt, names)
    return b.program(flatten_outputs(graph.operands[-1]))


# --------------------------------------------------------------------------- Lean printing

def lean_op(op):
    if op.startswith("libm:"):
        return f'.libm "{op[5:]}"'
    return "." + op


def prog_to_lean(prog, name):
    p, ew, _ = FMT[prog["fmt"]]
    lines = [f"def {name} : Prog :=", f"  {{ fmt := ⟨{p}, {ew}⟩, nIn := {len(prog['inputs'])}, outs := {prog['outs']},", "    nodes := ["]
    body = []
    for n in prog["nodes"]:
        body.append(f"      ⟨{lean_op(n['op'])}, {n['args']}, {n['imm']}⟩")
    lines.append(",\n".join(body))
    lines.append("    ] }")
    return "\n".join(lines) + "\n"


def prog_to_line(prog):
    """Line-protocol serialisation understood by Drivers/Prog.lean:
       prog <p> <ew> <nIn> <nNodes> <outs,...> then one token per node: op:args:imm"""
    p, ew, _ = FMT[prog["fmt"]]
    toks = []
    for n in prog["nodes"]:
        toks.append(f"{n['op']}|{','.join(map(str, n['args']))}|{n['imm']}")
    return f"prog {p} {ew} {len(prog['inputs'])} {','.join(map(str, prog['outs']))} " + " ".join(toks)


# --------------------------------------------------------------------------- independent interpreter

def eval_prog_numpy(prog, inbits):
    """Evaluate the JSON program on NumPy scalars. Returns (outs as canonical bits, libm calls)."""
    fmt = prog["fmt"]
    ft = NPF[fmt]
    env = []
    calls = []
    with warnings.catch_warnings(), numpy.errstate(all="ignore"):
        warnings.simplefilter("ignore")
        for n in prog["nodes"]:
            op = n["op"]
            a = [env[i] for i in n["args"]]
            if op == "input":
                v = float_of(inbits[n["imm"]], fmt)
            elif op == "const":
                v = float_of(n["imm"], fmt)
            elif op == "bconst":
                v = numpy.bool_(bool(n["imm"]))
            elif op == "add":
                v = a[0] + a[1]
            elif op == "sub":
                v = a[0] - a[1]
            elif op == "mul":
                v = a[0] * a[1]
            elif op == "div":
                v = a[0] / a[1]
            elif op == "neg":
                v = -a[0]
            elif op == "abs":
                v = numpy.abs(a[0])
            elif op == "sqrt":
                v = numpy.sqrt(a[0])
            elif op == "pymax":
                v = a[1] if a[1] > a[0] else a[0]
            elif op == "pymin":
                v = a[1] if a[1] < a[0] else a[0]
            elif op in ("lt", "le", "gt", "ge", "eq", "ne"):
                v = {"lt": numpy.less, "le": numpy.less_equal, "gt": numpy.greater, "ge": numpy.greater_equal, "eq": numpy.equal,
                     "ne": numpy.not_equal}[op](a[0], a[1])
            elif op == "and":
                v = numpy.logical_and(a[0], a[1])
            elif op == "or":
                v = numpy.logical_or(a[0], a[1])
            elif op == "xor":
                v = numpy.logical_xor(a[0], a[1])
            elif op == "not":
                v = numpy.logical_not(a[0])
            elif op == "select":
                v = a[1] if a[0] else a[2]
            elif op == "isfinite":
                v = numpy.isfinite(a[0])
            elif op.startswith("libm:"):
                v = ft(NP_LIBM[op[5:]](*a))
                calls.append((op[5:], tuple(bits_of(x, fmt) for x in a), bits_of(v, fmt)))
            else:
                raise ValueError(op)
            if isinstance(v, (numpy.floating,)) and not isinstance(v, ft):
                raise TypeError(f"node {op} produced {type(v).__name__} in a {fmt} program")
            env.append(v)
    outs = []
    for k in prog["outs"]:
        v = env[k]
        outs.append(int(bool(v)) if isinstance(v, (numpy.bool_, bool)) else canon_bits(bits_of(v, fmt), fmt))
    return outs, calls
