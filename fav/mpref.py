"""Independent multiprecision references (mpmath, Ziv-style two-precision agreement).

`ref_complex(name, fmt, xb, yb)` -> (re_bits_set, im_bits_set): for each component the SET of
acceptable correctly-rounded patterns (two elements when the input lies on a branch cut and the
result depends on the sign of a zero component: either side is accepted), or None when the
reference could not be determined.  Only finite inputs are handled here.
Independent of functional_algorithms.utils (no code shared with the package under test).
"""

from fractions import Fraction

import mpmath

from . import fpx

MP = mpmath.mp

CFUN = dict(
    absolute=lambda z: mpmath.mpc(abs(z), 0),
    acos=mpmath.acos, acosh=mpmath.acosh, asin=mpmath.asin, asinh=mpmath.asinh, atan=mpmath.atan, atanh=mpmath.atanh,
    exp=mpmath.exp, log=mpmath.log, log2=lambda z: mpmath.log(z) / mpmath.log(2), log10=lambda z: mpmath.log(z) / mpmath.log(10),
    log1p=lambda z: mpmath.log(1 + z), sqrt=mpmath.sqrt, square=lambda z: z * z,
)
RFUN = dict(absolute=abs, acos=mpmath.acos, acosh=mpmath.acosh, asin=mpmath.asin, asinh=mpmath.asinh, square=lambda x: x * x)


def mpf_of_bits(b, fmt):
    q = fpx.to_fraction(b, fmt)
    return mpmath.mpf(q.numerator) / mpmath.mpf(q.denominator)


def round_mpf(v, fmt):
    """Round an mpf (exact dyadic value) to the format, nearest-even -> pattern (overflow -> inf)."""
    if v == 0:
        return 0
    if mpmath.isinf(v):
        p, ew, w = fpx.FMT[fmt]
        return ((1 << ew) - 1 << (p - 1)) | ((1 << (w - 1)) if v < 0 else 0)
    if mpmath.isnan(v):
        return "nan"
    sign, man, exp, bc = v._mpf_
    p, ew, w = fpx.FMT[fmt]
    top = int(exp) + int(bc)  # value in [2^(top-1), 2^top)
    if top > (1 << (ew - 1)) + 2:  # far above the largest finite value: overflow (never build 2^exp)
        return ((1 << ew) - 1 << (p - 1)) | ((1 << (w - 1)) if sign else 0)
    if top < fpx.emin(fmt) - 2:  # far below half the smallest subnormal: rounds to (signed) zero
        return (1 << (w - 1)) if sign else 0
    q = Fraction(int(man)) * (Fraction(2) ** int(exp))
    if sign:
        q = -q
    return fpx.round_ne(q, fmt)


def _ziv(compute, fmt, start_prec, max_prec=40000):
    """compute() -> tuple of mpf at the current MP.prec; repeat at doubled precision until the
    rounded patterns agree at two consecutive precisions."""
    prev = None
    prec = start_prec
    while prec <= max_prec:
        with mpmath.workprec(prec):
            try:
                vals = compute()
            except Exception:
                vals = None
        if vals is not None:
            cur = tuple(round_mpf(v, fmt) for v in vals)
            if prev is not None and cur == prev:
                return cur
            prev = cur
        prec *= 2
    return None


def ref_complex(name, fmt, xb, yb):
    p, ew, w = fpx.FMT[fmt]
    if not (fpx.is_finite(xb, fmt) and fpx.is_finite(yb, fmt)):
        return None
    sign = 1 << (w - 1)
    x0, y0 = (xb & ~sign) == 0, (yb & ~sign) == 0
    f = CFUN[name]
    # cancellation against 1 or between the components can eat as many bits as the exponent spread:
    # the starting precision covers it (two agreeing low precisions could otherwise both be wrong)
    bias = (1 << (ew - 1)) - 1
    ex = max(((xb & ~sign) >> (p - 1)), 1) - bias
    ey = max(((yb & ~sign) >> (p - 1)), 1) - bias
    span = max(abs(ex), abs(ey), abs(ex - ey)) + p
    start = 2 * p + 64 + 2 * span

    def side(ex, ey):
        """value with zero components replaced by +-tiny (approach the cut from that side)"""
        def compute():
            x = mpf_of_bits(xb, fmt)
            y = mpf_of_bits(yb, fmt)
            # a zero component approached from the side of its sign: replace by +-2^-(huge) relative to everything else
            tiny = mpmath.ldexp(mpmath.mpf(1), -(MP.prec * 4 + 4 * (1 << ew)))
            if x0:
                x = -tiny if ex else tiny
            if y0:
                y = -tiny if ey else tiny
            r = f(mpmath.mpc(x, y))
            re, im = mpmath.re(r), mpmath.im(r)
            return (re, im)

        return _ziv(compute, fmt, start)

    sx, sy = bool(xb & sign), bool(yb & sign)
    if not (x0 or y0):
        def compute():
            r = f(mpmath.mpc(mpf_of_bits(xb, fmt), mpf_of_bits(yb, fmt)))
            return (mpmath.re(r), mpmath.im(r))

        v = _ziv(compute, fmt, start)
        if v is None:
            return None
        return ({v[0]}, {v[1]})
    # zero component(s): the side given by the sign of zero is the primary value; the other side is
    # accepted as well (branch cut: either side)
    res_re, res_im = set(), set()
    primary = side(sx, sy)
    if primary is None:
        return None
    for ex in ((False, True) if x0 else (sx,)):
        for ey in ((False, True) if y0 else (sy,)):
            v = side(ex, ey)
            if v is None:
                return None
            res_re.add(v[0])
            res_im.add(v[1])

    # the value at the exact zero itself (e.g. exp(x + 0i) has imaginary part 0 * e^x = 0 however large e^x is)
    def compute0():
        r = f(mpmath.mpc(mpf_of_bits(xb, fmt), mpf_of_bits(yb, fmt)))
        return (mpmath.re(r), mpmath.im(r))

    v0 = _ziv(compute0, fmt, start)
    if v0 is not None:
        res_re.add(v0[0])
        res_im.add(v0[1])
    # results within rounding of zero approached through +-tiny: add exact signed zeros of both signs
    def widen(s):
        out = set(s)
        for b in s:
            if b != "nan" and (b & ~sign) <= 1:
                out |= {0, sign}
        return out

    return (widen(res_re), widen(res_im))


def ref_real(name, fmt, xb):
    """-> set of acceptable patterns ('nan' where the real function is undefined), None if undetermined"""
    p, ew, w = fpx.FMT[fmt]
    if not fpx.is_finite(xb, fmt):
        return None
    x = fpx.to_fraction(xb, fmt)
    if name in ("asin", "acos") and abs(x) > 1:
        return {"nan"}
    if name == "acosh" and x < 1:
        return {"nan"}
    f = RFUN[name]

    def compute():
        r = f(mpf_of_bits(xb, fmt))
        if isinstance(r, mpmath.mpc):
            r = mpmath.re(r)
        return (r,)

    v = _ziv(compute, fmt, 2 * p + 64)
    if v is None:
        return None
    out = {v[0]}
    sign = 1 << (w - 1)
    if v[0] != "nan" and (v[0] & ~sign) == 0:
        # sign of a zero result: odd functions keep the sign of x, even ones give +0
        out = {xb & sign} if name in ("asin", "asinh") else {0}
    return out


def ref_hypot(fmt, xb, yb):
    if not (fpx.is_finite(xb, fmt) and fpx.is_finite(yb, fmt)):
        return None

    def compute():
        return (mpmath.sqrt(mpf_of_bits(xb, fmt) ** 2 + mpf_of_bits(yb, fmt) ** 2),)

    p = fpx.FMT[fmt][0]
    v = _ziv(compute, fmt, 2 * p + 64)
    return None if v is None else {v[0]}
