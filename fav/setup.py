"""./check --setup : regenerate every translator output and build the whole Lean library."""
import importlib
import subprocess
import sys
import time

from .runner import LEAN_DIR, Ctx
from .manifest import PROPS


def main():
    t0 = time.time()
    for p in PROPS:
        try:
            mod = importlib.import_module(f"fav.props.{p.lower()}")
        except ModuleNotFoundError:
            continue
        gen = getattr(mod, "generate", None)
        if gen:
            ctx = Ctx(p, "quick", 0)
            gen(ctx)
            print(f"[setup] generated models for {p} ({time.time()-t0:.0f}s)", flush=True)
    r = subprocess.run(["lake", "build"], cwd=LEAN_DIR)
    print(f"[setup] lake build rc={r.returncode} ({time.time()-t0:.0f}s)", flush=True)
    return 0 if r.returncode == 0 else 2


if __name__ == "__main__":
    sys.exit(main())
