"""C14 — the ULP metric is the integer distance on the float lattice.

Layers
  model           lean/FAVerif/Models/Ulp.lean   (hand port of utils.diff_ulp / utils.ulp on bit patterns)
  theorems        lean/FAVerif/Props/C14.lean    (every format, every finite pattern)
  correspondence  real `utils.diff_ulp`, `utils.ulp` (in-process, the repo is $FAV_REPO) vs Drivers/Ulp.lean
                  on the same bit patterns: float16 exhaustive for everything unary and for all
                  neighbour pairs, >= 1e5 arbitrary float16 pairs, float32/float64 edge classes + random,
                  complex64/complex128, the three flush settings, equal_nan, and a malformed
                  (mixed-kind) stream; integers are compared.  The specification objects the theorems
                  talk about (`ord`, `nextUp`, `nextDown`, negation, `decode`) are tied to NumPy the
                  same way (numpy.nextafter, `-x`, Fraction(x)).
  search          the property's clauses evaluated on the REAL functions against independent
                  references: counting with numpy.nextafter (float16: a full walk of the lattice),
                  two's-complement integer views, Fraction rounding for flush mode, numpy.nextafter
                  for the ulp identities.
"""

import json
import os
import threading
import warnings
from fractions import Fraction

from ..runner import ROOT, Infra

THEOREMS = [
    "ord_succ", "nextUp_max", "ord_pred", "ord_mono", "ord_mono_int", "decode_sval", "diff_eq", "zero_iff", "zero_iff_value", "symm",
    "kth_neighbour", "chain_additive", "chain_additive_list", "triangle", "finite_lt_sentinel", "complex_max",
    "complex_zero_iff", "flush_eq", "flush_mono", "flush_collapse", "flush_normal_step", "flush_unspecified",
    "ulp_normal", "ulp_subnormal", "ulp_next", "ulp_next_max", "ulp_prev", "ulp_zero", "ulp_neg", "ulp_inf", "ulp_nan",
    "ulp_eq_old_plus_branch", "ulp_old_subnormal_is_zero", "ulp_regression_binary64", "ulp_regression_binary16",
    "ulp_next_ieee_of", "ulp_finite", "ulp_next_ieee", "ulp_prev_ieee",
]
SEARCHED = [
    "IEEE addition: x + ulp(x) is computed by hardware/NumPy; the theorems state the exact sum is the neighbour's value (and 2^(emax+1) "
    "at max) and, through the softfloat addition proved correctly rounded (ulp_next_ieee / ulp_prev_ieee), that the IEEE sum / difference of "
    "the patterns IS the neighbour; that NumPy's addition is the softfloat's is validated each run (fav/softcheck.py) and the identity on the "
    "real float addition is also checked by search",
    "list / 0-d / 1-d ndarray dispatch branches of diff_ulp (element-wise maps of the scalar function; lists: sum with zero padding) are not modelled: search clause dispatch-consistent",
]
TRUSTED = [
    "Lean 4 kernel; axioms propext, Classical.choice, Quot.sound only",
    "hand model Models/Ulp.lean of utils.diff_ulp / utils.ulp, tied by correspondence on bit patterns (this run; float16 exhaustive)",
    "FP/Basic.lean decode/ord and Models/Ulp nextUp/nextDown/negBits as the meaning of IEEE-754 patterns, numpy.nextafter, unary minus "
    "(tied this run: float16 exhaustive, float32/64 sampled, against Fraction(x) / numpy.nextafter / -x)",
    "NumPy: view/abs/isfinite/isnan/frexp/ldexp/finfo behave as IEEE-754 says (exercised through the real code each run)",
]

DT = {16: "float16", 32: "float32", 64: "float64"}
CDT = {32: "complex64", 64: "complex128"}
P = {16: 11, 32: 24, 64: 53}
KNOWN_ULP_SIG = "ulp:subnormal-input:ldexp-underflow-returns-zero"  # the defect fixed by /repo d4402b6; reported again if it returns


# --------------------------------------------------------------------------------------
# bit patterns <-> numpy scalars

class NP:
    """Everything that touches numpy / the real code (imported lazily so that `import fav.props.c14` is cheap)."""

    def __init__(self):
        import numpy

        warnings.simplefilter("ignore")
        numpy.seterr(all="ignore")
        from functional_algorithms import utils

        self.np = numpy
        self.utils = utils
        self.ft = {16: numpy.float16, 32: numpy.float32, 64: numpy.float64}
        self.ut = {16: numpy.uint16, 32: numpy.uint32, 64: numpy.uint64}
        self.it = {16: numpy.int16, 32: numpy.int32, 64: numpy.int64}
        self.ct = {32: numpy.complex64, 64: numpy.complex128}

    def scalars(self, w, pats):
        a = self.np.array(pats, dtype=self.ut[w]).view(self.ft[w])
        return [a[i] for i in range(len(pats))]

    def scalar(self, w, pat):
        return self.np.array([pat], dtype=self.ut[w]).view(self.ft[w])[0]

    def bits(self, w, x):
        return int(self.np.array([x], dtype=self.ft[w]).view(self.ut[w])[0])

    def cscalar(self, w, re, im):
        a = self.np.array([re, im], dtype=self.ut[w]).view(self.ct[w])
        return a[0]

    def flush_kw(self, fl):
        return {} if fl == "U" else dict(flush_subnormals=(fl == "1"))

    # canonical results -----------------------------------------------------------
    def call(self, fn, *a, **kw):
        try:
            return fn(*a, **kw)
        except Exception as e:  # small enum
            n = type(e).__name__
            return n if n in ("AssertionError", "TypeError", "ValueError", "ZeroDivisionError", "NotImplementedError", "AttributeError",
                              "KeyError", "OverflowError") else "other"

    def canon_int(self, r):
        if isinstance(r, str):
            return r
        if isinstance(r, bool) or not isinstance(r, (int, self.np.integer)):
            return "non-int:" + type(r).__name__
        return str(int(r))

    def canon_pat(self, w, r):
        if isinstance(r, str):
            return r
        if not isinstance(r, self.ft[w]):
            return "wrong-type:" + type(r).__name__
        if self.np.isnan(r):
            return "nan"
        return str(self.bits(w, r))


# --------------------------------------------------------------------------------------
# pattern classes (pure integer code)

def layout(w):
    p = P[w]
    fb = p - 1
    ew = w - p
    return dict(p=p, fb=fb, ew=ew, sign=1 << (w - 1), inf=((1 << ew) - 1) << fb, minnormal=1 << fb)


def classify(w, b):
    L = layout(w)
    m = b & (L["sign"] - 1)
    if m > L["inf"]:
        return "nan"
    if m == L["inf"]:
        return "inf"
    if m == 0:
        return "zero"
    if m < L["minnormal"]:
        return "subnormal"
    if m == L["inf"] - 1:
        return "max"
    if (m & (L["minnormal"] - 1)) in (0, L["minnormal"] - 1):
        return "binade-boundary"
    return "normal"


def ord_indep(w, b):
    """Independent ordinal: reinterpret as two's-complement integer; negative patterns count down from INT_MIN."""
    i = b - (1 << w) if b >> (w - 1) else b
    return i if i >= 0 else -(1 << (w - 1)) - i


def edge_mags(w, rng):
    """Magnitude patterns of the deliberate edge classes."""
    L = layout(w)
    mn, inf = L["minnormal"], L["inf"]
    e = [0, 1, 2, 3, mn // 2 - 1, mn // 2, mn // 2 + 1, mn - 2, mn - 1, mn, mn + 1, 2 * mn - 1, 2 * mn, 2 * mn + 1,
         inf - 2, inf - 1, inf, inf + 1, inf + mn // 2, inf + mn // 2 + 1, L["sign"] - 1,
         ((1 << (L["ew"] - 1)) - 1) << L["fb"]]  # 1.0
    for _ in range(6):
        k = rng.randrange(1, (1 << L["ew"]) - 1) << L["fb"]
        e += [k - 1, k, k + 1]
    for _ in range(4):
        e.append(rng.randrange(1, mn))  # subnormals
    return [x for x in e if 0 <= x < L["sign"]]


def gen_pattern(w, rng, edges):
    r = rng.random()
    L = layout(w)
    if r < 0.45:
        m = rng.choice(edges)
    elif r < 0.60:
        m = rng.randrange(0, 2 * L["minnormal"])  # subnormals and first binade
    elif r < 0.65:
        m = rng.randrange(L["inf"], L["sign"])  # inf / NaN
    else:
        m = rng.randrange(0, L["inf"])
    return m | (L["sign"] if rng.random() < 0.5 else 0)


def from_ord(w, k):
    return k if k >= 0 else (1 << (w - 1)) + (-k)


def gen_pair(w, rng, edges):
    x = gen_pattern(w, rng, edges)
    r = rng.random()
    if r < 0.35 and classify(w, x) not in ("nan", "inf"):
        # a near neighbour (possibly across zero / a binade boundary), by ordinal arithmetic
        L = layout(w)
        k = ord_indep(w, x) + rng.choice([-1, 1]) * rng.choice([0, 1, 2, 3, 17, 1 << (L["fb"] // 2), L["minnormal"] - 1, L["minnormal"]])
        k = max(-(L["inf"] - 1), min(L["inf"] - 1, k))
        return x, from_ord(w, k)
    if r < 0.42:
        return x, x ^ (1 << (w - 1))
    if r < 0.47:
        return x, x
    return x, gen_pattern(w, rng, edges)


# --------------------------------------------------------------------------------------
# the property's clauses on the real code (search); every clause returns None or a failure dict

def sig_class(w, *pats):
    cl = sorted({classify(w, b) for b in pats})
    signs = {(b >> (w - 1)) for b in pats if classify(w, b) != "zero"}
    return "+".join(cl) + (":across-zero" if len(signs) == 2 else "")


class Clauses:
    def __init__(self, npx):
        self.n = npx
        self._walk = None

    # -- references ------------------------------------------------------------------
    def walk16(self):
        """Index of every finite float16 value obtained by walking numpy.nextafter from -max to +max
        (the two zeros are one lattice point).  Counting reference for float16."""
        if self._walk is None:
            np = self.n.np
            f16 = np.float16
            x = -np.finfo(f16).max
            top = np.finfo(f16).max
            inf = f16("inf")
            idx = {}
            k = 0
            while True:
                b = self.n.bits(16, x)
                idx[b] = k
                if x == 0:
                    idx[0x8000] = k
                    idx[0x0000] = k
                if x == top:
                    break
                x = np.nextafter(x, inf)
                k += 1
            self._walk = idx
        return self._walk

    def count(self, w, x, y):
        """number of lattice steps between finite patterns x and y, independent of the code under test"""
        if w == 16:
            t = self.walk16()
            return abs(t[x] - t[y])
        return abs(ord_indep(w, x) - ord_indep(w, y))

    def flush_rep(self, w, b):
        """value-level representative on the lattice without subnormals: nearest of {0, ±min normal} for a subnormal
        (None for the exact tie, where the docstring's 'ties to even' does not single out a winner)"""
        L = layout(w)
        m = b & (L["sign"] - 1)
        s = b & L["sign"]
        if m == 0:
            return 0
        if m >= L["minnormal"]:
            return b
        v = Fraction(float(self.n.scalar(w, m)))
        mnv = Fraction(float(self.n.np.finfo(self.n.ft[w]).smallest_normal))
        if v < mnv / 2:
            return 0
        if v > mnv / 2:
            return s | L["minnormal"]
        return None

    def count_flush(self, w, x, y):
        """steps between representatives on the lattice of zero and normals"""
        L = layout(w)
        i = L["minnormal"] - 1

        def fo(b):
            k = ord_indep(w, b)
            return 0 if k == 0 else (k - i if k > 0 else k + i)

        return abs(fo(x) - fo(y))

    # -- diff_ulp ----------------------------------------------------------------------
    def d(self, w, fl, x, y, equal_nan=False):
        xs, ys = self.n.scalars(w, [x, y])
        kw = self.n.flush_kw(fl)
        if equal_nan:
            kw["equal_nan"] = True
        return self.n.call(self.n.utils.diff_ulp, xs, ys, **kw)

    def check_pair(self, w, fl, x, y):
        """all scalar clauses on one pair of finite patterns; returns list of failures"""
        out = []
        if classify(w, x) in ("nan", "inf") or classify(w, y) in ("nan", "inf"):
            return out
        dxy = self.d(w, fl, x, y)
        dyx = self.d(w, fl, y, x)
        base = dict(fn="diff_ulp", w=w, flush=fl, x=x, y=y)
        if not isinstance(dxy, int) or isinstance(dxy, bool):
            out.append(dict(base, clause="returns-int", got=repr(dxy)))
            return out
        if dxy != dyx:
            out.append(dict(base, clause="symmetric", got=[dxy, repr(dyx)]))
        if fl != "1":
            want = self.count(w, x, y)
            if dxy != want:
                out.append(dict(base, clause="counts-steps", got=dxy, want=want))
            xs, ys = self.n.scalars(w, [x, y])
            if (dxy == 0) != bool(xs == ys):
                out.append(dict(base, clause="zero-iff-equal", got=dxy, equal=bool(xs == ys)))
        else:
            rx, ry = self.flush_rep(w, x), self.flush_rep(w, y)
            if rx is not None and ry is not None:
                want = self.count_flush(w, rx, ry)
                if dxy != want:
                    out.append(dict(base, clause="flush-counts-steps-between-representatives", got=dxy, want=want, reps=[rx, ry]))
            else:
                # tie subnormal: must behave as 0 or as min normal, the same one against every partner
                L = layout(w)
                for t, r in ((x, y), (y, x)):
                    if self.flush_rep(w, t) is None:
                        d0 = self.d(w, fl, t, 0)
                        rep = 0 if d0 == 0 else ((t & L["sign"]) | L["minnormal"])
                        if d0 not in (0, 1) or self.d(w, fl, t, r) != self.d(w, fl, rep, r):
                            out.append(dict(base, clause="flush-tie-consistent", got=[d0, self.d(w, fl, t, r), self.d(w, fl, rep, r)]))
        return out

    def check_dispatch(self, w, fl, xs, ys):
        """the list / 0-d / 1-d ndarray branches of diff_ulp are element-wise maps of the scalar function (lists: the SUM of the
        element distances, the shorter list padded with zeros): a first-order mutant in each of them survived before this clause"""
        np = self.n.np
        out = []
        xs = [b for b in xs if classify(w, b) not in ("nan", "inf")]
        ys = [b for b in ys if classify(w, b) not in ("nan", "inf")]
        if not xs or not ys:
            return out
        kw = self.n.flush_kw(fl)
        sx, sy = self.n.scalars(w, xs), self.n.scalars(w, ys)
        base = dict(fn="diff_ulp", w=w, flush=fl, x=xs[0], y=ys[0], xs=xs, ys=ys)
        scal = lambda a, b: self.n.call(self.n.utils.diff_ulp, a, b, **kw)  # noqa: E731
        # 0-d arrays
        r0 = self.n.call(self.n.utils.diff_ulp, np.array(sx[0]), np.array(sy[0]), **kw)
        s0 = scal(sx[0], sy[0])
        if isinstance(r0, str) or int(np.asarray(r0)) != s0:
            out.append(dict(base, clause="dispatch-0d-array", got=repr(r0), want=s0))
        # 1-d arrays of equal length
        n = min(len(sx), len(sy))
        r1 = self.n.call(self.n.utils.diff_ulp, np.array(sx[:n]), np.array(sy[:n]), **kw)
        want1 = [scal(a, b) for a, b in zip(sx[:n], sy[:n])]
        if isinstance(r1, str) or [int(v) for v in np.asarray(r1).reshape(-1)] != want1:
            a1 = None if isinstance(r1, str) else np.asarray(r1)
            if a1 is not None and a1.dtype.kind == "f" and max(want1) >= 2 ** 63 and [float(v) for v in a1.reshape(-1)] == [float(v) for v in want1]:
                # known cause: numpy.array of Python ints, one of them >= 2^63, silently becomes a float64 array (the distances are rounded)
                out.append(dict(base, clause="dispatch-1d-array:distance>=2^63-makes-a-float64-array", got=repr(r1), want=want1))
            else:
                out.append(dict(base, clause="dispatch-1d-array", got=repr(r1), want=want1))
        # lists, both padding directions
        zero = self.n.scalar(w, 0)
        for a, b in ((sx, sy), (sy, sx)):
            rl = self.n.call(self.n.utils.diff_ulp, list(a), list(b), **kw)
            m = max(len(a), len(b))
            pa, pb = list(a) + [zero] * (m - len(a)), list(b) + [zero] * (m - len(b))
            wantl = sum(scal(u, v) for u, v in zip(pa, pb))
            if rl != wantl:
                out.append(dict(base, clause="dispatch-list", got=repr(rl), want=wantl, lens=[len(a), len(b)]))
        return out

    def check_chain(self, w, fl, pats):
        """distances add along a monotone chain"""
        pats = [b for b in pats if classify(w, b) not in ("nan", "inf")]
        if len(pats) < 3:
            return []
        pats = sorted(pats, key=lambda b: ord_indep(w, b))
        total = sum(self.d(w, fl, a, b) for a, b in zip(pats, pats[1:]))
        ends = self.d(w, fl, pats[0], pats[-1])
        if total != ends:
            return [dict(fn="diff_ulp", w=w, flush=fl, chain=pats, x=pats[0], y=pats[-1], clause="chain-additive", got=[total, ends])]
        return []

    def check_kth(self, w, x, k):
        """distance to the k-th neighbour, obtained by k real numpy.nextafter steps, is k"""
        np = self.n.np
        if classify(w, x) in ("nan", "inf"):
            return []
        xs = self.n.scalar(w, x)
        y = xs
        inf = self.n.ft[w]("inf")
        steps = 0
        for _ in range(k):
            if y == np.finfo(self.n.ft[w]).max:
                break
            y = np.nextafter(y, inf)
            steps += 1
        got = self.n.call(self.n.utils.diff_ulp, xs, y, flush_subnormals=False)
        if got != steps:
            return [dict(fn="diff_ulp", w=w, flush="0", x=x, y=self.n.bits(w, y), clause="kth-neighbour", k=steps, got=repr(got))]
        return []

    def check_complex(self, w, fl, xr, xi, yr, yi):
        if any(classify(w, b) in ("nan", "inf") for b in (xr, xi, yr, yi)):
            return []
        got = self.n.call(self.n.utils.diff_ulp, self.n.cscalar(w, xr, xi), self.n.cscalar(w, yr, yi), **self.n.flush_kw(fl))
        if fl == "1":
            reps = [self.flush_rep(w, b) for b in (xr, xi, yr, yi)]
            if any(r is None for r in reps):
                return []
            want = max(self.count_flush(w, reps[0], reps[2]), self.count_flush(w, reps[1], reps[3]))
        else:
            want = max(self.count(w, xr, yr), self.count(w, xi, yi))
        if got != want:
            return [dict(fn="diff_ulp", w=w, flush=fl, complex=[xr, xi, yr, yi], x=xr, y=yr, clause="complex-is-max-of-components", got=repr(got), want=want)]
        return []

    # -- ulp ---------------------------------------------------------------------------
    def check_ulp(self, w, x):
        """the docstring's invariants of utils.ulp at pattern x"""
        np = self.n.np
        ft = self.n.ft[w]
        xs = self.n.scalar(w, x)
        u = self.n.call(self.n.utils.ulp, xs)
        base = dict(fn="ulp", w=w, x=x)
        cl = classify(w, x)
        if isinstance(u, str) or not isinstance(u, ft):
            return [dict(base, clause="returns-same-dtype", got=repr(u))]
        ub = self.n.bits(w, u)
        base["ulp"] = "nan" if np.isnan(u) else ub
        out = []
        if cl == "inf":
            if not (u == ft("inf")):
                out.append(dict(base, clause="ulp(±inf)==inf"))
            return out
        if cl == "nan":
            if not np.isnan(u):
                out.append(dict(base, clause="ulp(nan)==nan"))
            return out
        um = self.n.call(self.n.utils.ulp, -xs)
        if isinstance(um, str) or not isinstance(um, ft) or self.n.bits(w, um) != ub:
            out.append(dict(base, clause="ulp(-x)==ulp(x)", got=repr(um)))
        if xs >= 0:
            lhs, rhs = xs + u, np.nextafter(xs, ft("inf"))
            if self.n.bits(w, lhs) != self.n.bits(w, rhs):
                out.append(dict(base, clause="x+ulp(x)==nextafter(x,inf)", got=self.n.bits(w, lhs), want=self.n.bits(w, rhs)))
        else:
            lhs, rhs = xs - u, np.nextafter(xs, -ft("inf"))
            if self.n.bits(w, lhs) != self.n.bits(w, rhs):
                out.append(dict(base, clause="x-ulp(x)==nextafter(x,-inf)", got=self.n.bits(w, lhs), want=self.n.bits(w, rhs)))
        # "For finite x = m * 2 ** e, ulp(x) == 2 ** e": the gap to the next value away from zero
        gap = Fraction(float(np.nextafter(abs(xs), ft("inf")))) - Fraction(float(abs(xs))) if cl != "max" else \
            Fraction(float(abs(xs))) - Fraction(float(np.nextafter(abs(xs), ft(0))))
        if Fraction(float(u)) != gap:
            out.append(dict(base, clause="ulp(x)==2**e", want=str(gap)))
        return out


def ulp_signature(w, f):
    cl = classify(w, f["x"])
    if cl == "subnormal" and f.get("ulp") == 0:
        return KNOWN_ULP_SIG
    return f"ulp:{f['clause']}:{cl}"


def diff_signature(w, f):
    """cause signature: the clause and the flush mode (UNSPECIFIED is the no-flush mode); the input class goes into the text"""
    return f"diff_ulp:{f['clause']}:flush={'1' if f['flush'] == '1' else '0'}"


# --------------------------------------------------------------------------------------

def run(ctx):
    ctx.rule = ("one case = one call of the real diff_ulp/ulp (or numpy.nextafter/decode tie) on given bit patterns; float16 unary and "
                "neighbour cases are exhaustive; non-trivial = the arguments are not bit-identical and neither is NaN/inf (diff_ulp) or "
                "the argument is finite non-zero (ulp and ties); distinct by (operation, format, flush, patterns)")
    broken = ctx.lean_stage(["FAVerif.Props.C14", "FAVerif.Props.C14Ieee"], THEOREMS)
    npx = NP()
    # the IEEE-addition theorems (Props/C14Ieee.lean) are about the softfloat FP.add / FP.sub: compare it with the machine's addition on
    # exactly the operand pairs the identities use — (x, ulp(x)) with ulp computed by the REAL utils.ulp — float16: every finite x
    from .. import softcheck

    sc_cases = []
    for w in (16, 32, 64):
        p_, ew_ = {16: (11, 5), 32: (24, 8), 64: (53, 11)}[w]
        sign, inf = 1 << (w - 1), ((1 << ew_) - 1) << (p_ - 1)
        if w == 16:
            mags = list(range(inf))
        else:
            mags = sorted({m for m in softcheck.special_patterns(w) if m < inf} | {ctx.rng.randrange(inf) for _ in range(ctx.scale(1500, 20000))}
                          | {(e << (p_ - 1)) + d for e in range(0, (1 << ew_) - 1, max(1, (1 << ew_) // 64)) for d in (0, 1, (1 << (p_ - 1)) - 1)})
        for m in mags:
            for x in (m, m | sign):
                u = npx.call(npx.utils.ulp, npx.scalar(w, x))
                if isinstance(u, str):
                    continue
                sc_cases.append((w, "sub" if x & sign and m else "add", (x, npx.bits(w, u))))
    n_sc, sc_bad = softcheck.run_cases(ctx, sc_cases)
    ctx.obligation(f"softfloat add/sub == numpy on {n_sc} (x, ulp(x)) operand pairs (float16: every finite x)", not sc_bad, kind="validation")
    ctx.notes["softcheck_ulp_pairs"] = n_sc
    if sc_bad:
        broken.append(ctx.broken("correspondence:Soft-vs-numpy(x, ulp x)", json.dumps(sc_bad[:5])))
    C = Clauses(npx)
    rng = ctx.rng

    # ---------------- correspondence: build (line, implementation answer) -------------------
    lines, impl, meta = [], [], []

    def add(line, ans, m):
        lines.append(line)
        impl.append(ans)
        meta.append(m)

    def add_d(w, fl, en, x, y, stream):
        xs, ys = npx.scalars(w, [x, y])
        kw = npx.flush_kw(fl)
        if en:
            kw["equal_nan"] = True
        r = npx.canon_int(npx.call(npx.utils.diff_ulp, xs, ys, **kw))
        add(f"d {w} {fl} {en} {x} {y}", r, ("d", w, fl, en, x, y))
        cx, cy = classify(w, x), classify(w, y)
        ctx.case(key=("d", w, fl, en, x, y), nontrivial=(x != y and cx not in ("nan", "inf") and cy not in ("nan", "inf")))
        ctx.count(f"{stream}:{DT[w]}:flush={fl}")
        ctx.count(f"class:{cx}")
        ctx.count(f"class:{cy}")

    def add_unary(w, x, full):
        xs = npx.scalar(w, x)
        cl = classify(w, x)
        nt = cl not in ("nan", "inf", "zero")
        add(f"u {w} {x}", npx.canon_pat(w, npx.call(npx.utils.ulp, xs)), ("u", w, x))
        ctx.case(key=("u", w, x), nontrivial=nt)
        ctx.count(f"ulp:{DT[w]}:{cl}")
        if not full:
            return
        np = npx.np
        ft = npx.ft[w]
        if cl != "nan":
            if not (cl == "inf" and x >> (w - 1) == 0):
                add(f"n {w} {x}", npx.canon_pat(w, np.nextafter(xs, ft("inf"))), ("n", w, x))
            if not (cl == "inf" and x >> (w - 1) == 1):
                add(f"p {w} {x}", npx.canon_pat(w, np.nextafter(xs, -ft("inf"))), ("p", w, x))
            add(f"o {w} {x}", str(ord_indep(w, x)), ("o", w, x))
            add(f"g {w} {x}", npx.canon_pat(w, -xs), ("g", w, x))
            ctx.case(key=("nog", w, x), nontrivial=nt, n=4)
        if cl == "nan":
            rv = "nan"
        elif cl == "inf":
            rv = "-inf" if x >> (w - 1) else "inf"
        else:
            fr = Fraction(float(xs))
            rv = f"{fr.numerator}/{fr.denominator}"
        add(f"r {w} {x}", rv, ("r", w, x))
        ctx.case(key=("r", w, x), nontrivial=nt)

    # corpus first
    cdir = os.path.join(ROOT, "corpus", "C14")
    corpus = []
    if os.path.isdir(cdir):
        for fn in sorted(os.listdir(cdir)):
            if fn.endswith(".json"):
                corpus.extend(json.load(open(os.path.join(cdir, fn)))["cases"])
    for c in corpus:
        if c["fn"] == "diff_ulp":
            for fl in ("U", "0", "1"):
                add_d(c["w"], fl, 0, c["x"], c["y"], "corpus")
                add_d(c["w"], fl, 0, c["y"], c["x"], "corpus")
        else:
            add_unary(c["w"], c["x"], True)

    # float16: exhaustive unary, all neighbour pairs in both orders and both flush modes
    L16 = layout(16)
    for x in range(1 << 16):
        add_unary(16, x, True)
    for x in range(1 << 16):
        cl = classify(16, x)
        if cl in ("nan",) or (cl == "inf" and x >> 15 == 0):
            continue
        y = npx.bits(16, npx.np.nextafter(npx.scalar(16, x), npx.np.float16("inf")))
        for fl in ("0", "1"):
            add_d(16, fl, 0, x, y, "f16-neighbour")
            add_d(16, fl, 0, y, x, "f16-neighbour")
        if x % 7 == 0:
            add_d(16, "U", 0, x, y, "f16-neighbour")
    # float16 arbitrary pairs
    e16 = edge_mags(16, rng)
    for _ in range(ctx.scale(110000, 1000000)):
        x, y = (rng.randrange(1 << 16), rng.randrange(1 << 16)) if rng.random() < 0.7 else gen_pair(16, rng, e16)
        add_d(16, rng.choice("U01"), 1 if rng.random() < 0.15 else 0, x, y, "f16-arbitrary")
    # float32 / float64: edge classes crossed, then structured random
    pairs = {}
    for w in (32, 64):
        em = edge_mags(w, rng)
        ed = em + [m | layout(w)["sign"] for m in em]
        for x in ed:
            add_unary(w, x, True)
        for _ in range(ctx.scale(3000, 100000)):
            add_unary(w, gen_pattern(w, rng, em), True)
        pl = []
        for x in ed:
            for y in ed:
                if rng.random() < ctx.scale(0.25, 1.0):
                    add_d(w, rng.choice("U01"), 1 if rng.random() < 0.15 else 0, x, y, "edge-cross")
                    pl.append((x, y))
        for _ in range(ctx.scale(30000, 400000)):
            x, y = gen_pair(w, rng, em)
            add_d(w, rng.choice("U01"), 1 if rng.random() < 0.15 else 0, x, y, "structured")
            pl.append((x, y))
        pairs[w] = (em, pl)
    # complex
    cplx = []
    for w in (32, 64):
        em = pairs[w][0]
        for _ in range(ctx.scale(8000, 100000)):
            xr, yr = gen_pair(w, rng, em)
            xi, yi = gen_pair(w, rng, em)
            fl = rng.choice("U01")
            en = 1 if rng.random() < 0.15 else 0
            kw = npx.flush_kw(fl)
            if en:
                kw["equal_nan"] = True
            r = npx.canon_int(npx.call(npx.utils.diff_ulp, npx.cscalar(w, xr, xi), npx.cscalar(w, yr, yi), **kw))
            add(f"c {w} {fl} {en} {xr} {xi} {yr} {yi}", r, ("c", w, fl, en, xr, xi, yr, yi))
            ctx.case(key=("c", w, fl, en, xr, xi, yr, yi), nontrivial=(xr, xi) != (yr, yi))
            ctx.count(f"complex:{CDT[w]}:flush={fl}")
            cplx.append((w, fl, xr, xi, yr, yi))
    # malformed stream: argument kinds that do not reach the scalar branches
    np = npx.np
    kinds = {"f16": np.float16(1.5), "f32": np.float32(1.5), "f64": np.float64(1.5), "c64": np.complex64(1.5 + 2j),
             "c128": np.complex128(1.5 + 2j), "py": 1.5}
    for kx in kinds:
        for ky in kinds:
            if (kx[0] == "f" and ky[0] == "c") or (kx[0] == "c" and ky[0] != "c"):
                continue  # mixed real/complex: not modelled (numpy comparison semantics of complex)
            r = npx.call(npx.utils.diff_ulp, kinds[kx], kinds[ky])
            add(f"k {kx} {ky}", r if isinstance(r, str) else "ok", ("k", kx, ky))
            ctx.case(key=("k", kx, ky), nontrivial=False)
            ctx.count("malformed-kind-stream")

    # ---------------- model side (driver runs while the search below uses the CPU) --------------
    box = {}

    def run_driver():
        try:
            box["out"] = ctx.lean.driver("Ulp", lines)
        except BaseException as e:  # re-raised in the main thread
            box["err"] = e

    th = threading.Thread(target=run_driver)
    th.start()

    # ---------------- search: the property's clauses on the real code ---------------------------
    failures = []  # (signature, failure)

    def note(w, fs):
        for f in fs:
            sig = ulp_signature(w, f) if f["fn"] == "ulp" else diff_signature(w, f)
            failures.append((sig, f))

    # float16 exhaustive: neighbours, ulp identities; walk = counting reference
    for x in range(1 << 16):
        cl = classify(16, x)
        note(16, C.check_ulp(16, x))
        ctx.case(key=("s-ulp", 16, x), nontrivial=cl not in ("nan", "inf", "zero"))
        if cl in ("nan", "inf") or (cl == "max" and x >> 15 == 0):
            continue
        y = npx.bits(16, npx.np.nextafter(npx.scalar(16, x), npx.np.float16("inf")))
        for fl in ("0", "1", "U"):
            note(16, C.check_pair(16, fl, x, y))
        ctx.case(key=("s-nb", 16, x), n=3)
    for _ in range(ctx.scale(40000, 400000)):
        x, y = (rng.randrange(1 << 16), rng.randrange(1 << 16)) if rng.random() < 0.6 else gen_pair(16, rng, e16)
        fl = rng.choice("U01")
        note(16, C.check_pair(16, fl, x, y))
        ctx.case(key=("s-pair", 16, fl, x, y), nontrivial=x != y)
    for _ in range(ctx.scale(300, 3000)):
        w = rng.choice([16, 32, 64])
        fl = rng.choice("U01")
        xs = [rng.randrange(1 << w) for _ in range(rng.randint(1, 4))]
        ys = [rng.randrange(1 << w) for _ in range(rng.randint(1, 4))]
        note(w, C.check_dispatch(w, fl, xs, ys))
        ctx.case(key=("s-dispatch", w, fl, tuple(xs), tuple(ys)), nontrivial=True)
    for _ in range(ctx.scale(4000, 40000)):
        ch = [gen_pattern(16, rng, e16) for _ in range(rng.choice([3, 4, 8]))]
        fl = rng.choice("U01")
        note(16, C.check_chain(16, fl, ch))
        ctx.case(key=("s-chain", 16, fl, tuple(ch)))
    for x in range(0, 1 << 16, ctx.scale(16, 1)):
        k = rng.choice([1, 2, 3, 5, 64])
        note(16, C.check_kth(16, x, k))
        ctx.case(key=("s-kth", 16, x, k))
    for w in (32, 64):
        em, pl = pairs[w]
        for x, y in pl[: ctx.scale(20000, 10**9)]:
            fl = rng.choice("U01")
            note(w, C.check_pair(w, fl, x, y))
            ctx.case(key=("s-pair", w, fl, x, y), nontrivial=x != y)
        for m in em:
            for x in (m, m | layout(w)["sign"]):
                note(w, C.check_ulp(w, x))
                note(w, C.check_kth(w, x, rng.choice([1, 2, 7, 40])))
                ctx.case(key=("s-ulp", w, x), n=2)
        for _ in range(ctx.scale(3000, 100000)):
            x = gen_pattern(w, rng, em)
            note(w, C.check_ulp(w, x))
            note(w, C.check_kth(w, x, rng.choice([1, 2, 7, 40])))
            ctx.case(key=("s-ulp", w, x), n=2)
        for _ in range(ctx.scale(2000, 40000)):
            ch = [gen_pattern(w, rng, em) for _ in range(rng.choice([3, 4, 8]))]
            if rng.random() < 0.5:  # a tight chain around one point: crosses zero / binade boundaries
                b0 = ord_indep(w, gen_pattern(w, rng, em) % layout(w)["inf"])
                ch = [from_ord(w, max(-(layout(w)["inf"] - 1), min(layout(w)["inf"] - 1, b0 * rng.choice([1, -1]) + rng.randrange(-40, 40)))) for _ in range(5)]
            fl = rng.choice("U01")
            note(w, C.check_chain(w, fl, ch))
            ctx.case(key=("s-chain", w, fl, tuple(ch)))
    for (w, fl, xr, xi, yr, yi) in cplx[: ctx.scale(6000, 10**9)]:
        note(w, C.check_complex(w, fl, xr, xi, yr, yi))
        ctx.case(key=("s-cplx", w, fl, xr, xi, yr, yi))

    th.join()
    if "err" in box:
        raise box["err"]
    out = box["out"]
    if len(out) != len(lines):
        raise Infra(f"driver returned {len(out)} lines for {len(lines)} inputs")

    # ---------------- diff correspondence ---------------------------------------------------------
    mism = {}
    for line, a, b, m in zip(lines, impl, out, meta):
        if a != b:
            mism.setdefault(m[0], []).append(dict(line=line, impl=a, model=b))
    ctx.traces_validated += len(lines)
    corr_items = {}
    names = dict(d="diff_ulp", c="diff_ulp(complex)", k="diff_ulp(dispatch)", u="ulp", n="nextUp~numpy.nextafter", p="nextDown~numpy.nextafter",
                 o="ord~integer-view", g="negBits~unary-minus", r="decode~Fraction")
    for op, nm in names.items():
        bad = mism.get(op, [])
        ctx.obligation(f"correspondence:Ulp:{nm}(model == real code on every case)", not bad, kind="correspondence")
        if bad:
            corr_items[op] = ctx.broken(f"correspondence:Ulp:{nm}", json.dumps(dict(count=len(bad), first=bad[:5])))
    ctx.notes["correspondence_mismatches"] = {names[k]: len(v) for k, v in mism.items()}
    ctx.notes["correspondence_cases"] = len(lines)

    # directed search on correspondence mismatches: evaluate the clauses exactly at the disagreeing inputs
    for op, bad in mism.items():
        for b in bad[:200]:
            t = b["line"].split()
            if op == "d":
                w, fl, x, y = int(t[1]), t[2], int(t[4]), int(t[5])
                note(w, C.check_pair(w, fl, x, y))
                note(w, C.check_chain(w, fl, [x, y, 0, from_ord(w, 1), from_ord(w, -1)]))
            elif op == "c":
                w, fl = int(t[1]), t[2]
                note(w, C.check_complex(w, fl, *[int(v) for v in t[4:8]]))
            elif op == "u":
                note(int(t[1]), C.check_ulp(int(t[1]), int(t[2])))

    # ---------------- report ------------------------------------------------------------------------
    ctx.notes["search_failures"] = len(failures)
    seen = {}
    for sig, f in failures:
        seen.setdefault(sig, []).append(f)
    lean_items = [b for b in broken]
    for sig, fs in seen.items():
        f = min(fs, key=lambda g: (g["w"], g.get("x", 0)))
        pats = f.get("complex") or f.get("chain") or ([f["x"], f["y"]] if "y" in f else [f["x"]])
        what = (f"{f['fn']} clause `{f['clause']}` fails on the real code ({DT[f['w']]}, input classes {sig_class(f['w'], *pats)}): "
                f"{json.dumps(f)} ({len(fs)} failing inputs with this signature)")
        items = []
        if f["fn"] == "ulp":
            items = [corr_items.get("u")]
        else:
            items = [corr_items.get("d"), corr_items.get("c")]
        items = [i for i in items if i is not None]
        # a broken Lean obligation is steered to the function its name mentions
        for b in lean_items:
            nm = b["name"].lower()
            if ("ulp_" in nm or ".ulp" in nm) == (f["fn"] == "ulp") or "Models" in b["name"] or "Lemmas" in b["name"]:
                items.append(b)
        known = any(k.get("property") == ctx.prop and k.get("status") == "known" and k.get("signature") == sig for k in ctx.findings)
        if known:
            # a listed finding explains nothing new: broken obligations stay unexplained
            ctx.violation(sig, what, f)
            continue
        ctx.violation(sig, what, f, broken_item=items[0] if items else None)
        for it in items[1:]:
            it["has_failing_input"] = True
    ctx.sample(dict(stream="float16 neighbour", line=next((l for l, m in zip(lines, meta) if m[0] == "d" and m[1] == 16 and m[4] == 0x03ff), None)))
    ctx.sample(dict(stream="float64 structured", line=next((l for l in reversed(lines) if l.startswith("d 64")), None)))
    ctx.sample(dict(stream="last complex", line=next((l for l in reversed(lines) if l.startswith("c ")), None)))
    ctx.sample(dict(stream="ulp", line=next((l for l in lines if l.startswith("u 64")), None)))
    ctx.exhaustive = False


def replay(ctx, obj):
    rp = obj.get("replay") or {}
    if "fn" not in rp:
        print("replay names an obligation without failing input:", obj.get("obligation"))
        return 1
    npx = NP()
    C = Clauses(npx)
    w = rp["w"]
    if rp["fn"] == "ulp":
        fs = C.check_ulp(w, rp["x"])
    elif str(rp.get("clause", "")).startswith("dispatch"):
        fs = C.check_dispatch(w, rp["flush"], rp["xs"], rp["ys"])
    elif "complex" in rp:
        fs = C.check_complex(w, rp["flush"], *rp["complex"])
    elif "chain" in rp:
        fs = C.check_chain(w, rp["flush"], rp["chain"])
    elif rp.get("clause") == "kth-neighbour":
        fs = C.check_kth(w, rp["x"], rp["k"])
    else:
        fs = C.check_pair(w, rp["flush"], rp["x"], rp["y"])
    print(json.dumps(fs, indent=1))
    return 1 if fs else 0


LEVEL_TEXT = ("Proof. Theorems (Lean kernel; every format with p >= 2, ew >= 2; every finite bit pattern): the sign-magnitude ordinal steps by "
              "exactly one under nextUp (±0 collapsed) and orders patterns as their rational values; diff_ulp as written equals |ord x - ord y|, "
              "hence zero iff equal values, symmetric, k for the k-th neighbour, additive along monotone chains across zero and binade "
              "boundaries, below the 2^width sentinel; complex distance is the max of the component distances; in flush mode the distance is "
              "|flushOrd x - flushOrd y| with flushOrd monotone, sending each subnormal to the nearer of 0 / smallest normal (exact half to the "
              "normal) and stepping by one on normals; ulp(x) = 2^e for every finite x (the smallest subnormal on zeros and subnormals), the "
              "exact x + ulp(x) is the value of the upper neighbour for EVERY finite x >= 0 below max (2^(emax+1) at max) and x - ulp(x) the "
              "lower neighbour for EVERY finite x < 0, ulp(-x) = ulp(x), ulp(inf) = inf, ulp(nan) = nan; the pre-fix function (before /repo "
              "d4402b6) returned +0 on every subnormal (regression theorems about ulpOld). The model is a hand port tied by "
              "correspondence (float16 exhaustive).")
LEVEL_NOTE = ("Trusted: Lean kernel (axioms propext, Classical.choice, Quot.sound); the hand model Models/Ulp.lean and the meaning of patterns "
              "(decode/ord/nextUp), both validated against the real code / NumPy each run; IEEE addition: the softfloat FP.add/FP.sub (proved correctly rounded; compared with the machine's "
              "arithmetic each run) carry the ulp identities to the computed x + ulp(x) / x - ulp(x) (Props/C14Ieee.lean); also exercised by search.")
TECHNIQUE = "Lean 4 proof over a bit-pattern model generic in the format + line-protocol correspondence (float16 exhaustive) + nextafter-counting search"
