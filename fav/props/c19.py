"""C19 — sample generators cover exactly the requested range, ULP-uniformly.

Layers: hand model lean/FAVerif/Models/Samples.lean, theorems lean/FAVerif/Props/C19.lean,
correspondence = real `utils.real_samples` / `real_pair_samples` / `real_triple_samples` /
`complex_samples` / `complex_pair_samples` (in-process, repo = $FAV_REPO) vs. Drivers/Samples.lean on
the same seeded parameter combinations, results compared as bit-pattern integer lists and
exceptions as an enum; search = the property's own clauses evaluated with numpy on the arrays the
real functions return (never against the Lean model).
"""

import json
import os
import warnings

from ..runner import ROOT, Infra

THEOREMS = [
    "cfg_wf", "key_eq_ord", "step", "fuel_enough", "no_subnormal", "sorted_unique", "total_partial",
    "outcome_same_sign", "outcome_unbounded", "outcome_straddle",
    "within_partial", "contains_bounds_partial", "sorted_nonunique_partial", "uniform_partial",
    "within_unbounded", "contains_unbounded",
    "products_pair", "products_triple", "products_complex_partial", "products_complex_pair",
    "witness_size1", "witness_zero_sign", "witness_straddle_error", "witness_straddle_missing_bound",
    "witness_nonunique_unsorted", "witness_huge_skipped", "witness_complex_neg_zero",
]
SEARCHED = [
    "equal spacing (up to one unit) of the same-sign samples of the unbounded branch AFTER numpy.unique (the theorem covers the list before sorting)",
    "dtype of the returned arrays",
    "target_func filters of real_pair_samples/real_triple_samples (subset of the product satisfying the stated predicate)",
    "numpy conversion of Python floats given as bounds to the dtype (bounds are passed as dtype scalars)",
]
TRUSTED = [
    "Lean 4 kernel; axioms propext, Classical.choice, Quot.sound only",
    "hand model Models/Samples.lean of utils.real_samples and the product constructors, tied by correspondence on seeded parameter combinations (this run)",
    "numpy semantics used but not modelled beyond their documented behaviour: ndarray.view, unsigned wrap-around, numpy.unique (sorted, equal values collapsed), repeat/tile/reshape",
    "CPython int true division is correctly rounded (modelled by truncRN53, exercised by the correspondence)",
]

SIG_SIZE1 = "bounds:size==1:ZeroDivisionError(i // (num - 1))"
SIG_ZERO = "bounds:zero-bound-of-opposite-sign(min_value=-0.0 or max_value=+0.0):integer-view-stepping-wraps-through-the-other-half-line"
SIG_STRADDLE = "bounds-straddle-zero:apportioning-gives-a-side-fewer-than-2-samples(neg_num<2 or pos_num<2):ZeroDivisionError/AssertionError-or-bound-missing"
SIG_NONUNIQUE = "unique=False:unbounded:special-values-appended-after-the-finite-samples(result-not-sorted)"
SIG_HUGE = "unbounded:include_huge-ignored-when-num<=3"
SIG_CZERO = "complex_samples:-0.0-component-becomes-+0.0(real_part + imag_part)"

FMT = {16: ("float16", "uint16"), 32: ("float32", "uint32"), 64: ("float64", "uint64")}
FLAGS = ["inf", "zero", "sub", "nan", "huge", "nonneg", "unique"]
KW = dict(inf="include_infinity", zero="include_zero", sub="include_subnormal", nan="include_nan", huge="include_huge",
          nonneg="nonnegative", unique="unique")
NSPEC = dict(rs=1, pair=2, triple=3, complex=2, cpair=4)
# documented defaults of the pinned version (NOT read from the code under test): a flag equal to its default is passed by omission, so
# that the default values in the five signatures are exercised too (a first-order mutant `include_zero=False` in the signature of
# complex_pair_samples survived when every flag was always passed); min_value / max_value = None likewise
DEFAULT_FLAGS = dict(inf=True, zero=True, sub=False, nan=False, huge=True, nonneg=False, unique=True)


def flag_kw(flags, skip=()):
    return {KW[k]: bool(flags[k]) for k in FLAGS if k not in skip and bool(flags[k]) != DEFAULT_FLAGS[k]}
_np = None
_U = None


def _load():
    global _np, _U
    if _np is None:
        import numpy
        with warnings.catch_warnings():
            warnings.simplefilter("ignore")
            import functional_algorithms.utils as U
        _np, _U = numpy, U
    return _np, _U


class F:
    """format constants on bit patterns (independent of the Lean model)"""

    def __init__(self, bits):
        np, _ = _load()
        self.bits = bits
        self.dtype = getattr(np, FMT[bits][0])
        self.utype = getattr(np, FMT[bits][1])
        fi = np.finfo(self.dtype)
        self.fi = fi
        self.sb = 1 << (bits - 1)
        self.mn = int(self.dtype(fi.smallest_normal).view(self.utype))
        self.inf = int(self.dtype(np.inf).view(self.utype))
        self.maxfin = self.inf - 1
        self.qnan = self.inf + self.mn // 2

    def val(self, b):
        np = _np
        return np.array([b], dtype=self.utype).view(self.dtype)[0]

    def isnan(self, b):
        return (b % self.sb) > self.inf

    def canon(self, b):
        m = b % self.sb
        return self.qnan if m > self.inf else (0 if m == 0 else b)


_F = {}


def fmt(bits):
    if bits not in _F:
        _F[bits] = F(bits)
    return _F[bits]


def hash_list(l):
    h = 0
    for x in l:
        h = (h * 1000003 + x + 1) % ((1 << 61) - 1)
    return h


# ---------------------------------------------------------------------------------------------
# running the real code


def exc_name(e):
    n = type(e).__name__
    return n if n in ("ZeroDivisionError", "AssertionError", "IndexError", "ValueError") else "other:" + n


def call_rs(f, flags, spec):
    """real_samples on one spec; returns ('ok', ndarray) | ('err', name, message)"""
    np, U = _load()
    size, lo, hi = spec
    kw = flag_kw(flags)
    kw.update(size=size, dtype=f.dtype)
    if lo is not None:
        kw["min_value"] = f.val(lo)
    if hi is not None:
        kw["max_value"] = f.val(hi)
    try:
        with warnings.catch_warnings():
            warnings.simplefilter("ignore")
            r = U.real_samples(**kw)
        return ("ok", r)
    except Exception as e:  # noqa: BLE001
        return ("err", exc_name(e), str(e)[:200])


def bits_of(f, arr):
    np = _np
    a = np.ascontiguousarray(arr)
    if a.dtype.kind == "c":
        a = a.view(f.dtype)
    return [int(x) for x in a.reshape(-1).view(f.utype)]


def call_case(case):
    """Run the real function of the case; canonical result ('ok', [ints]) | ('err', name, msg)."""
    np, U = _load()
    f = fmt(case["fmt"])
    flags = case["flags"]
    specs = case["specs"]
    kind = case["kind"]
    if kind == "rs":
        out = call_rs(f, flags, specs[0])
        if out[0] == "err":
            return out
        l = bits_of(f, out[1])
        nanb = any(b is not None and f.isnan(b) for b in specs[0][1:])
        if flags["unique"] or nanb:
            l = [f.canon(b) for b in l]
        else:
            l = [f.qnan if f.isnan(b) else b for b in l]
        return ("ok", l, out[1])
    kw = flag_kw(flags, skip=("unique",))
    v = lambda b: None if b is None else f.val(b)  # noqa: E731
    def tup(xs):
        if all(x is None for x in xs):
            return None
        if case.get("scalar") and len(set(xs)) == 1:
            return v(xs[0])  # the SCALAR form of a bound shared by all components (`_fix_limit_value` broadcasts it); seed C19_4
        return tuple(v(x) for x in xs)
    try:
        with warnings.catch_warnings():
            warnings.simplefilter("ignore")
            if kind == "pair":
                r = U.real_pair_samples(size=(specs[0][0], specs[1][0]), dtype=f.dtype, min_value=tup([specs[0][1], specs[1][1]]),
                                        max_value=tup([specs[0][2], specs[1][2]]), **kw)
                seq = bits_of(f, r[0]) + bits_of(f, r[1])
            elif kind == "triple":
                r = U.real_triple_samples(size=tuple(s[0] for s in specs), dtype=f.dtype, min_value=tup([s[1] for s in specs]),
                                          max_value=tup([s[2] for s in specs]), **kw)
                seq = bits_of(f, r[0]) + bits_of(f, r[1]) + bits_of(f, r[2])
            elif kind == "complex":
                r = U.complex_samples(size=(specs[0][0], specs[1][0]), dtype=f.dtype, min_real_value=v(specs[0][1]),
                                      max_real_value=v(specs[0][2]), min_imag_value=v(specs[1][1]), max_imag_value=v(specs[1][2]), **kw)
                seq = list(r.shape) + bits_of(f, r)
            elif kind == "cpair":
                r = U.complex_pair_samples(size=((specs[0][0], specs[1][0]), (specs[2][0], specs[3][0])), dtype=f.dtype,
                                           min_real_value=tup([specs[0][1], specs[2][1]]), max_real_value=tup([specs[0][2], specs[2][2]]),
                                           min_imag_value=tup([specs[1][1], specs[3][1]]), max_imag_value=tup([specs[1][2], specs[3][2]]), **kw)
                seq = list(r[0].shape) + bits_of(f, r[0]) + list(r[1].shape) + bits_of(f, r[1])
            else:
                raise Infra("unknown kind " + kind)
    except Infra:
        raise
    except Exception as e:  # noqa: BLE001
        return ("err", exc_name(e), str(e)[:200])
    # products always run with unique=True: canonicalise like the 1-D lists (shape numbers are small ints, unaffected unless 2-D)
    if kind in ("complex", "cpair"):
        seq = _canon_grid_seq(f, seq)
    else:
        seq = [f.canon(b) for b in seq]
    return ("ok", seq, r)


def _canon_grid_seq(f, seq):
    out, i = [], 0
    while i < len(seq):
        rows, cols = seq[i], seq[i + 1]
        out += [rows, cols]
        n = 2 * rows * cols
        out += [f.canon(b) for b in seq[i + 2:i + 2 + n]]
        i += 2 + n
    return out


def driver_line(case, dump=False):
    fl = case["flags"]
    parts = [case["kind"], str(case["fmt"])] + [str(int(bool(fl[k]))) for k in FLAGS] + ["1" if dump else "0"]
    for s, lo, hi in case["specs"]:
        parts += [str(s), "N" if lo is None else str(lo), "N" if hi is None else str(hi)]
    return " ".join(parts)


def canon_real(out):
    if out[0] == "err":
        return "err " + out[1]
    l = out[1]
    head = f"ok {len(l)} {hash_list(l)}"
    if len(l) <= 48:
        head += "".join(" " + str(x) for x in l)
    return head


# ---------------------------------------------------------------------------------------------
# the property, evaluated on the real result (independent of the model)


def prop_failures_rs(f, flags, spec, out):
    """Return list of (signature, clause, detail) for one real_samples call. `out` from call_rs."""
    np = _np
    size, lo_b, hi_b = spec
    dt = f.dtype
    fi = f.fi
    tiny = dt(fi.smallest_normal)
    fmax = dt(fi.max)
    sub_ok = bool(flags["sub"])
    min_pos = dt(fi.smallest_subnormal) if sub_ok else tiny
    bounded = lo_b is not None or hi_b is not None
    lo = None if lo_b is None else f.val(lo_b)
    hi = None if hi_b is None else f.val(hi_b)
    fails = []

    def fail(sig, clause, detail=""):
        fails.append((sig, clause, detail))

    if size <= 0:
        return fails  # not a meaningful request
    if (lo is not None and np.isnan(lo)) or (hi is not None and np.isnan(hi)):
        return fails  # precondition: bounds are numbers

    if not bounded:
        if size < 6:
            return fails  # docstring: "A minimum value is 6"
        if out[0] == "err":
            fail("unbounded:unexpected-exception:" + out[1], "no-error", out[2])
            return fails
        r = out[1]
        if r.dtype != dt or r.ndim != 1:
            fail("clause:dtype", "dtype", str(r.dtype))
        nonneg = bool(flags["nonneg"])
        fin = r[np.isfinite(r)]
        # contents
        want = [(fmax, True), (min_pos, True), (-fmax, not nonneg), (-min_pos, not nonneg)]
        for v, must in want:
            if must and not (r == v).any():
                fail("clause:unbounded-contains", "contains", repr(float(v)))
        if nonneg and ((fin < 0).any() or (r == -np.inf).any() or (np.signbit(fin) & (fin != 0)).any()):
            fail("clause:nonnegative", "nonnegative")
        if bool(flags["zero"]) != bool((r == 0).any()):
            fail("clause:include_zero", "zero")
        if bool(flags["inf"]) != bool((r == np.inf).any()):
            fail("clause:include_infinity", "infinity")
        if (bool(flags["inf"]) and not nonneg) != bool((r == -np.inf).any()):
            fail("clause:include_infinity", "neg-infinity")
        if bool(flags["nan"]) != bool(np.isnan(r).any()):
            fail("clause:include_nan", "nan")
        if not sub_ok and ((fin != 0) & (abs(fin) < tiny)).any():
            fail("clause:no-subnormal", "subnormal")
        if (abs(fin) > fmax).any():
            fail("clause:within", "within")
        huge = np.nextafter(fmax, dt(0))
        npos = int(((fin > 0)).sum())
        if flags["huge"]:
            if not (r == huge).any() or (not nonneg and not (r == -huge).any()):
                # distinct positive finite samples requested: num; the code skips the patch when num <= 3
                fail(SIG_HUGE if len(np.unique(fin[fin > 0])) <= 3 else "clause:include_huge", "huge", f"positive finite samples: {npos}")
        # order
        body = r[~np.isnan(r)]
        if flags["unique"]:
            if not (np.diff(body.astype(np.float64) if f.bits < 64 else body) > 0).all() or (np.isnan(r).sum() > 1) or (
                    np.isnan(r).any() and not np.isnan(r[-1])):
                fail("clause:strictly-increasing", "sorted")
        else:
            if not (np.diff(body.astype(np.float64) if f.bits < 64 else body) >= 0).all() or (np.isnan(r).any() and not np.isnan(r[-1])):
                fail(SIG_NONUNIQUE, "sorted", "unique=False result is not even non-decreasing")
        # spacing (specials exempt: max, and huge when requested)
        for sign in (1, -1):
            side = np.sort((sign * fin)[(sign * fin) > 0])
            pats = [int(x) for x in side.view(f.utype)]
            pats = [p for p in pats if p < f.maxfin - (1 if flags["huge"] else 0)]
            if not _gaps_ok(pats):
                fail("clause:equal-spacing", "spacing", f"sign={sign}")
        return fails

    # ---- user bounds: effective bounds by the docstring / property statement
    if lo is None:
        if hi > 0:
            lo = min_pos
        elif hi < 0:
            lo = -fmax
        else:
            return fails  # default min for max_value == 0 is not specified
    if hi is None:
        hi = -min_pos if lo < 0 else fmax
    if lo > hi:
        return fails  # precondition min <= max
    zero_sign = (lo == 0 and np.signbit(lo) and hi > 0) or (hi == 0 and not np.signbit(hi) and lo < 0)
    if not sub_ok:
        if lo != 0 and abs(lo) < tiny:
            lo = -tiny if lo < 0 else dt(0)
        if hi != 0 and abs(hi) < tiny:
            hi = -dt(0) if hi < 0 else tiny
    if lo > hi:
        return fails  # precondition min <= max (the code raises ValueError)
    straddle = lo < 0 < hi
    if out[0] == "err":
        if lo == hi:
            fail("bounds:equal:unexpected-exception:" + out[1], "no-error", out[2])
        elif size == 1 and out[1] == "ZeroDivisionError" and not straddle:
            fail(SIG_SIZE1, "no-error", out[2])
        elif straddle and out[1] in ("ZeroDivisionError", "AssertionError"):
            fail(SIG_STRADDLE, "no-error", out[1] + ": " + out[2])
        else:
            fail("bounds:unexpected-exception:" + out[1], "no-error", out[2])
        return fails
    r = out[1]
    if r.dtype != dt or r.ndim != 1:
        fail("clause:dtype", "dtype", str(r.dtype))
    bad = []
    nan = np.isnan(r)
    body = r[~nan]
    if nan.any():
        bad.append(("no-nan", ""))
    if lo == hi:
        if len(r) != 1 or r[0] != lo:
            bad.append(("equal-bounds-single-sample", ""))
    else:
        if ((body < lo) | (body > hi)).any():
            bad.append(("within", f"min={body.min()} max={body.max()}"))
        miss_lo = not (r == lo).any()
        miss_hi = not (r == hi).any()
        if size >= 2 and (miss_lo or miss_hi):
            bad.append(("contains-bounds", ("lower " if miss_lo else "") + ("upper" if miss_hi else "")))
        if straddle and flags["zero"] and not (r == 0).any():
            bad.append(("contains-zero", ""))
        if straddle and not flags["zero"] and not (miss_lo or miss_hi) and (r == 0).any():
            bad.append(("zero-not-requested", ""))
        if not sub_ok and ((body != 0) & (abs(body) < tiny)).any():
            bad.append(("no-subnormal", ""))
        w = body.astype(np.float64) if f.bits < 64 else body
        if flags["unique"]:
            if not (np.diff(w) > 0).all():
                bad.append(("strictly-increasing", ""))
        elif not (np.diff(w) >= 0).all():
            bad.append(("non-decreasing(unique=False)", ""))
        fin = body[np.isfinite(body)]
        for sign in (1, -1):
            side = np.sort((sign * fin)[(sign * fin) > 0])
            if not _gaps_ok([int(x) for x in side.view(f.utype)]):
                bad.append(("equal-spacing", f"sign={sign}"))
    for clause, detail in bad:
        if zero_sign:
            fail(SIG_ZERO, clause, detail)
        elif straddle and clause == "contains-bounds":
            fail(SIG_STRADDLE, clause, detail)
        else:
            fail("clause:" + clause, clause, detail)
    return fails


def _gaps_ok(pats):
    if len(pats) < 3:
        return True
    d = [b - a for a, b in zip(pats, pats[1:])]
    return max(d) - min(d) <= 1


def prop_failures_product(case, out):
    """Products: the real generator vs. the Cartesian product (numpy-free loops) of the real 1-D samples."""
    np = _np
    f = fmt(case["fmt"])
    flags = dict(case["flags"], unique=True)
    ones = [call_rs(f, flags, s) for s in case["specs"]]
    fails = []
    if any(o[0] == "err" for o in ones):
        # the product must fail the same way as the first failing 1-D call
        first = next(o for o in ones if o[0] == "err")
        if out[0] != "err" or out[1] != first[1]:
            fails.append(("clause:product-error-propagation", "products", f"1-D: {first[1]}, product: {out[0]}"))
        return fails
    if out[0] == "err":
        fails.append(("product:unexpected-exception:" + out[1], "products", out[2]))
        return fails
    ls = [[f.qnan if f.isnan(b) else b for b in bits_of(f, o[1])] for o in ones]
    if any(len(l) == 0 for l in ls):
        return fails
    real = out[2]
    kind = case["kind"]

    def nb(a):
        return [f.qnan if f.isnan(b) else b for b in bits_of(f, a)]

    if kind == "pair":
        s1, s2 = ls
        exp1 = [a for b in s2 for a in s1]
        exp2 = [b for b in s2 for a in s1]
        ok = nb(real[0]) == exp1 and nb(real[1]) == exp2
        zero_only = ok
    elif kind == "triple":
        s1, s2, s3 = ls
        exp = [(a, b, c) for a in s1 for b in s2 for c in s3]
        ok = nb(real[0]) == [e[0] for e in exp] and nb(real[1]) == [e[1] for e in exp] and nb(real[2]) == [e[2] for e in exp]
        zero_only = ok
    elif kind == "complex":
        re, im = ls
        exp = [v for y in im for x in re for v in (x, y)]
        got = nb(real)
        ok = real.shape == (len(im), len(re)) and got == exp
        zero_only = real.shape == (len(im), len(re)) and [f.canon(b) for b in got] == [f.canon(b) for b in exp]
    else:
        re0, im0, re1, im1 = ls
        m1, n1, m2, n2 = len(im0), len(re0), len(im1), len(re1)
        exp_a = [v for i in range(m1 * m2) for j in range(n1 * n2) for v in (re0[j % n1], im0[i % m1])]
        exp_b = [v for i in range(m1 * m2) for j in range(n1 * n2) for v in (re1[j // n1], im1[i // m1])]
        ga, gb = nb(real[0]), nb(real[1])
        shp = real[0].shape == (m1 * m2, n1 * n2) == real[1].shape
        ok = shp and ga == exp_a and gb == exp_b
        zero_only = shp and [f.canon(b) for b in ga] == [f.canon(b) for b in exp_a] and [f.canon(b) for b in gb] == [f.canon(b) for b in exp_b]
    if not ok:
        if zero_only and kind in ("complex", "cpair"):
            fails.append((SIG_CZERO, "products", "a -0.0 real or imaginary sample appears as +0.0 in the complex grid"))
        else:
            fails.append(("clause:products:" + kind, "products", "result differs from the Cartesian product of the 1-D samples"))
    return fails


def prop_failures(case, out):
    f = fmt(case["fmt"])
    if case["kind"] == "rs":
        o = out if out[0] == "err" else ("ok", out[2])
        return prop_failures_rs(f, case["flags"], case["specs"][0], o)
    return prop_failures_product(case, out)


# ---------------------------------------------------------------------------------------------
# generators


def rand_flags(rng, unique=None):
    fl = {k: rng.random() < p for k, p in dict(inf=0.6, zero=0.7, sub=0.35, nan=0.25, huge=0.6, nonneg=0.3, unique=0.7).items()}
    if unique is not None:
        fl["unique"] = unique
    return fl


def rand_pos_pattern(rng, f, cls=None):
    """positive finite pattern of a deliberate class"""
    cls = cls or rng.choice(["normal", "normal", "normal", "subnormal", "tiny", "big", "one"])
    if cls == "subnormal":
        return rng.randint(1, f.mn - 1)
    if cls == "tiny":
        return f.mn + rng.randint(0, 3)
    if cls == "big":
        return f.maxfin - rng.randint(0, 3)
    if cls == "one":
        return int(f.dtype(1.0).view(f.utype)) + rng.randint(-2, 2)
    if f.bits == 16:
        return rng.randint(f.mn, f.maxfin)
    e = rng.randint(1, (f.inf >> (f.bits - 1 - {32: 8, 64: 11}[f.bits])) - 1)
    frac_bits = f.mn.bit_length() - 1
    return (e << frac_bits) | rng.getrandbits(frac_bits)


def rand_size(rng, f, span=None, big_ok=True):
    r = rng.random()
    if r < 0.45:
        return rng.randint(1, 10)
    if r < 0.50:
        return rng.choice([0, 0, -1, -2])
    if r < 0.80:
        return rng.randint(11, 120)
    if span is not None and span < 1200 and r < 0.93:
        return max(0, span + 1 + rng.choice([-2, -1, 0, 1, 2, span, 7]))
    if big_ok and r >= 0.972:
        return rng.choice([1000, 1000, 2000, 5000, 10000, 10000, 10 ** 5, 10 ** 5, 31337, 65535, 65536, 65537, 70001])
    return rng.randint(5, 400)


def gen_rs(rng, big_ok=True):
    bits = rng.choice([16, 16, 32, 64])
    f = fmt(bits)
    flags = rand_flags(rng)
    cls = rng.choice(["none", "none", "pos", "pos", "neg", "neg", "straddle", "straddle", "straddle", "only-min", "only-max", "zero-bound",
                      "zero-bound", "sub-bounds", "equal", "near-count", "inf-bound", "reversed", "nan-bound"])
    lo = hi = None
    span = None
    if cls == "pos":
        a, b = sorted([rand_pos_pattern(rng, f), rand_pos_pattern(rng, f)])
        lo, hi = a, b
    elif cls == "neg":
        a, b = sorted([rand_pos_pattern(rng, f), rand_pos_pattern(rng, f)])
        lo, hi = f.sb + b, f.sb + a
    elif cls == "straddle":
        lo, hi = f.sb + rand_pos_pattern(rng, f), rand_pos_pattern(rng, f)
        if rng.random() < 0.3:  # balanced magnitudes: both sides get samples
            hi = lo - f.sb + rng.randint(-5, 5)
            hi = min(max(hi, 1), f.maxfin)
    elif cls == "only-min":
        lo = rng.choice([rand_pos_pattern(rng, f), f.sb + rand_pos_pattern(rng, f), 0, f.sb])
    elif cls == "only-max":
        hi = rng.choice([rand_pos_pattern(rng, f), f.sb + rand_pos_pattern(rng, f), 0, f.sb])
    elif cls == "zero-bound":
        k = rng.randrange(6)
        p = rand_pos_pattern(rng, f)
        lo, hi = [(0, p), (f.sb, p), (f.sb + p, 0), (f.sb + p, f.sb), (0, f.sb), (f.sb, 0)][k]
    elif cls == "sub-bounds":
        s1, s2 = sorted([rng.randint(1, f.mn - 1), rng.randint(1, f.mn - 1)])
        k = rng.randrange(6)
        p = rand_pos_pattern(rng, f, "normal")
        lo, hi = [(s1, s2), (f.sb + s2, f.sb + s1), (f.sb + s1, s2), (s1, p), (f.sb + p, f.sb + s1), (f.sb + s1, p)][k]
    elif cls == "equal":
        p = rng.choice([rand_pos_pattern(rng, f), f.sb + rand_pos_pattern(rng, f), 0, f.sb, f.mn, f.sb + f.mn])
        lo = hi = p
    elif cls == "near-count":
        a = rand_pos_pattern(rng, f)
        span = rng.choice([1, 2, 3, 5, 9, 17, 50, 200, 999])
        b = min(a + span, f.maxfin)
        span = b - a
        lo, hi = (a, b) if rng.random() < 0.5 else (f.sb + b, f.sb + a)
    elif cls == "inf-bound":
        k = rng.randrange(3)
        p = rand_pos_pattern(rng, f)
        lo, hi = [(p, f.inf), (f.sb + f.inf, f.sb + p), (f.sb + f.inf, f.inf)][k]
    elif cls == "reversed":
        a, b = sorted([rand_pos_pattern(rng, f), rand_pos_pattern(rng, f)])
        lo, hi = (b + 1, a) if rng.random() < 0.5 else (a, f.sb + b)
    elif cls == "nan-bound":
        lo, hi = (f.qnan, rand_pos_pattern(rng, f)) if rng.random() < 0.5 else (f.sb + rand_pos_pattern(rng, f), f.qnan)
    size = rand_size(rng, f, span, big_ok=big_ok)
    wraps = lo == f.sb or hi == 0 or (lo is not None and f.isnan(lo)) or (hi is not None and f.isnan(hi))
    if wraps and size > 600:
        size = rng.randint(2, 600)  # the wrapped stepping is far from sorted: keep the model's insertion sort cheap
    if cls == "none" and rng.random() < 0.6:
        size = max(size, rng.randint(6, 30))
    return dict(kind="rs", fmt=bits, flags=flags, specs=[[size, lo, hi]], cls=cls)


def gen_product_case(rng):
    kind = rng.choice(["pair", "pair", "triple", "complex", "complex", "cpair"])
    bits = rng.choice([32, 64]) if kind in ("complex", "cpair") else rng.choice([16, 32, 64])
    f = fmt(bits)
    flags = rand_flags(rng, unique=True)
    cap = {"pair": 14, "triple": 9, "complex": 12, "cpair": 8}[kind]
    specs = []
    for _ in range(NSPEC[kind]):
        cls = rng.choice(["none", "none", "pos", "neg", "straddle", "zero-hi", "min-only"])
        s = rng.randint(6, cap) if rng.random() < 0.9 else rng.randint(1, 5)
        lo = hi = None
        if cls == "pos":
            lo, hi = sorted([rand_pos_pattern(rng, f), rand_pos_pattern(rng, f)])
        elif cls == "neg":
            a, b = sorted([rand_pos_pattern(rng, f), rand_pos_pattern(rng, f)])
            lo, hi = f.sb + b, f.sb + a
        elif cls == "straddle":
            p = rand_pos_pattern(rng, f, "normal")
            lo, hi = f.sb + p, min(max(p + rng.randint(-3, 3), 1), f.maxfin)
        elif cls == "zero-hi":
            lo, hi = f.sb + rand_pos_pattern(rng, f, "normal"), f.sb
        elif cls == "min-only":
            lo = rand_pos_pattern(rng, f)
        specs.append([s, lo, hi])
    case = dict(kind=kind, fmt=bits, flags=flags, specs=specs, cls="product")
    if kind in ("pair", "triple", "cpair") and rng.random() < 0.3:
        # one bound shared by all components and passed as a SCALAR; zero bounds of either sign are the interesting ones
        # (`not value` is true for 0, 0.0, -0.0): [0, hi], [lo, -0], [+-0, None], [None, +-0], and ordinary shared bounds
        c = rng.choice(["zero-lo", "zero-lo", "zero-hi", "zero-hi", "zero-min-only", "zero-max-only", "pos", "straddle"])
        p = rand_pos_pattern(rng, f, "normal")
        z = rng.choice([0, f.sb])
        lo, hi = {"zero-lo": (z, p), "zero-hi": (f.sb + p, z), "zero-min-only": (z, None), "zero-max-only": (None, z),
                  "pos": tuple(sorted([p, rand_pos_pattern(rng, f)])), "straddle": (f.sb + p, p)}[c]
        if kind == "cpair":
            # real parts share (lo, hi); imaginary parts keep their own bounds unless they are shared too
            for j in (0, 2):
                specs[j][1], specs[j][2] = lo, hi
            if rng.random() < 0.5:
                for j in (1, 3):
                    specs[j][1], specs[j][2] = lo, hi
        else:
            for sp in specs:
                sp[1], sp[2] = lo, hi
        case["scalar"] = True
        case["cls"] = "product-scalar-bounds"
    return case


def neighbours(rng, case, k=24):
    """Directed search around a case on which model and implementation disagree."""
    out = []
    for _ in range(k):
        c = json.loads(json.dumps(case))
        r = rng.random()
        sp = rng.choice(c["specs"])
        if r < 0.4:
            sp[0] = max(0, sp[0] + rng.choice([-3, -2, -1, 1, 2, 3]))
        elif r < 0.8:
            fl = rng.choice(FLAGS)
            if not (fl == "unique" and c["kind"] != "rs"):
                c["flags"][fl] = not c["flags"][fl]
        else:
            j = rng.choice([1, 2])
            if sp[j] is not None:
                sp[j] = max(0, sp[j] + rng.choice([-1, 1]))
        out.append(c)
    return out


# ---------------------------------------------------------------------------------------------


def load_corpus():
    cases = []
    cdir = os.path.join(ROOT, "corpus", "C19")
    if os.path.isdir(cdir):
        for fn in sorted(os.listdir(cdir)):
            if fn.endswith(".json"):
                obj = json.load(open(os.path.join(cdir, fn)))
                for c in obj["cases"]:
                    c.setdefault("cls", "corpus:" + fn)
                    cases.append(c)
    return cases


def case_key(case):
    return json.dumps([case["kind"], case["fmt"], [int(bool(case["flags"][k])) for k in FLAGS], case["specs"]])


def size_class(s):
    return "<=0" if s <= 0 else "1" if s == 1 else "2-10" if s <= 10 else "11-120" if s <= 120 else "121-999" if s < 1000 else ">=1000"


def report(ctx, case, fails, corr_item=None):
    pub = {k: case[k] for k in ("kind", "fmt", "flags", "specs", "scalar") if k in case}
    known = {f.get("signature") for f in ctx.findings if f.get("property") == ctx.prop and f.get("status") == "known"}
    for sig, clause, detail in fails:
        # the model reproduces the known findings exactly, so a known finding never explains a broken
        # obligation / correspondence: only a NEW failing input is attached to the broken item
        ctx.violation(sig, f"{clause} fails on the real {case['kind']} generator: {detail} ; input {json.dumps(pub)}",
                      dict(case=pub, clause=clause, detail=detail), broken_item=None if sig in known else corr_item)


def run(ctx):
    ctx.rule = ("seeded (dtype, size, bounds, flags) combinations run on the real utils.real_samples / product generators; non-trivial = "
                "the call returned at least 3 samples or raised; distinct by the full parameter tuple")
    broken = ctx.lean_stage(["FAVerif.Props.C19"], THEOREMS)
    _load()
    rng = ctx.rng
    cases = load_corpus()
    ncorpus = len(cases)
    n1 = ctx.scale(3600, 100000)
    n2 = ctx.scale(260, 6000)
    for _ in range(n1):
        cases.append(gen_rs(rng))
    for _ in range(n2):
        cases.append(gen_product_case(rng))

    mismatches = 0
    witness_ok = 0
    CH = 4000
    for base in range(0, len(cases), CH):
        chunk = cases[base:base + CH]
        # real code first; keep only the canonical line and the property verdict (arrays can be large)
        evals = []
        for case in chunk:
            out = call_case(case)
            evals.append((canon_real(out), prop_failures(case, out), len(out[1]) if out[0] == "ok" else -1,
                          out[1] if out[0] == "err" else "ok"))
            del out
        out_lines = ctx.lean.driver("Samples", [driver_line(c) for c in chunk], timeout=ctx.scale(900, 3000))
        if len(out_lines) != len(chunk):
            raise Infra(f"driver returned {len(out_lines)} lines for {len(chunk)} cases")
        for off, (case, (real, fails, n_out, outcome), model) in enumerate(zip(chunk, evals, out_lines)):
            idx = base + off
            ctx.case(key=case_key(case), nontrivial=(n_out >= 3 or outcome != "ok"))
            ctx.traces_validated += 1
            ctx.count("kind:" + case["kind"])
            ctx.count("dtype:float%d" % case["fmt"])
            ctx.count("class:" + str(case.get("cls", "?")).split(":")[0])
            ctx.count("size:" + size_class(case["specs"][0][0]))
            ctx.count("outcome:" + outcome)
            if case["kind"] == "rs":
                for k in FLAGS:
                    if case["flags"][k]:
                        ctx.count("flag:" + k)
            if idx < ncorpus + 6:
                ctx.sample(dict(case={k: case[k] for k in ("kind", "fmt", "flags", "specs", "scalar") if k in case}, real=real[:300]), limit=10)
            if case.get("expect"):
                # negation witnesses of Props/C19.lean replayed on the real code: the finding must still show
                if any(sig.startswith(case["expect"]) for sig, _, _ in fails):
                    witness_ok += 1
                else:
                    ctx.notes.setdefault("witness_not_reproduced", []).append(case.get("theorem"))
            corr_item = None
            if model != real:
                mismatches += 1
                if mismatches <= 3:
                    detail = dict(case={k: case[k] for k in ("kind", "fmt", "flags", "specs", "scalar") if k in case}, model=model[:600], impl=real[:600])
                    corr_item = ctx.broken("correspondence:Samples", json.dumps(detail))
            report(ctx, case, fails, corr_item)
            if corr_item is not None and not corr_item["has_failing_input"]:
                # directed search around the disagreeing input
                for c2 in neighbours(rng, case):
                    f2 = prop_failures(c2, call_case(c2))
                    ctx.case(key=case_key(c2), nontrivial=True)
                    if f2:
                        report(ctx, c2, f2, corr_item)
                        if corr_item["has_failing_input"]:
                            break
    ctx.notes["witnesses_reproduced_on_real_code"] = witness_ok
    ctx.notes["correspondence_mismatches"] = mismatches
    ctx.notes["corpus_cases"] = ncorpus
    ctx.obligation("correspondence:Samples(model == real generators on every seeded parameter combination)", mismatches == 0, kind="correspondence")
    search_target_func(ctx, rng, ctx.scale(120, 3000))
    if broken and not any(b["has_failing_input"] for b in broken):
        # a Lean obligation broke (model file edited?): the search above over all cases is the directed search;
        # extend it with extra seeded cases before giving up
        for _ in range(ctx.scale(1500, 20000)):
            c = gen_rs(rng, big_ok=False)
            fails = prop_failures(c, call_case(c))
            ctx.case(key=case_key(c), nontrivial=True)
            if fails:
                new = [x for x in fails if x[0] not in (SIG_SIZE1, SIG_ZERO, SIG_STRADDLE, SIG_NONUNIQUE, SIG_HUGE, SIG_CZERO)]
                if new:
                    report(ctx, c, new, broken[0])
                    break


def target_func_failure(case, tf):
    """None if the generator with target_func=tf returns exactly the filtered Cartesian product of the real 1-D samples,
    'skip' when a 1-D call fails or is empty, else a (signature, text) pair."""
    np, U = _load()
    kind = case["kind"]
    f = fmt(case["fmt"])
    flags = dict(case["flags"], unique=True)
    ones = [call_rs(f, flags, sp) for sp in case["specs"]]
    if any(o[0] == "err" or len(o[1]) == 0 for o in ones):
        return "skip"
    kw = flag_kw(flags, skip=("unique",))
    v = lambda b: None if b is None else f.val(b)  # noqa: E731
    def tup(xs):
        if all(x is None for x in xs):
            return None
        if case.get("scalar") and len(set(xs)) == 1:
            return v(xs[0])  # the SCALAR form of a bound shared by all components (`_fix_limit_value` broadcasts it); seed C19_4
        return tuple(v(x) for x in xs)
    specs = case["specs"]
    try:
        with warnings.catch_warnings():
            warnings.simplefilter("ignore")
            fn = U.real_pair_samples if kind == "pair" else U.real_triple_samples
            r = fn(size=tuple(sp[0] for sp in specs), dtype=f.dtype, min_value=tup([sp[1] for sp in specs]),
                   max_value=tup([sp[2] for sp in specs]), target_func=tf, **kw)
            a = [o[1] for o in ones]
            if kind == "pair":
                e1 = np.array([x for y in a[1] for x in a[0]], dtype=f.dtype)
                e2 = np.array([y for y in a[1] for x in a[0]], dtype=f.dtype)
                keep = (e2 >= 0) if tf == "add" else (abs(e1) <= e2)
                exp = [e1[keep], e2[keep]]
            else:
                e1 = np.array([x for x in a[0] for y in a[1] for z in a[2]], dtype=f.dtype)
                e2 = np.array([y for x in a[0] for y in a[1] for z in a[2]], dtype=f.dtype)
                e3 = np.array([z for x in a[0] for y in a[1] for z in a[2]], dtype=f.dtype)
                keep = (abs(e1) <= e2) & (e3 >= 0)
                e1, e2, e3 = e1[keep], e2[keep], e3[keep]
                if not flags["nan"]:
                    a2 = abs(e2)
                    keep = (a2 == 0) | (abs(e1) < f.fi.max / a2)
                    e1, e2, e3 = e1[keep], e2[keep], e3[keep]
                exp = [e1, e2, e3]
    except Exception as e:  # noqa: BLE001
        return ("target_func:unexpected-exception:" + exc_name(e), f"{kind} generator with target_func={tf} raised {e}")
    nb = lambda arr: [f.qnan if f.isnan(b) else b for b in bits_of(f, arr)]  # noqa: E731
    if any(nb(x) != nb(y) for x, y in zip(r, exp)):
        return ("clause:target_func:" + tf, f"{kind} generator with target_func={tf} is not the filtered Cartesian product")
    return None


def search_target_func(ctx, rng, n):
    """Search-only clause: with target_func the pair/triple generators return exactly the elements of the Cartesian
    product (in order) that satisfy the predicate of the code.  Not modelled in Lean."""
    for _ in range(n):
        kind = rng.choice(["pair", "pair", "triple"])
        tf = rng.choice(["add", "mul"]) if kind == "pair" else "fma"
        case = gen_product_case(rng)
        while case["kind"] != kind:
            case = gen_product_case(rng)
        res = target_func_failure(case, tf)
        if res == "skip":
            continue
        ctx.case(key=case_key(case) + tf, nontrivial=True)
        ctx.count("target_func:" + tf)
        if res is not None:
            ctx.violation(res[0], res[1], dict(case={k: case[k] for k in ("kind", "fmt", "flags", "specs", "scalar") if k in case}, target_func=tf))


def replay(ctx, obj):
    rp = obj.get("replay") or {}
    if "case" not in rp:
        print("replay names an obligation without failing input:", obj.get("obligation"))
        print(obj.get("detail", "")[:2000])
        return 1
    _load()
    case = rp["case"]
    if "target_func" in rp:
        res = target_func_failure(case, rp["target_func"])
        print("input :", json.dumps(case), "target_func =", rp["target_func"])
        print("result:", res)
        return 0 if res in (None, "skip") else 1
    out = call_case(case)
    print("input :", json.dumps(case))
    print("real  :", canon_real(out)[:2000])
    try:
        print("model :", ctx.lean.driver("Samples", [driver_line(case)])[0][:2000])
    except Exception as e:  # noqa: BLE001
        print("model : (driver unavailable)", e)
    fails = prop_failures(case, out)
    for sig, clause, detail in fails:
        print(f"FAILS clause={clause} signature={sig} {detail}")
    return 1 if fails else 0


LEVEL_TEXT = ("Proof (partial where the code-as-written violates the property). Theorems (Lean kernel, every size, bound and flag value, all three "
              "dtypes): the stepping core start + floor(i*step/(n-1)) starts at start, ends at end, is non-decreasing, strictly increasing iff "
              "step >= n-1, with consecutive gaps differing by at most one (step); the model of real_samples never recurses deeper than one level "
              "(fuel_enough) and its outcome (value / ZeroDivisionError / AssertionError / IndexError) is characterised per branch as a function of "
              "the sample counts (outcome_*, total_partial); for EVERY input: no subnormals unless requested and strictly increasing output when "
              "unique (no_subnormal, sorted_unique); for every successful call with user bounds other than a zero bound of the wrong sign: all "
              "samples within the (permitted-adjusted) bounds, non-decreasing, adjacent same-sign samples equally spaced up to one unit "
              "(within_partial, sorted_nonunique_partial, uniform_partial); bounds (and zero when requested) contained when each side gets >= 2 "
              "samples (contains_bounds_partial); contents of the unbounded branch (within_unbounded, contains_unbounded); pair/triple/complex "
              "constructors equal the Cartesian products in the stated order (products_*). Each excluded input class has a negation witness "
              "(witness_*) replayed on the real code and a known_findings entry. The model is a hand port tied by a correspondence check that "
              "runs the real generators on seeded parameter combinations and diffs bit patterns / exception kinds.")
LEVEL_NOTE = ("Trusted: Lean kernel (axioms propext, Classical.choice, Quot.sound); the hand model Models/Samples.lean (validated by correspondence each run); "
              "numpy view/unique/repeat/tile semantics; CPython's correctly rounded int true division. Spacing of the unbounded branch after sorting, dtype "
              "of the result and the target_func filters are decided by search only.")
TECHNIQUE = "Lean 4 proofs over a bit-pattern model of real_samples + line-protocol correspondence with the real generators + clause search on returned arrays"
