"""C01 — complex-plane accuracy of every complex algorithm (16 ULP bound + design-target rate).

Model: the 14 algorithms x {complex64, complex128}, traced by the repo's tracer, fully expanded by
the package's own definitions and rewritten, regenerated on every run as canonical IR programs
(lean/FAVerif/Generated/C01.lean).  Theorems (Props/C01.lean): well-formedness and typing of every
regenerated program; special-value facts evaluated in the kernel where no libm value is needed.
The 16-ULP bound and the 99.9 % rates are NOT theorems (rounding-error analysis through libm calls
of unspecified accuracy, DESIGN.md section 8): they are decided by the search against an
independent Ziv-style mpmath reference.
Tie: regenerated + 3-way bit-level cross-check (the repo's generated NumPy implementation of the
same expanded graph == independent NumPy interpreter of the program == Lean softfloat
evaluation with the recorded libm oracle table).
"""

import json
import math
import multiprocessing
import os

from .. import algs, fpx
from ..runner import Infra
from ..translate import ir

THEOREMS = ["generated_wf", "generated_shape", "square_evalQ", "square_accuracy", "absolute_constants", "sqrt2_bounds", "ties_absolute", "absolute_accuracy", "absolute_kinds", "absolute_bit_level_c64", "absolute_bit_level_c128", "Lmax_ge4", "absolute_total_c64", "absolute_total_c128", "square_overflow_checks", "square_kinds", "square_total_c64", "square_total_c128", "square_bits_accuracy_c64", "square_bits_accuracy_c128", "absolute_c64_at_x_pinf", "absolute_c64_at_x_ninf", "absolute_c64_at_pinf_x", "absolute_c64_at_ninf_x", "absolute_c128_at_x_pinf", "absolute_c128_at_x_ninf", "absolute_c128_at_pinf_x", "absolute_c128_at_ninf_x", "absolute_c64_at_x_pzero_shape", "absolute_c64_at_x_pzero", "absolute_c64_at_x_nzero_shape", "absolute_c64_at_x_nzero", "absolute_c64_at_pzero_x_shape", "absolute_c64_at_pzero_x", "absolute_c64_at_nzero_x_shape", "absolute_c64_at_nzero_x", "absolute_c128_at_x_pzero_shape", "absolute_c128_at_x_pzero", "absolute_c128_at_x_nzero_shape", "absolute_c128_at_x_nzero", "absolute_c128_at_pzero_x_shape", "absolute_c128_at_pzero_x", "absolute_c128_at_nzero_x_shape", "absolute_c128_at_nzero_x"]
SEARCHED = ["16-ULP bound for all non-NaN inputs", "no spurious NaN / infinity / wrong sign", "99.9 % within 3 ULP (4 for sqrt, log1p) on both log-uniform streams"]
TRUSTED = [
    "Lean 4 kernel; axioms propext, Classical.choice, Quot.sound only",
    "translator fav/translate/ir.py + fav/algs.py (repo tracer, repo expansion mechanism, repo rewriter) cross-checked bit-for-bit each run",
    "mpmath with two-precision (Ziv) agreement as the reference for finite inputs; for inputs with an infinite component the C99 Annex G pattern is taken "
    "from the platform's native complex functions (numpy) — NaN/inf/sign pattern only",
    "platform libm accuracy is NOT assumed: its values are recorded per input (oracle table) for the Lean evaluation",
]
LEVEL_TEXT = ("Partial proof. Theorems: every regenerated program (14 algorithms x complex64/128, fully expanded) is well formed and has the expected interface "
              "(two real inputs, two real outputs; one for absolute), re-checked by the kernel against the current source each run. One accuracy theorem: the regenerated complex "
              "`square` (square_evalQ: its Q-run is RN(RN(x-y)RN(y+x)) — or exactly 0 when |x| = |y| — and RN(2 RN(xy))) errs, for every precision and any round-to-nearest, by at most "
              "((1+u)^3 - 1)|x^2-y^2| in the real part and u|2xy| in the imaginary part whenever the intermediate results are in the normal range (square_accuracy; u = 2^-p: within "
              "4 resp. 1 ULP), from the relative-error lemma rn_rel_err. A second: complex `absolute` (= hypot of the parts; Props/C01Abs.lean: ties_absolute — the regenerated absolute_c64/c128 are node for node the "
              "specification hypot program; absolute_accuracy) satisfies (1-u)^7 |z|^2 <= H^2 <= (1+u)^7 |z|^2 — relative error < 3.51 u, within 4 ULP — for ALL rational parts with max(|x|,|y|) >= twice the smallest normal, "
              "absent overflow, any round-to-nearest and any square root with relative error <= u, all three branches of the algorithm, gradual underflow of the ratio included; and ON BIT PATTERNS "
              "(absolute_bit_level_c64/c128, Props/C01AbsBits.lean): for all finite part patterns with max >= twice the smallest normal, whenever no float node of the expanded program is non-finite, the bit-exact softfloat run "
              "(whose sqrt is proved correctly rounded) returns a finite pattern whose value satisfies the same bounds; and with NO assumption about the run (absolute_total_c64/c128, Props/C01AbsTotal.lean): on the box "
              "2^(emin+p) <= max(|x|,|y|) <= Lmax/2 the run exists, no node overflows (forward refinement theorem + no-overflow lemmas) and the result is within 3.51 u of |z|. The accuracy clauses of the other 12 algorithms (16 ULP, "
              "no spurious NaN/inf/sign, 99.9 % design-target rates) are decided by search only: boundary-targeted, log-uniform and special-lattice inputs "
              "against an independent Ziv-style mpmath reference, on the repo's own generated NumPy implementation of the expanded graph.")
LEVEL_NOTE = "ULP bounds and rates: search only, except complex square and complex absolute (theorems over Q and on bit patterns with no assumption about the run on explicit boxes: square_total_c64/c128, absolute_total_c64/c128; and for EVERY non-NaN x: |x +- i inf| = |+-inf + ix| = +inf, |x +- 0i| = |+-0 + ix| = |x| exactly: Props/C01AbsLimits.lean, C01AbsZero.lean). Model tie: 3-way bit-level correspondence incl. Lean softfloat evaluation with recorded libm values."
TECHNIQUE = "translator-regenerated Lean programs (kernel-checked well-formedness) + 3-way correspondence + mpmath Ziv reference search"

TARGET_ULP = {"sqrt": 4, "log1p": 4}
DTYPES = ["complex64", "complex128"]


def ordinal(b, fmt):
    w = fpx.FMT[fmt][2]
    m = b & ((1 << (w - 1)) - 1)
    return -m if b >> (w - 1) else m


def ulp_dist(got, accept, fmt):
    """min lattice distance between `got` and the acceptable patterns; NaN handling: 0 if both NaN else huge"""
    best = None
    for a in accept:
        if a == "nan" or got == "nan":
            d = 0 if a == got else 1 << 62
        else:
            d = abs(ordinal(got, fmt) - ordinal(a, fmt))
        best = d if best is None else min(best, d)
    return best


def gen_points(rng, fmt, prog, n):
    """-> list of (stream, xb, yb)"""
    p, ew, w = fpx.FMT[fmt]
    sign = 1 << (w - 1)
    inf = ((1 << ew) - 1) << (p - 1)
    pts = []

    def rnd_sign(b):
        return b | (rng.getrandbits(1) << (w - 1))

    # (a) log-uniform over bit patterns (finite)
    for _ in range(n):
        pts.append(("bits", rnd_sign(rng.randrange(0, inf)), rnd_sign(rng.randrange(0, inf))))
    # (b) magnitudes 2^-12 .. 2^12
    bias = (1 << (ew - 1)) - 1
    for _ in range(n):
        def mid():
            return rnd_sign(((bias + rng.randrange(-12, 12)) << (p - 1)) | rng.getrandbits(p - 1))
        pts.append(("mid", mid(), mid()))
    # (c) boundary-targeted: +-4 ULP around every threshold constant of the regenerated program, and around 1
    ths = [t for t in algs.thresholds(prog) if t & ~sign and (t & ~sign) < inf] + [bias << (p - 1)]
    for _ in range(n):
        t = rng.choice(ths) & ~sign
        a = max(0, min(inf - 1, t + rng.randrange(-4, 5)))
        r = rng.random()
        if r < 0.4:
            b = max(0, min(inf - 1, (rng.choice(ths) & ~sign) + rng.randrange(-4, 5)))
        elif r < 0.7:
            b = rng.randrange(0, inf)
        else:
            b = ((bias + rng.randrange(-12, 12)) << (p - 1)) | rng.getrandbits(p - 1)
        if rng.random() < 0.5:
            a, b = b, a
        pts.append(("edge", rnd_sign(a), rnd_sign(b)))
    # universal critical magnitudes (overflow / underflow boundaries of the elementary functions the algorithms call): not
    # constants of the program, but where exp / log / sqrt / squares of an input change regime
    import math
    import numpy
    fi = numpy.finfo(fpx.NPF[fmt])
    U = [math.log(float(fi.max)), math.log(float(fi.max)) / 2, -math.log(float(fi.smallest_normal)), -math.log(float(fi.smallest_subnormal)),
         math.sqrt(float(fi.max)), math.sqrt(float(fi.smallest_normal)), float(fi.max) / 2, float(fi.max) / 4, float(fi.smallest_normal),
         math.pi / 2, math.pi, math.log(2.0)]
    uni = [int(ir.canon_bits(ir.bits_of(fpx.NPF[fmt](u), fmt), fmt)) & ~sign for u in U]
    crit = ths + uni
    # (c'') NEAR a critical magnitude: relative distance log-uniform from 1 ULP to 2^-4, either side; the other component anywhere
    def near(t):
        k = rng.randrange(0, p - 4)
        d = rng.randrange(1 << k, 2 << k)
        return max(1, min(inf - 1, (t & ~sign) + (d if rng.random() < 0.5 else -d)))
    for _ in range(n):
        a = near(rng.choice(crit))
        r = rng.random()
        b = near(rng.choice(crit)) if r < 0.3 else (rng.randrange(0, inf) if r < 0.6 else ((bias + rng.randrange(-12, 12)) << (p - 1)) | rng.getrandbits(p - 1))
        if rng.random() < 0.5:
            a, b = b, a
        pts.append(("near", rnd_sign(a), rnd_sign(b)))
    # (c') threshold BANDS: both components within a factor 2^4 of (possibly different) threshold constants, log-uniform inside
    # the band — a changed threshold damages a region that is thin in one direction only when seen through the other
    # component (e.g. big component in [T, 8T) while the other is a few octaves below another threshold T')
    def band(t):
        e = (t & ~sign) >> (p - 1)
        e = max(0, min((1 << ew) - 2, e + rng.randrange(-4, 5)))
        return (e << (p - 1)) | rng.getrandbits(p - 1)
    for _ in range(n):
        pts.append(("band", rnd_sign(band(rng.choice(crit))), rnd_sign(band(rng.choice(crit)))))
    # (e) critical CURVES of the complex plane (not visible component-wise): the circles |z| = 1 (log, log2, log10: log|z| cancels) and
    # |1 + z| = 1 (log1p), at distance delta log-uniform from one ulp to 1/4 on either side and at a uniform angle, and small circles
    # around the branch points +-1, +-i (asin, acos, atanh, ...).  Computed in float64, then rounded to the format.
    def to_bits(v):
        return int(ir.canon_bits(ir.bits_of(fpx.NPF[fmt](v), fmt), fmt))
    centres = [(0.0, 0.0), (-1.0, 0.0), (1.0, 0.0), (0.0, 1.0), (0.0, -1.0)]
    for _ in range(n):
        cx, cy = rng.choice(centres[:2]) if rng.random() < 0.6 else rng.choice(centres[2:])
        delta = 2.0 ** (-rng.uniform(2, p + 1)) * rng.choice((-1, 1))
        big = (cx, cy) in centres[:2] or rng.random() < 0.3
        rad = 1.0 + delta if big else abs(delta) * 4
        if rng.random() < 0.8:
            th = rng.uniform(0, 2 * math.pi)
        else:
            th = rng.choice((0.25, 0.75, 1.25, 1.75, 0.5, 1.0, 1.5)) * math.pi + rng.uniform(-1, 1) * 2.0 ** (-rng.randrange(2, p))
        xv, yv = cx + rad * math.cos(th), cy + rad * math.sin(th)
        xb_, yb_ = to_bits(xv), to_bits(yv)
        if rng.random() < 0.3:
            # move along the format's lattice near the curve: nudge the smaller component by a few ulps
            if abs(xv) < abs(yv):
                xb_ = max(0, (xb_ & ~sign) + rng.randrange(-3, 4)) | (xb_ & sign)
            else:
                yb_ = max(0, (yb_ & ~sign) + rng.randrange(-3, 4)) | (yb_ & sign)
        pts.append(("curve", xb_, yb_))
    # (f) subnormal components (the property names them): both subnormal with log-uniform magnitudes, or one subnormal and the other
    # anything — the uniform-over-patterns stream meets a subnormal component once in 2^ew
    def subn():
        return rnd_sign(max(1, rng.randrange(1, 1 << (p - 1)) >> rng.randrange(0, p - 1)))
    for _ in range(max(1, n // 2)):
        r = rng.random()
        a = subn()
        b = subn() if r < 0.5 else (rnd_sign(rng.randrange(0, inf)) if r < 0.8 else rnd_sign(((bias + rng.randrange(-12, 12)) << (p - 1)) | rng.getrandbits(p - 1)))
        if rng.random() < 0.5:
            a, b = b, a
        pts.append(("subnormal", a, b))
    # (d) special lattice (finite and infinite)
    L = [0, 1, 1 << (p - 1), bias << (p - 1), inf - 1, inf]
    L = L + [v | sign for v in L]
    for a in L:
        for b in L:
            pts.append(("lattice", a, b))
    return pts


def native_pattern(name, fmt, xb, yb):
    """NaN/inf/sign pattern of the platform's native complex function (Annex G reference for infinite inputs)."""
    import warnings

    import numpy

    cdt = numpy.complex64 if fmt == "float32" else numpy.complex128
    z = numpy.array(fpx.arr_from_bits([xb, yb], fmt)).view(cdt)[0]
    f = dict(absolute=numpy.abs, acos=numpy.arccos, acosh=numpy.arccosh, asin=numpy.arcsin, asinh=numpy.arcsinh, atan=numpy.arctan,
             atanh=numpy.arctanh, exp=numpy.exp, log=numpy.log, log2=numpy.log2, log10=numpy.log10, log1p=numpy.log1p, sqrt=numpy.sqrt,
             square=numpy.square)[name]
    with warnings.catch_warnings(), numpy.errstate(all="ignore"):
        warnings.simplefilter("ignore")
        r = f(z)
    if isinstance(r, numpy.complexfloating):
        parts = numpy.array([r], dtype=cdt).view(fpx.NPF[fmt])
        return [ir.canon_bits(ir.bits_of(parts[0], fmt), fmt), ir.canon_bits(ir.bits_of(parts[1], fmt), fmt)]
    return [ir.canon_bits(ir.bits_of(fpx.NPF[fmt](r), fmt), fmt)]


def klass(b, fmt):
    """coarse pattern: nan / +inf / -inf / +fin / -fin (zeros by sign)"""
    if b == "nan":
        return "nan"
    p, ew, w = fpx.FMT[fmt]
    s = "-" if b >> (w - 1) else "+"
    return s + ("inf" if not fpx.is_finite(b, fmt) else "fin")


def region(b, fmt):
    """coarse magnitude class of an input component (used in cause signatures)"""
    p, ew, w = fpx.FMT[fmt]
    m = b & ((1 << (w - 1)) - 1)
    e = m >> (p - 1)
    bias = (1 << (ew - 1)) - 1
    if m == 0:
        return "zero"
    if e == (1 << ew) - 1:
        return "inf"
    if e == 0:
        return "subnormal"
    if 2 * (e - bias) < -(bias - 1):
        return "square-underflows"  # its square is below the smallest normal
    if m == bias << (p - 1):
        return "one"
    if e < bias:
        return "lt1"
    if e - bias >= bias // 2:
        return "square-overflows"
    return "gt1"


def known_cause(name, fmt, comp, xb, yb, d, kind="more-than-16-ulp"):
    """Cause classes of genuine accuracy limits of the unchanged algorithms, each with an ENVELOPE on the error it explains (an error
    above the envelope keeps its region signature and is a violation):
    * log1p, real part, z within D = ||1+z|^2 - 1|/2 of the circle |1+z| = 1: the result is ~ +-D and the double-word evaluation of
      x^2 + 2x + y^2 carries an absolute error of a few u^2, i.e. ~ 2.5 u/D ulps of the result (u = 2^-p); allowed 16 + 3 u/D;
    * sqrt with both components subnormal: hypot(|x|,|y|) is itself subnormal with only b significant bits, and the result inherits
      a multiple of its relative error (measured up to 2^(p-b+2.01) ulps: 16473 at b = 11 in complex64); allowed 16 + 2^(p-b+3), b = bit length of the larger subnormal pattern."""
    from fractions import Fraction

    p, ew, w = fpx.FMT[fmt]
    if kind == "spurious-infinity":
        # * exp, imaginary part, x > 2 log(largest): the overflow branch computes exp(x/2) * sin(y) * exp(x/2), and exp(x/2) itself is
        #   infinite there, although exp(x) * |sin y| is finite for a tiny (e.g. subnormal) y
        if name == "exp" and comp == 1:
            X = fpx.to_fraction(xb, fmt)
            import numpy
            if X is not None and X > 2 * Fraction(math.log(float(numpy.finfo(fpx.NPF[fmt]).max))):
                return "im:spurious-infinity:x>2*log(largest)-so-exp(x/2)-overflows"
        return None
    if name == "log1p" and comp == 0:
        X, Y = fpx.to_fraction(xb, fmt), fpx.to_fraction(yb, fmt)
        if X is None or Y is None:
            return None
        D = abs((1 + X) ** 2 + Y ** 2 - 1) / 2
        if D > 0 and d <= 16 + 3 * float(Fraction(1, 2 ** p) / D):
            return "re:cancellation-at-the-circle-|1+z|=1(error<=16+3u/D)"
    if name == "sqrt" and region(xb, fmt) == "subnormal" and region(yb, fmt) == "subnormal":
        m = max(xb & ((1 << (w - 1)) - 1), yb & ((1 << (w - 1)) - 1))
        if d <= 16 + 2 ** (p - m.bit_length() + 3):
            return "both-components-subnormal(error<=16+2^(p-b+3))"
    return None


def work(task):
    """One (name, dtype): returns stats, violations and Lean lines."""
    import random
    import warnings

    from .. import mpref

    name, dtype, n, seed = task
    rng = random.Random(f"{seed}:{name}:{dtype}")
    out = dict(name=name, dtype=dtype, violations=[], lean_lines=[], lean_expect=[], corr_bad=[], counts={}, samples=[])
    try:
        entry = algs.build(name, dtype)
    except Exception as e:
        out["error"] = f"{type(e).__name__}: {e}"
        return out
    fmt, prog = entry["fmt"], entry["prog"]
    out["prog"] = prog
    pts = gen_points(rng, fmt, prog, n)
    res = algs.run_func(entry, [[pt[1] for pt in pts], [pt[2] for pt in pts]])
    tgt = TARGET_ULP.get(name, 3)
    out["lean_lines"].append(ir.prog_to_line(prog))
    out["lean_expect"].append(None)
    rate = {"bits": [0, 0], "mid": [0, 0]}
    worst = 0
    nontriv = 0
    for i, ((stream, xb, yb), got) in enumerate(zip(pts, res)):
        finite_in = fpx.is_finite(xb, fmt) and fpx.is_finite(yb, fmt)
        # 3-way correspondence on a subset
        if i % 6 == 0:
            with warnings.catch_warnings():
                warnings.simplefilter("ignore")
                o2, calls = ir.eval_prog_numpy(prog, [xb, yb])
            if tuple(o2) != tuple(got):
                out["corr_bad"].append(dict(inputs=[xb, yb], generated=list(got), interpreter=o2))
            orc = " ".join(f"{nm}:{','.join(map(str, a))}:{r}" for nm, a, r in calls)
            out["lean_lines"].append(f"eval {xb},{yb}" + (" " + orc if orc else ""))
            out["lean_expect"].append(([xb, yb], " ".join(map(str, o2))))
        if not finite_in:
            # Annex G pattern for infinite inputs: no spurious NaN, same inf/sign pattern as the platform's native function
            nat = native_pattern(name, fmt, xb, yb)
            for comp, (g, r_) in enumerate(zip(got, nat)):
                kg, kr = klass(g, fmt), klass(r_, fmt)
                if kg == "nan" and kr != "nan":
                    out["violations"].append(dict(sig=f"{name}:{dtype}:spurious-nan-at-infinite-input:{'re' if comp == 0 else 'im'}:x={klass(xb, fmt)},y={klass(yb, fmt)}", comp=comp, x=xb, y=yb, got=list(got), native=nat))
            out["counts"]["infinite-input"] = out["counts"].get("infinite-input", 0) + 1
            continue
        ref = mpref.ref_complex(name, fmt, xb, yb)
        if ref is None:
            out["counts"]["reference-undetermined"] = out["counts"].get("reference-undetermined", 0) + 1
            continue
        if name == "absolute":
            ref = (ref[0],)
        dmax = 0
        for comp, (g, acc) in enumerate(zip(got, ref)):
            d = ulp_dist(g, acc, fmt)
            dmax = max(dmax, d)
            if d > 16:
                if g == "nan":
                    kind = "spurious-nan"
                elif g != "nan" and not fpx.is_finite(g, fmt) and all(a != "nan" and fpx.is_finite(a, fmt) for a in acc):
                    kind = "spurious-infinity"
                elif all(a != "nan" and (a >> (fpx.FMT[fmt][2] - 1)) != (g >> (fpx.FMT[fmt][2] - 1)) for a in acc) and d > (1 << 20):
                    kind = "wrong-sign-or-magnitude"
                else:
                    kind = "more-than-16-ulp"
                rx, ry = region(xb, fmt), region(yb, fmt)
                tiny = ("subnormal", "square-underflows")
                if (rx == "one" and ry in tiny) or (ry == "one" and rx in tiny):
                    # one cause, many symptoms (0 instead of ~sqrt(2|y|), log(0) = -inf, 1/0 = inf, lost digits)
                    sig = f"{name}:{dtype}:unit-component-with-other-component-whose-square-underflows"
                elif kind in ("more-than-16-ulp", "spurious-infinity") and (cause := known_cause(name, fmt, comp, xb, yb, d, kind)) is not None:
                    sig = f"{name}:{dtype}:{cause}"
                else:
                    sig = f"{name}:{dtype}:{kind}:{'re' if comp == 0 else 'im'}:|x|={rx},|y|={ry}"
                out["violations"].append(dict(sig=sig, kind=kind, comp=comp, x=xb, y=yb, got=list(got), ref=[sorted(map(str, a)) for a in ref], ulp=d if d < (1 << 61) else "nan/inf"))
        worst = max(worst, dmax if dmax < (1 << 61) else 0)
        if stream in rate:
            rate[stream][0] += 1
            rate[stream][1] += 1 if dmax > tgt else 0
        nontriv += 1
        if len(out["samples"]) < 2:
            out["samples"].append(dict(fn=name, dtype=dtype, x=xb, y=yb, got=list(got), ulp=dmax))
    for stream, (tot, exc) in rate.items():
        # 99.9 % within target: fail only when the exceedance count is significantly above 0.1 % of the stream
        allowed = 0.001 * tot + 3 * math.sqrt(0.001 * tot) + 1
        if exc > allowed:
            out["violations"].append(dict(sig=f"{name}:{dtype}:rate-above-target:{stream}", total=tot, exceed=exc, target_ulp=tgt))
    out["counts"].update(points=len(pts), checked=nontriv, worst_ulp=worst, exceed_bits=rate["bits"][1], exceed_mid=rate["mid"][1])
    return out


def generate(ctx, results=None):
    progs = {}
    errors = {}
    for name in algs.COMPLEX:
        for dt in DTYPES:
            key = f"{name}_{'c64' if dt == 'complex64' else 'c128'}"
            try:
                progs[key] = algs.build(name, dt)["prog"]
            except Exception as e:
                errors[key] = f"{type(e).__name__}: {e}"
    lines = ["/- GENERATED by fav/props/c01.py from /repo's current source; do not edit. -/", "import FAVerif.IR.Prog", "",
             "namespace FAVerif.Gen.C01", "open FAVerif.IR", ""]
    for key in sorted(progs):
        lines.append(ir.prog_to_lean(progs[key], key))
    lines.append("def all : List (String × Prog) := [")
    lines.append(",\n".join(f'  ("{k}", {k})' for k in sorted(progs)))
    lines.append("]\n")
    lines.append("end FAVerif.Gen.C01")
    ctx.lean.write_generated("C01.lean", "\n".join(lines) + "\n")
    return progs, errors


def run(ctx):
    ctx.rule = ("per (function, dtype): log-uniform bit patterns, magnitudes 2^-12..2^12, +-4 ULP around every threshold constant of the regenerated program, "
                "special lattice (zeros, subnormal, min normal, 1, max, inf); non-trivial = finite input with a determined mpmath reference; distinct by input bits")
    progs, errors = generate(ctx)
    broken = ctx.lean_stage(["FAVerif.Props.C01", "FAVerif.Props.C01Abs", "FAVerif.Props.C01AbsBits", "FAVerif.Props.C01AbsTotal", "FAVerif.Props.C01SquareTotal", "FAVerif.Props.C01AbsLimits", "FAVerif.Props.C01AbsZero"], THEOREMS)
    for k, e in errors.items():
        broken.append(ctx.broken(f"translate:{k}", e))
    n = ctx.scale(700, 60000)
    tasks = [(name, dt, n, ctx.seed) for name in algs.COMPLEX for dt in DTYPES]
    with multiprocessing.Pool(min(14, os.cpu_count() or 4)) as pool:
        results = pool.map(work, tasks, chunksize=1)
    lean_lines, lean_expect = [], []
    corr_bad = 0
    for r in results:
        key = f"{r['name']}:{r['dtype']}"
        if "error" in r:
            broken.append(ctx.broken(f"translate:{key}", r["error"]))
            continue
        for k, v in r["counts"].items():
            ctx.notes[f"{key}:{k}"] = v
        ctx.evaluations += r["counts"].get("points", 0)
        ctx.nontrivial_extra += r["counts"].get("checked", 0)
        for s in r["samples"]:
            ctx.sample(s, limit=6)
        for cb in r["corr_bad"][:2]:
            corr_bad += 1
            broken.append(ctx.broken(f"correspondence:generated-vs-interpreter:{key}", json.dumps(cb)))
        seen = set()
        for v in r["violations"]:
            if v["sig"] in seen:
                continue
            seen.add(v["sig"])
            ctx.violation(v["sig"], f"{v['sig']}: {json.dumps({k: v[k] for k in v if k != 'sig'}, default=str)[:400]}",
                          dict(fn=r["name"], dtype=r["dtype"], **{k: v[k] for k in v if k != "sig"}))
        lean_lines += r["lean_lines"]
        lean_expect += r["lean_expect"]
    out = ctx.lean.driver("Prog", lean_lines, timeout=3000)
    if len(out) != len(lean_lines):
        raise Infra("Prog driver output length mismatch")
    lean_bad = 0
    for o, e in zip(out, lean_expect):
        if e is None:
            if not (o.startswith("ok") and o.endswith("true")):
                lean_bad += 1
                broken.append(ctx.broken("correspondence:lean-prog-load", o))
            continue
        ctx.traces_validated += 1
        if o != e[1]:
            lean_bad += 1
            if lean_bad <= 3:
                broken.append(ctx.broken("correspondence:lean-eval", json.dumps(dict(inputs=e[0], lean=o, numpy=e[1]))))
    ctx.obligation("correspondence: generated NumPy implementation == independent interpreter of the regenerated program", corr_bad == 0, kind="correspondence")
    ctx.obligation("correspondence: Lean softfloat evaluation (recorded libm oracle) == NumPy evaluation", lean_bad == 0, kind="correspondence")


def replay(ctx, obj):
    from .. import mpref

    rp = obj.get("replay") or {}
    if "fn" not in rp or "x" not in rp:
        print("replay without a failing input:", obj.get("obligation") or obj.get("signature"))
        return 1
    entry = algs.build(rp["fn"], rp["dtype"])
    got = algs.run_func(entry, [[rp["x"]], [rp["y"]]])[0]
    ref = mpref.ref_complex(rp["fn"], entry["fmt"], rp["x"], rp["y"])
    print(dict(got=got, ref=ref))
    if ref is None:
        return 1
    return 1 if any(ulp_dist(g, a, entry["fmt"]) > 16 for g, a in zip(got, ref)) else 0
