"""C12 — floating-point expansion arithmetic preserves value and normal form.

Model: lean/FAVerif/Models/Renorm.lean (vecsum, VecSumErrBranch eager + functional, compaction),
hand-written, generic over the arithmetic.  Theorems (Props/C12.lean): for EVERY length, every
precision, any round-to-nearest: VecSum / eager / functional renormalisation preserve the exact
sum; add/subtract of expansions are exact without size limit.
Tie: (a) correspondence of the model (instantiated with the bit-exact softfloat, Drivers/Renorm.lean)
with the real eager and functional `apmath.renormalize` on the same bit patterns; (b) the functional
variants for lengths 1..6 are also traced through the repo's tracer and cross-checked 3-way.
Search (real code, exact rationals): value preservation (all variants), normal form after <= 2
passes, add/subtract exactness, multiply/square error < 1 ulp of the leading term.
"""

import json
import warnings
from fractions import Fraction

import numpy

from .. import engine, fpx
from ..translate import blocks

THEOREMS = ["vecsum_value", "renorm_eager_value", "renorm_functional_value", "add_sub_value", "renorm_two_terms_normal", "multiply_exact", "square_exact", "twoProdSpec_ok", "multiply_exact_dekker", "square_exact_dekker"]
SEARCHED = ["non-overlap / decreasing magnitude after at most two passes", "fast=True variants (decreasing-magnitude precondition)",
            "size-limited variants", "multiply / square: error < 1 ulp of the leading term", "overflow-free hypothesis"]
TRUSTED = [
    "Lean 4 kernel; axioms propext, Classical.choice, Quot.sound only",
    "hand model Models/Renorm.lean of apmath.renormalize / vecsum / nztopk(k = len) / multiply / square (raw accumulation), tied by correspondence on bit patterns each run",
    "two_prod exact on its domain (TwoProdOK): hypothesis of the product theorems; Dekker's product is proved exact in C10",
    "FP theory over Q (overflow excluded by hypothesis; any round-to-nearest)",
    "FP/Soft.lean == machine arithmetic (validated against NumPy)",
]
LEVEL_TEXT = ("Proof for value preservation: for every list length, precision, emin and round-to-nearest tie rule, VecSum, the eager renormalisation and the "
              "functional (select-based, fixed-length, zero-compacted) renormalisation return lists with exactly the input sum, hence add/subtract of expansions "
              "are exact without size limit (list induction from the proved 2Sum). The model is a hand port tied by bit-level correspondence with the real eager and "
              "functional code. PRODUCTS (Props/C12Prod.lean, Lemmas/RenormProd.lean): the model of apmath.multiply / apmath.square (diagonal accumulation mulRaw / squareRaw: two_prod of every pair, "
              "VecSum per diagonal, doubling of off-diagonal terms, then renormalize) is tied to the real code by bit-level correspondence (the driver uses the REGENERATED traced two_prod), and multiply_exact / square_exact "
              "prove for EVERY pair of lengths, every precision and round-to-nearest: the result (raw, eager-renormalised, functional-renormalised) has exactly the sum seq1.sum*seq2.sum resp. (seq.sum)^2, given an error-free "
              "two_prod on the operand pairs (TwoProdOK with a domain predicate — Dekker's product, proved exact on its documented domain in C10) and no truncation by a size limit; the combinatorial core is "
              "sum_n sum_i [i <= n, n-i < L2] a_i b_(n-i) = (sum a)(sum b) (diag_sum_mul, diag_sum_sq). So the '< 1 ulp of the leading term' clause holds with error 0 whenever nothing is truncated. "
              "Non-overlap after <= 2 passes, fast variants, size-limit truncation (where the < 1 ulp bound is needed) are decided by exact-rational search only.")
LEVEL_NOTE = "Overflow-free rational model; non-overlap (Boldo-Joldes-Muller-Popescu) and the product error bound under size-limit truncation are not theorems here; untruncated products are proved exact."
TECHNIQUE = "Lean 4 list-induction proof over an arithmetic-generic model + bit-level correspondence + exact-rational search"

FMTS = ["float16", "float32", "float64"]
W = {"float16": 16, "float32": 32, "float64": 64}


def np_ctx(fmt):
    from functional_algorithms import utils

    return utils.NumpyContext(blocks.DTYPES[fmt])


def gen_expansion(rng, fmt, n, decreasing):
    """Bit patterns of a list of n finite floats: overlapping or not, with zeros, equal magnitudes, cancellation."""
    p, ew, w = fpx.FMT[fmt]
    emax_f = (1 << ew) - 2
    hi = emax_f - 4
    kind = rng.randrange(6)
    base = rng.randrange(p + 2, hi)
    out = []
    ef = base
    for i in range(n):
        if rng.random() < 0.12:
            out.append(rng.choice([0, 1 << (w - 1)]))
            continue
        if kind == 0:  # non-overlapping decreasing
            ef = max(0, ef - rng.randrange(p, p + 3)) if i else base
        elif kind == 1:  # overlapping decreasing
            ef = max(0, ef - rng.randrange(0, p // 2 + 1)) if i else base
        elif kind == 2:  # equal magnitudes / cancellation
            ef = base
        elif kind == 3:  # arbitrary order
            ef = max(0, min(hi, base + rng.randrange(-2 * p, 2 * p)))
        elif kind == 4:  # tiny (subnormal range)
            ef = rng.randrange(0, 4)
        else:
            ef = max(0, ef - rng.randrange(0, p + 3)) if i else base
        m = fpx.directed_patterns(rng, fmt, 1)[0] & ((1 << (p - 1)) - 1)
        if kind == 2 and i and rng.random() < 0.5:
            out.append(out[0] ^ (1 << (w - 1)))
        else:
            out.append(fpx.pattern(fmt, rng.getrandbits(1), ef, m))
    if decreasing:
        out.sort(key=lambda b: -(b & ((1 << (w - 1)) - 1)))
    return out


def gen_difference(rng, fmt):
    """a ++ (-b) as `subtract` builds it: a, b non-overlapping decreasing expansions that share their leading terms (exact
    cancellation at the head), different tails"""
    p, ew, w = fpx.FMT[fmt]
    emax_f = (1 << ew) - 2
    sign = 1 << (w - 1)

    def normalised(n, ef):
        o = []
        for _ in range(n):
            if ef < 1:
                break
            o.append(fpx.pattern(fmt, rng.getrandbits(1), ef, fpx.directed_patterns(rng, fmt, 1)[0] & ((1 << (p - 1)) - 1)))
            ef -= p + rng.randrange(1, 4)
        return o

    ef0 = rng.randrange(4 * p + 4, emax_f - 4) if emax_f > 5 * p + 8 else rng.randrange(2 * p, emax_f - 2)
    a = normalised(rng.choice([2, 3, 3]), ef0)
    k = rng.randrange(1, len(a) + 1)
    if k < len(a):
        ef_tail = ((a[k] & (sign - 1)) >> (p - 1)) - rng.randrange(0, 3)
    else:
        ef_tail = ((a[-1] & (sign - 1)) >> (p - 1)) - p - rng.randrange(1, 4)
    b = a[:k] + normalised(rng.choice([1, 2]), ef_tail)
    b = b[:3]
    return a + [x ^ sign for x in b]


def fr(b, fmt):
    return fpx.to_fraction(b, fmt)


def canon0(b, fmt):
    if b == "nan":
        return b
    return 0 if (b & ((1 << (W[fmt] - 1)) - 1)) == 0 else b


def _nondefault(functional, fast, size):
    """keyword arguments that differ from the documented defaults (functional=False, fast=False, size=None) only: a requested
    configuration that IS the default is called by omission, so the default values in the signatures are exercised too (a first-order
    mutant `fast=True` in the signature of apmath.multiply survived when every keyword was always passed)"""
    kw = {}
    if functional:
        kw["functional"] = True
    if fast:
        kw["fast"] = True
    if size is not None:
        kw["size"] = size
    return kw


def real_renorm(fmt, bits, functional, fast, size=None):
    from functional_algorithms import apmath

    dt = blocks.DTYPES[fmt]
    seq = [fpx.arr_from_bits([b], fmt)[0] for b in bits]
    with warnings.catch_warnings(), numpy.errstate(all="ignore"):
        warnings.simplefilter("ignore")
        res = apmath.renormalize(np_ctx(fmt), seq, **_nondefault(functional, fast, size))
    return [engine.ir.canon_bits(engine.ir.bits_of(dt(v), fmt), fmt) for v in res]


def real_binop(name, fmt, b1, b2, functional, fast=False, size=None):
    from functional_algorithms import apmath

    dt = blocks.DTYPES[fmt]
    s1 = [fpx.arr_from_bits([b], fmt)[0] for b in b1]
    s2 = [fpx.arr_from_bits([b], fmt)[0] for b in b2]
    with warnings.catch_warnings(), numpy.errstate(all="ignore"):
        warnings.simplefilter("ignore")
        if name == "square":
            res = apmath.square(np_ctx(fmt), s1, **_nondefault(functional, fast, size))
        else:
            res = getattr(apmath, name)(np_ctx(fmt), s1, s2, **_nondefault(functional, fast, size))
    return [engine.ir.canon_bits(engine.ir.bits_of(dt(v), fmt), fmt) for v in res]


def ulp_of(q, fmt):
    """ulp of the float nearest to q (as Fraction)"""
    p = fpx.FMT[fmt][0]
    b = fpx.round_ne(q, fmt)
    d = fpx.decode(b, fmt)
    if d[0] != "fin":
        return None
    _, s, m, e = d
    if m == 0:
        return Fraction(2) ** fpx.emin(fmt)
    # normalise: ulp = 2^(e + bitlen(m) - p) but at least 2^emin
    return Fraction(2) ** max(e + m.bit_length() - p, fpx.emin(fmt))


def normal_form(vals, fmt):
    """None if non-zero neighbours are strictly decreasing in magnitude and non-overlapping, else description."""
    nz = [v for v in vals if v != 0]
    for a, b in zip(nz, nz[1:]):
        if not abs(a) > abs(b):
            return f"not decreasing: |{float(a)}| <= |{float(b)}|"
        if abs(b) >= ulp_of(a, fmt):
            return f"overlapping neighbours {float(a)}, {float(b)}"
    return None


def finite_list(bits, fmt):
    return all(b != "nan" and fpx.is_finite(b, fmt) for b in bits)


def run(ctx):
    ctx.rule = ("expansions of length 1..6 (non-overlapping / overlapping / equal magnitudes with cancellation / arbitrary order / subnormal range, interior zeros) "
                "x {eager, functional} x {safe, fast} x size limits; non-trivial = at least two non-zero items and all results finite; distinct by bit patterns")
    # (b) traced functional variants for lengths 1..6: 3-way cross-check through the engine
    from functional_algorithms import apmath

    V = {}
    for n in range(1, 7):
        for fast in (False, True):
            nm = f"renorm_functional_{n}" + ("_fast" if fast else "")
            V[nm] = dict(nargs=n, clause="renorm", opts=dict(fast=fast, n=n),
                         trace=lambda fmt, fast=fast, n=n: engine.trace_expr_fn(lambda c, *a: apmath.renormalize(c, list(a), functional=True, fast=fast), n, fmt),
                         eager=lambda fmt, a, fast=fast: apmath.renormalize(np_ctx(fmt), list(a), functional=True, fast=fast))
    # the error-free product the expansion products are built on (used by the Lean driver as `two_prod` on bit patterns)
    V["two_prod"] = dict(nargs=2, clause="two_prod", opts=dict(fast=False, n=2),
                         trace=lambda fmt: engine.trace_expr_fn(lambda c, x, y: apmath.two_prod(c, x, y), 2, fmt),
                         eager=lambda fmt, a: apmath.two_prod(np_ctx(fmt), a[0], a[1]))
    progs, errors = engine.generate(ctx, V, "C12", FMTS)
    # the regenerated programs are compiled too: the driver uses the traced two_prod as the error-free product
    broken = ctx.lean_stage(["FAVerif.Props.C12", "FAVerif.Props.C12Prod"], THEOREMS, extra_targets=["FAVerif.Generated.C12"])

    def gen_inputs(c, fmt, v, n):
        if v["clause"] == "two_prod":
            p_, ew_, w_ = fpx.FMT[fmt]
            mid_ = (1 << (ew_ - 1)) - 1
            return [tuple(fpx.pattern(fmt, c.rng.getrandbits(1), mid_ + c.rng.randrange(-p_, p_), fpx.directed_patterns(c.rng, fmt, 1)[0] & ((1 << (p_ - 1)) - 1))
                          for _ in range(2)) for _ in range(n)]
        return [tuple(gen_expansion(c.rng, fmt, v["nargs"], v["opts"]["fast"])) for _ in range(n)]

    def check_traced(v, fmt, t, outs, allfin, prog):
        if not finite_list(outs, fmt) or not allfin:
            return None
        if v["clause"] == "two_prod":
            # documented domain: the error term must be representable
            a_, b_ = fr(t[0], fmt), fr(t[1], fmt)
            if a_ * b_ != 0 and abs(a_ * b_) < Fraction(2) ** (fpx.emin(fmt) + 2 * fpx.FMT[fmt][0]):
                return None
            return None if fr(outs[0], fmt) + fr(outs[1], fmt) == a_ * b_ else "two_prod: hi + lo != x*y"
        if v["opts"]["fast"]:
            return None  # decided below with the precondition made explicit
        if sum(fr(b, fmt) for b in outs) != sum(fr(b, fmt) for b in t):
            return "functional renormalize changed the exact sum"
        return None

    engine.run_variants(ctx, V, progs, errors, FMTS, gen_inputs=gen_inputs, check_clause=check_traced, n_per=ctx.scale(150, 5000), broken=broken,
                        lean_every=4)

    # (a) hand model vs real eager / functional code + the property clauses on the real results
    n_cases = ctx.scale(2500, 120000)
    lines, expect = [], []
    rng = ctx.rng
    for k in range(n_cases):
        fmt = rng.choice(FMTS)
        n = rng.choice([1, 2, 2, 3, 3, 4, 5, 6])
        fast = rng.random() < 0.3
        functional = rng.random() < 0.5
        bits = gen_expansion(rng, fmt, n, decreasing=fast)
        is_diff = False
        if not fast and rng.random() < 0.15:
            bits = gen_difference(rng, fmt)
            n = len(bits)
            is_diff = True
            ctx.count("stream:difference-of-normalised-expansions")
        xs = [fr(b, fmt) for b in bits]
        try:
            out = real_renorm(fmt, bits, functional, fast)
        except Exception as e:  # the real code raised on a finite expansion
            ctx.violation(f"renormalize-raises:{type(e).__name__}", f"renormalize raised {type(e).__name__}: {e} on {fmt} {bits} functional={functional} fast={fast}",
                          dict(op="renorm", fmt=fmt, bits=bits, functional=functional, fast=fast))
            continue
        mode = "functional" if functional else "eager"
        ctx.count(f"{mode}:{'fast' if fast else 'safe'}:{fmt}:n={n}")
        if not finite_list(out, fmt):
            ctx.case(key=(fmt, tuple(bits), mode, fast), nontrivial=False)
            continue
        nontrivial = sum(1 for x in xs if x != 0) >= 2
        ctx.case(key=(fmt, tuple(bits), mode, fast), nontrivial=nontrivial)
        lines.append(f"{W[fmt]} {mode} {int(fast)} " + ",".join(map(str, bits)))
        expect.append((fmt, bits, mode, fast, ",".join(str(canon0(b, fmt)) for b in out)))
        ys = [fr(b, fmt) for b in out]
        ctx.sample(dict(fmt=fmt, mode=mode, fast=fast, input=bits, output=out), limit=4)
        # precondition of the fast variant: decreasing magnitudes and every partial sum dominated (Fast2Sum domain)
        if fast:
            ok_pre = all(abs(xs[i]) >= abs(sum(xs[i + 1:])) for i in range(len(xs)))
            nf_in = normal_form(xs, fmt)
            if not ok_pre or nf_in is not None:
                continue
        sig_base = f"renorm:{mode}:{'fast' if fast else 'safe'}"
        if sum(ys) != sum(xs):
            ctx.violation(sig_base + ":sum-changed", f"renormalize({mode}, fast={fast}) changed the exact sum on {fmt} {bits} -> {out}",
                          dict(op="renorm", fmt=fmt, bits=bits, functional=functional, fast=fast, out=out))
            continue
        nf = normal_form(ys, fmt)
        nzx = [abs(x) for x in xs if x != 0]
        sorted_input = all(a >= b for a, b in zip(nzx, nzx[1:])) or is_diff   # a ++ (-b): the use inside `subtract`
        if not sorted_input:
            ctx.count("normal-form-clause-skipped(unsorted input: outside the documented precondition)")
        if nf is not None and sorted_input:
            out2 = real_renorm(fmt, [b for b in out], functional, fast)
            if finite_list(out2, fmt):
                ys2 = [fr(b, fmt) for b in out2]
                nf2 = normal_form(ys2, fmt)
                if sum(ys2) != sum(xs) or nf2 is not None:
                    ctx.violation(sig_base + ":not-normal-after-two-passes", f"after two passes: {nf2 or 'sum changed'}; {fmt} {bits} -> {out} -> {out2}",
                                  dict(op="renorm2", fmt=fmt, bits=bits, functional=functional, fast=fast, out=out, out2=out2))
                ctx.count("needed-second-pass")
    # add / subtract / multiply / square on the real code
    for k in range(ctx.scale(900, 40000)):
        fmt = rng.choice(FMTS)
        n1, n2 = rng.choice([(1, 1), (2, 2), (2, 3), (3, 3), (1, 3)])
        functional = rng.random() < 0.5
        op = rng.choice(["add", "subtract", "multiply", "square"])
        if fmt == "float16" and op in ("add", "subtract") and n1 + n2 > 4:
            n1, n2 = rng.choice([(1, 1), (2, 2), (1, 3)])  # float16 expansions are limited to 4 words by the API (a size limit)
        b1 = gen_expansion(rng, fmt, n1, False)
        b2 = gen_expansion(rng, fmt, n2, False)
        if op in ("multiply", "square"):
            # keep products away from overflow/underflow: mid-range exponents, non-overlapping operands
            p, ew, w = fpx.FMT[fmt]
            mid = (1 << (ew - 1)) - 1

            def mk(n):
                o, ef = [], mid + rng.randrange(0, 9)
                for i in range(n):
                    if ef < 1:
                        break
                    o.append(fpx.pattern(fmt, rng.getrandbits(1), ef, fpx.directed_patterns(rng, fmt, 1)[0] & ((1 << (p - 1)) - 1)))
                    ef -= p + rng.randrange(0, 2)
                return o

            def mk_general(n):
                """overlapping / equal-magnitude / cancelling / zero-containing operands (not normalised), mid-range exponents"""
                kind = rng.randrange(4)
                base = mid + rng.randrange(0, 6)
                o, ef = [], base
                for i in range(n):
                    if rng.random() < 0.15:
                        o.append(rng.choice([0, 1 << (w - 1)]))
                        continue
                    if kind == 0:
                        ef = base
                    elif kind == 1:
                        ef = max(1, ef - rng.randrange(0, p // 2 + 1)) if i else base
                    elif kind == 2:
                        ef = max(1, base + rng.randrange(-p, p))
                    else:
                        ef = max(1, ef - rng.randrange(p, p + 2)) if i else base
                    m = rng.choice([0, 0, fpx.directed_patterns(rng, fmt, 1)[0] & ((1 << (p - 1)) - 1), 1 << (p - 2)])
                    o.append(fpx.pattern(fmt, rng.getrandbits(1), ef, m))
                return o

            if rng.random() < 0.5:
                b1, b2 = mk_general(n1), mk_general(n2)
                ctx.count("product:general-operands")
            else:
                b1, b2 = mk(n1), mk(n2)
            # documented domain of the Dekker product: every partial product has a representable error term (no underflow)
            lim = Fraction(2) ** (fpx.emin(fmt) + 2 * p)
            ys_ = [fr(b, fmt) for b in (b2 if op == "multiply" else b1)]
            if any(a * b != 0 and abs(a * b) < lim for a in (fr(x, fmt) for x in b1) for b in ys_):
                b1, b2 = b1[:1], b2[:1]
                ys_ = [fr(b, fmt) for b in (b2 if op == "multiply" else b1)]
                if any(a * b != 0 and abs(a * b) < lim for a in (fr(x, fmt) for x in b1) for b in ys_):
                    ctx.count("product-case-skipped(underflow: error term not representable)")
                    continue
        x1, x2 = [fr(b, fmt) for b in b1], [fr(b, fmt) for b in b2]
        try:
            out = real_binop(op, fmt, b1, b2, functional)
        except Exception as e:
            ctx.violation(f"{op}-raises:{type(e).__name__}", f"apmath.{op} raised {type(e).__name__}: {e} on {fmt} {b1} {b2} functional={functional}",
                          dict(op=op, fmt=fmt, b1=b1, b2=b2, functional=functional))
            continue
        ctx.count(f"{op}:{fmt}")
        if not finite_list(out, fmt):
            ctx.case(key=(op, fmt, tuple(b1), tuple(b2)), nontrivial=False)
            continue
        ctx.case(key=(op, fmt, tuple(b1), tuple(b2), functional), nontrivial=True)
        ys = [fr(b, fmt) for b in out]
        if op in ("multiply", "square"):
            # hand model of the product (raw accumulation + renormalisation cut to the dtype's size limit) vs the real result
            msize = {"float16": 4, "float32": 12, "float64": 40}[fmt]
            pmode = f"{op}-{'functional' if functional else 'eager'}"
            arg = ",".join(map(str, b1)) + ("|" + ",".join(map(str, b2)) if op == "multiply" else "")
            lines.append(f"{W[fmt]} {pmode} {msize} {arg}")
            expect.append((fmt, [b1, b2], pmode, msize, ",".join(str(canon0(b, fmt)) for b in out)))
            ctx.count(f"product-correspondence:{op}")
        if op in ("add", "subtract"):
            exact = sum(x1) + (sum(x2) if op == "add" else -sum(x2))
            if sum(ys) != exact:
                ctx.violation(f"{op}:{'functional' if functional else 'eager'}:inexact", f"apmath.{op} != exact result on {fmt} {b1} {b2} -> {out}",
                              dict(op=op, fmt=fmt, b1=b1, b2=b2, functional=functional, out=out))
        else:
            exact = sum(x1) * (sum(x2) if op == "multiply" else sum(x1))
            lead = next((y for y in ys if y != 0), None)
            if exact != 0 and lead is not None:
                u = ulp_of(lead, fmt)
                if abs(sum(ys) - exact) >= u:
                    ctx.violation(f"{op}:{'functional' if functional else 'eager'}:error>=1ulp-of-leading-term",
                                  f"apmath.{op}: |result - exact| = {float(abs(sum(ys) - exact)):.3e} >= ulp(lead) = {float(u):.3e} on {fmt} {b1} {b2} -> {out}",
                                  dict(op=op, fmt=fmt, b1=b1, b2=b2, functional=functional, out=out))
    out_lines = ctx.lean.driver("Renorm", lines) if lines else []
    bad = 0
    for o, e in zip(out_lines, expect):
        ctx.traces_validated += 1
        if o != e[4]:
            bad += 1
            if bad <= 3:
                item = ctx.broken("correspondence:Renorm", json.dumps(dict(fmt=e[0], bits=e[1], mode=e[2], fast=e[3], model=o, impl=e[4])))
                if "-" in e[2]:
                    continue   # product correspondence: the property clause on the real result was already evaluated above
                # directed search: does the real result on this input violate the property?
                xs = [fr(b, e[0]) for b in e[1]]
                impl = [int(t) if t != "nan" else "nan" for t in e[4].split(",")] if e[4] else []
                if "nan" not in impl and not e[3] and sum(fr(b, e[0]) for b in impl) != sum(xs):
                    ctx.violation(f"renorm:{e[2]}:safe:sum-changed", f"renormalize changed the exact sum on {e[0]} {e[1]} -> {impl}",
                                  dict(op="renorm", fmt=e[0], bits=e[1], functional=e[2] == "functional", fast=e[3], out=impl), broken_item=item)
    ctx.obligation("correspondence:Renorm(model on softfloat == real eager/functional renormalize, bit patterns up to sign of zero)", bad == 0, kind="correspondence")
    ctx.notes["model_mismatches"] = bad


def replay(ctx, obj):
    rp = obj.get("replay") or {}
    if "op" not in rp:
        print("replay names an obligation without failing input:", obj.get("obligation"))
        return 1
    fmt = rp["fmt"]
    if rp["op"] in ("renorm", "renorm2"):
        out = real_renorm(fmt, rp["bits"], rp["functional"], rp["fast"])
        xs = [fr(b, fmt) for b in rp["bits"]]
        print(dict(out=out, sum_in=str(sum(xs)), sum_out=str(sum(fr(b, fmt) for b in out if b != 'nan'))))
        if sum(fr(b, fmt) for b in out) != sum(xs):
            return 1
        out2 = real_renorm(fmt, out, rp["functional"], rp["fast"])
        return 1 if normal_form([fr(b, fmt) for b in out2], fmt) else 0
    out = real_binop(rp["op"], fmt, rp["b1"], rp["b2"], rp["functional"])
    print(out)
    return 1
