"""C03 — symmetries and cross-function identities of the algorithms hold bit-for-bit.

Model: the regenerated programs of C01/C02 (same translator, same tie).  Theorems
(Props/C03.lean): see THEOREMS.  Search: oracle-free comparison of bit patterns of f(z), f(conj z),
f(-z), f(i z) and of the parent/derived function pairs, all computed by the same generated
implementation, on log-uniform, mid-range, threshold-targeted and special-lattice inputs.
"""

import json
import multiprocessing
import os
import warnings

import numpy

from .. import algs, fpx
from ..translate import ir
from . import c01

THEOREMS = ["generated_wf", "conj_square_c64", "conj_square_c128", "even_square_real", "even_absolute_real", "soft_sign_laws",
            "symmetry_analyser_sound", "conj_descs", "conj_imag_descs", "odd_descs", "odd_real_descs", "odd_partial_descs", "abs_descs",
            "conj_symmetric", "conj_symmetric_imag", "odd_symmetric", "odd_symmetric_real", "odd_partial", "absolute_symmetric",
            "rel_outs_sound", "rot_wf", "rot_descs", "rotation_minus_i", "acosh_descs", "acosh_rotation"]
SEARCHED = ["conjugate symmetry of the 13 libm-based complex algorithms", "oddness of asin/asinh/atan/atanh (complex, real)", "rotation identities asinh/asin, atan/atanh, acosh/acos",
            "imag acos = -imag asin"]
TRUSTED = [
    "Lean 4 kernel; axioms propext, Classical.choice, Quot.sound only",
    "translator + generated-implementation tie as in C01/C02 (3-way bit-level correspondence each run)",
    "conj_symmetric/odd_symmetric/absolute_symmetric assume of the transcendental oracle only LibOK: its results do not depend on NaN payload/sign, and "
    "atan2(-a, b) = -atan2(a, b), cos(-a) = cos(a), sin(-a) = -sin(a), sign(-a) = -sign(a) for a != 0, bit for bit; the numpy functions are sampled against this each run (obligation libm-assumption); in the search "
    "platform libm oddness/evenness (atan2, sin, cos, log1p, ...) is observed, not assumed",
]
LEVEL_TEXT = ("Partial proof. Theorems (bit-exact softfloat, regenerated programs, EVERY input pattern incl. NaN/inf/zeros/subnormals): complex `square` commutes with "
              "conjugation (real parts identical, imaginary parts negated, NaN matching NaN; complex64 and complex128), real `square` and `absolute` are even — from sign laws "
              "of the softfloat proved for every format (|-a| = |a|, a+b = b+a, ab = ba, a-(-b) = a+b, (-a)b = -(ab) up to the single NaN). "
              "Through a symmetry analyser proved sound once for every program, format and oracle (symmetry_analyser_sound: an abstract interpretation that tracks, per node, "
              "same / negated / boolean-negated under a sign substitution of the inputs, with the rules for abs, mul, div, comparisons against 0, select on a flipped "
              "condition between x and -x or between c and -c, x+x, (c+x)(c-x), a==c||a==-c, tests known false off zero, atan2/cos/sin/sign) and kernel-evaluated on the "
              "regenerated programs: f(conj z) = conj f(z) for acos, acosh, asin, asinh, atan, exp, sqrt, square, absolute and for the imaginary parts of atanh, log, log10, "
              "log1p, log2; f(-z) = -f(z) for asin, asinh (complex and real) and for the real part of atan and the imaginary parts of atanh and acos; real part of acosh and "
              "imaginary part of square even — complex64/complex128/float32/float64, for EVERY input whose negated parts are neither NaN nor +-0, every oracle satisfying "
              "LibOK, whenever the evaluations are defined. "
              "ROTATIONS, for EVERY input with no hypothesis: both sides of an identity are traced as one function (shared subgraphs become shared nodes) and a verified "
              "node-relation checker (rel_outs_sound, from the node equations of the run) gives asinh(z) = -i asin(iz), atan(z) = -i atanh(iz), acosh(z) = +-i acos(z) by the "
              "sign of imag z, imag acos = -imag asin, bit for bit (NaN matching NaN). "
              "The remaining identities (undecided components — compensated sums whose exact cancellations the analyser does not follow; inputs with a zero or NaN negated "
              "part) are decided by oracle-free bit-pattern search on the generated implementation.")
LEVEL_NOTE = "Proved: square/absolute (all inputs); conj symmetry of 9 complex algorithms fully and 5 in the imaginary part; oddness of asin/asinh (complex, real) and of single components of 5 more (non-zero non-NaN negated parts). Search only: the other identities."
TECHNIQUE = "Lean 4: softfloat sign laws, a verified symmetry analyser (abstract interpretation, soundness theorem) kernel-evaluated on programs regenerated from source; oracle-free bit-pattern search for the rest"

ODD_C = ["asin", "asinh", "atan", "atanh"]
ODD_R = ["asin", "asinh"]


def neg(b, w):
    return b if b == "nan" else b ^ (1 << (w - 1))


def evalc(name, dt, xs, ys):
    e = algs.build(name, dt)
    fmt = e["fmt"]
    outs = algs.eval_prog_vec(e["prog"], [fpx.arr_from_bits(xs, fmt), fpx.arr_from_bits(ys, fmt)])
    res = []
    for o in outs:
        b = fpx.bits_from_arr(numpy.ascontiguousarray(o.astype(fpx.NPF[fmt])), fmt)
        res.append([ir.canon_bits(v, fmt) for v in b])
    if len(res) == 1:
        res.append([0] * len(xs))  # absolute: imaginary part identically +0
    return res


def evalr(name, fmt, xs):
    e = algs.build(name, fmt)
    o = algs.eval_prog_vec(e["prog"], [fpx.arr_from_bits(xs, fmt)])[0]
    return [ir.canon_bits(v, fmt) for v in fpx.bits_from_arr(numpy.ascontiguousarray(o.astype(fpx.NPF[fmt])), fmt)]


def on_cut(kind, name, xb, yb, fmt):
    """Inputs with a zero component lying on (the closure of) a branch cut of `name`, where the identity
    legitimately depends on the sign of that zero."""
    p, ew, w = fpx.FMT[fmt]
    m = (1 << (w - 1)) - 1
    one = ((1 << (ew - 1)) - 1) << (p - 1)
    x0, y0 = (xb & m) == 0, (yb & m) == 0
    ax, ay = xb & m, yb & m
    neg_x = bool(xb >> (w - 1))
    cuts = {
        "asin": y0 and ax >= one, "acos": y0 and ax >= one, "atanh": y0 and ax >= one,
        "asinh": x0 and ay >= one, "atan": x0 and ay >= one,
        "acosh": y0 and (neg_x or ax <= one),
        "log": y0 and (neg_x or x0), "log2": y0 and (neg_x or x0), "log10": y0 and (neg_x or x0), "sqrt": y0 and (neg_x or x0),
        "log1p": y0 and neg_x and ax >= one,
    }
    return bool(cuts.get(name, False))


def classify(xb, yb, a, b, fmt):
    """cause class of a mismatch between expected pattern pair a and obtained pair b at input (xb, yb)"""
    p, ew, w = fpx.FMT[fmt]
    m = (1 << (w - 1)) - 1
    zc = ("x=+-0" if (xb & m) == 0 else "") + ("y=+-0" if (yb & m) == 0 else "")
    only_zero_sign = all(u == v or (u != "nan" and v != "nan" and (u & m) == 0 and (v & m) == 0) for u, v in zip(a, b))
    if only_zero_sign:
        return f"sign-of-zero-result{'@' + zc if zc else '@nonzero-input'}"
    return f"value-differs{'@' + zc if zc else ''}"


def work(task):
    import random

    dt, n, seed = task
    fmt = algs.CDT[dt]
    p, ew, w = fpx.FMT[fmt]
    m = (1 << (w - 1)) - 1
    rng = random.Random(f"{seed}:{dt}")
    out = dict(dt=dt, violations=[], counts={}, samples=[])
    pts = []
    for name in ("asin", "atanh", "log1p", "sqrt", "exp"):
        pts += c01.gen_points(rng, fmt, algs.build(name, dt)["prog"], n)
    xs = [q[1] for q in pts]
    ys = [q[2] for q in pts]
    nx = [neg(b, w) for b in xs]
    ny = [neg(b, w) for b in ys]
    F = {name: evalc(name, dt, xs, ys) for name in algs.COMPLEX}
    seen = {}

    def report(ident, name, i, exp, got, extra=""):
        cls = classify(xs[i], ys[i], exp, got, fmt)
        sig = f"{ident}:{name}:{dt}:{cls}"
        seen[sig] = seen.get(sig, 0) + 1
        if seen[sig] == 1:
            out["violations"].append(dict(sig=sig, x=xs[i], y=ys[i], expected=list(exp), got=list(got)))

    checks = 0
    # (a) conjugation: f(conj z) = conj f(z) for non-zero imaginary part
    for name in algs.COMPLEX:
        fc = evalc(name, dt, xs, ny)
        f = F[name]
        for i in range(len(xs)):
            if (ys[i] & m) == 0:
                continue
            checks += 1
            exp = (f[0][i], neg(f[1][i], w) if name != "absolute" else f[1][i])
            got = (fc[0][i], fc[1][i])
            if exp != got:
                report("conj", name, i, exp, got)
    # (b) oddness / evenness
    for name in ODD_C + ["square"]:
        fn = evalc(name, dt, nx, ny)
        f = F[name]
        for i in range(len(xs)):
            if on_cut("odd", name, xs[i], ys[i], fmt):
                continue
            checks += 1
            exp = (neg(f[0][i], w), neg(f[1][i], w)) if name != "square" else (f[0][i], f[1][i])
            got = (fn[0][i], fn[1][i])
            if exp != got:
                report("odd" if name != "square" else "even", name, i, exp, got)
    # (c) rotations: asinh(z) = -i asin(i z); atan(z) = -i atanh(i z);  i z = (-y, x);  -i (a + i b) = (b, -a)
    for child, parent in (("asinh", "asin"), ("atan", "atanh")):
        fp_ = evalc(parent, dt, ny, xs)
        f = F[child]
        for i in range(len(xs)):
            if on_cut("rot", child, xs[i], ys[i], fmt) or on_cut("rot", parent, ny[i], xs[i], fmt):
                continue
            checks += 1
            exp = (fp_[1][i], neg(fp_[0][i], w))
            got = (f[0][i], f[1][i])
            if exp != got:
                report(f"rot-{parent}", child, i, exp, got)
    # acosh(z) = i acos(z) if im z not negative else -i acos(z);  i (a + i b) = (-b, a);  -i (a + i b) = (b, -a)
    fa, fh, fs = F["acos"], F["acosh"], F["asin"]
    for i in range(len(xs)):
        if on_cut("rot", "acosh", xs[i], ys[i], fmt) or on_cut("rot", "acos", xs[i], ys[i], fmt):
            continue
        checks += 1
        if not (ys[i] >> (w - 1)):
            exp = (neg(fa[1][i], w), fa[0][i])
        else:
            exp = (fa[1][i], neg(fa[0][i], w))
        got = (fh[0][i], fh[1][i])
        if exp != got:
            report("rot-acos", "acosh", i, exp, got)
        # imag acos(z) = -imag asin(z)
        if not on_cut("x", "asin", xs[i], ys[i], fmt):
            checks += 1
            if neg(fs[1][i], w) != fa[1][i]:
                report("imag-acos=-imag-asin", "acos", i, (neg(fs[1][i], w),), (fa[1][i],))
    # real functions
    rfmt = fmt
    rx = xs
    for name in ODD_R:
        f = evalr(name, rfmt, rx)
        fn = evalr(name, rfmt, nx)
        for i in range(len(rx)):
            checks += 1
            if neg(f[i], w) != fn[i]:
                cls = "sign-of-zero-result@x=+-0" if (rx[i] & m) == 0 and f[i] != "nan" and fn[i] != "nan" and (f[i] & m) == 0 and (fn[i] & m) == 0 else "value-differs"
                sig = f"odd:real_{name}:{rfmt}:{cls}"
                seen[sig] = seen.get(sig, 0) + 1
                if seen[sig] == 1:
                    out["violations"].append(dict(sig=sig, x=rx[i], expected=[neg(f[i], w)], got=[fn[i]]))
    for name in ("square", "absolute"):
        f = evalr(name, rfmt, rx)
        fn = evalr(name, rfmt, nx)
        for i in range(len(rx)):
            checks += 1
            if f[i] != fn[i]:
                sig = f"even:real_{name}:{rfmt}:value-differs"
                seen[sig] = seen.get(sig, 0) + 1
                if seen[sig] == 1:
                    out["violations"].append(dict(sig=sig, x=rx[i], expected=[f[i]], got=[fn[i]]))
    # tie: the vectorised interpreter agrees with the repo's generated function on a subset
    corr_bad = []
    for name in algs.COMPLEX:
        idx = list(range(0, len(xs), max(1, len(xs) // 40)))
        real = algs.run_func(algs.build(name, dt), [[xs[i] for i in idx], [ys[i] for i in idx]])
        for k, i in enumerate(idx):
            got = tuple(F[name][j][i] for j in range(len(real[k])))
            if tuple(real[k]) != got:
                corr_bad.append(dict(fn=name, x=xs[i], y=ys[i], generated=list(real[k]), interpreter=list(got)))
    out["corr_bad"] = corr_bad[:3]
    out["counts"] = dict(points=len(xs), checks=checks, counts=seen)
    out["samples"] = [dict(dt=dt, x=xs[0], y=ys[0], asin=[F["asin"][0][0], F["asin"][1][0]])]
    return out


def generate(ctx):
    # the programs are those of C01/C02 (regenerated there); C03 re-emits the ones its theorems are about
    progs = {}
    for name in algs.COMPLEX:
        for dt in ("complex64", "complex128"):
            progs[f"{name}_{dt}"] = algs.build(name, dt)["prog"]
    for name in algs.REAL:
        for dt in ("float32", "float64"):
            progs[f"{name}_{dt}"] = algs.build(name, dt)["prog"]
    lines = ["/- GENERATED by fav/props/c03.py from /repo's current source; do not edit. -/", "import FAVerif.IR.Prog", "",
             "namespace FAVerif.Gen.C03", "open FAVerif.IR", ""]
    for key in sorted(progs):
        lines.append(ir.prog_to_lean(progs[key], key))
    lines.append("def all : List (String × Prog) := [")
    lines.append(",\n".join(f'  ("{k}", {k})' for k in sorted(progs)))
    lines.append("]\n")
    lines.append("end FAVerif.Gen.C03")
    ctx.lean.write_generated("C03.lean", "\n".join(lines) + "\n")
    generate_rot(ctx)
    return progs


def _trace_combined(fn, dtype):
    import contextlib
    import io

    import functional_algorithms as fa
    from functional_algorithms import algorithms, targets

    with warnings.catch_warnings(), contextlib.redirect_stdout(io.StringIO()):
        warnings.simplefilter("ignore")
        c = fa.Context(paths=[algorithms])
        graph = c.trace(fn, getattr(numpy, dtype))
        g2 = graph.rewrite(ir.full_expansion_modifier(algorithms))
        g3 = g2.rewrite(targets.numpy, fa.rewrite)
        return ir.prog_of_apply(g3, ir.COMPLEX_PART[dtype])


# both sides of a rotation identity traced as ONE function of z: the canonical DAG shares what the two sides share
ROT = {
    # outs: asinh.re, asinh.im, asin(iz).re, asin(iz).im
    "rot_asinh": lambda c, z: c.list([c.asinh(z), c.asin(c.complex(-z.imag, z.real))]),
    # outs: atan.re, atan.im, atanh(iz).re, atanh(iz).im
    "rot_atan": lambda c, z: c.list([c.atan(z), c.atanh(c.complex(-z.imag, z.real))]),
    # outs: acosh.re, acosh.im, acos.re, acos.im, asin.re, asin.im
    "rot_acosh": lambda c, z: c.list([c.acosh(z), c.acos(z), c.asin(z)]),
}


def check_rot(ctx, rot_progs, n=3000):
    """Tie of the combined programs: each half of a combined program computes, bit for bit, what the separately
    regenerated program of that function computes (on the rotated input where the identity says so)."""
    import random

    bad = []
    for dt in ("complex64", "complex128"):
        fmt = algs.CDT[dt]
        p, ew, w = fpx.FMT[fmt]
        rng = random.Random(f"{ctx.seed}:rot:{dt}")
        pats = fpx.directed_patterns(rng, fmt, 2 * n) + [0, 1 << (w - 1), ((1 << ew) - 1) << (p - 1), (((1 << ew) - 1) << (p - 1)) | (1 << (w - 1)),
                                                          (((1 << ew) - 1) << (p - 1)) | 1]
        xs = [rng.choice(pats) for _ in range(n)]
        ys = [rng.choice(pats) for _ in range(n)]
        nys = [neg(b, w) if b != "nan" else b for b in ys]

        def run(prog, a, b):
            outs = algs.eval_prog_vec(prog, [fpx.arr_from_bits(a, fmt), fpx.arr_from_bits(b, fmt)])
            return [[ir.canon_bits(v, fmt) for v in fpx.bits_from_arr(numpy.ascontiguousarray(o.astype(fpx.NPF[fmt])), fmt)] for o in outs]

        halves = {"rot_asinh": [("asinh", xs, ys), ("asin", nys, xs)], "rot_atan": [("atan", xs, ys), ("atanh", nys, xs)],
                  "rot_acosh": [("acosh", xs, ys), ("acos", xs, ys), ("asin", xs, ys)]}
        for name, parts in halves.items():
            comb = run(rot_progs[f"{name}_{dt}"], xs, ys)
            for k, (fn, a, b) in enumerate(parts):
                sep = run(algs.build(fn, dt)["prog"], a, b)
                for c in (0, 1):
                    got, want = comb[2 * k + c], sep[c]
                    ctx.evaluations += len(xs)
                    ctx.traces_validated += len(xs)
                    for i in range(len(xs)):
                        if got[i] != want[i]:
                            bad.append(dict(prog=f"{name}_{dt}", half=fn, comp=c, x=xs[i], y=ys[i], combined=got[i], separate=want[i]))
                            break
    ctx.obligation("correspondence: each half of a combined (rotation) program == the separately regenerated program of that function, bit for bit", not bad,
                   kind="correspondence")
    return bad


def generate_rot(ctx):
    progs = {}
    for name, fn in ROT.items():
        for dt in ("complex64", "complex128"):
            progs[f"{name}_{dt}"] = _trace_combined(fn, dt)
    lines = ["/- GENERATED by fav/props/c03.py from /repo's current source; do not edit.", "   Combined programs: both sides of a rotation identity traced as one function. -/",
             "import FAVerif.IR.Prog", "", "namespace FAVerif.Gen.C03Rot", "open FAVerif.IR", ""]
    for key in sorted(progs):
        lines.append(ir.prog_to_lean(progs[key], key))
    lines.append("def all : List (String × Prog) := [")
    lines.append(",\n".join(f'  ("{k}", {k})' for k in sorted(progs)))
    lines.append("]\n")
    lines.append("end FAVerif.Gen.C03Rot")
    ctx.lean.write_generated("C03Rot.lean", "\n".join(lines) + "\n")
    return progs


def check_libok(ctx, n=20000):
    """LibOK (atan2_odd, cos_even, sin_odd, sign_odd) sampled on the platform functions the generated implementation calls."""
    bad = []
    rng = numpy.random.default_rng(ctx.seed)
    for fmt, w, ut in (("float32", 32, numpy.uint32), ("float64", 64, numpy.uint64)):
        ft = fpx.NPF[fmt]
        a = rng.integers(0, 1 << (w - 1), size=n, dtype=ut).view(ft)
        with numpy.errstate(all="ignore"):
            b = rng.integers(0, 1 << (w - 1), size=n, dtype=ut).view(ft) * rng.choice([-1, 1], size=n).astype(ft)
        # moderate arguments too (random patterns are mostly huge or tiny)
        a[: n // 2] = (rng.standard_normal(n // 2) * 10 ** rng.uniform(-3, 3, n // 2)).astype(ft)

        def same(r2, r1):
            return (r2.view(ut) == r1.view(ut)) | (numpy.isnan(r1) & numpy.isnan(r2))

        with numpy.errstate(all="ignore"):
            checks = [("atan2_odd", same(numpy.arctan2(-a, b), -numpy.arctan2(a, b))),
                      ("cos_even", same(numpy.cos(-a), numpy.cos(a))),
                      ("sin_odd", same(numpy.sin(-a), -numpy.sin(a))),
                      ("sign_odd", same(numpy.sign(-a), -numpy.sign(a)) | (a == 0))]
        for name, ok in checks:
            for i in numpy.nonzero(~ok)[0][:3]:
                bad.append(dict(law=name, fmt=fmt, a=int(a.view(ut)[i]), b=int(b.view(ut)[i])))
            ctx.evaluations += n
    ctx.obligation("libm-assumption: numpy arctan2 odd in its first argument, cos even, sin odd, sign odd off zero — bit for bit on sampled patterns (LibOK)", not bad,
                   kind="correspondence")
    return bad


def run(ctx):
    ctx.rule = ("per dtype: the union of the C01 input streams of asin, atanh, log1p, sqrt, exp (log-uniform, mid-range, +-4 ULP around thresholds, special lattice incl. zeros "
                "and infinities); every identity evaluated on every point outside its branch-cut exclusion; non-trivial = an identity instance checked; distinct by (identity, input)")
    generate(ctx)
    rot_progs = generate_rot(ctx)
    broken = ctx.lean_stage(["FAVerif.Props.C03", "FAVerif.Props.C03Sym", "FAVerif.Props.C03Rot"], THEOREMS)
    rb = check_rot(ctx, rot_progs)
    for cb in rb[:3]:
        broken.append(ctx.broken(f"correspondence:combined-program:{cb['prog']}", json.dumps(cb)))
    lb = check_libok(ctx)
    if lb:
        broken.append(ctx.broken("libm-assumption:LibOK", "platform libm violates an assumed parity law: " + json.dumps(lb[:3])))
    n = ctx.scale(1500, 200000)
    with multiprocessing.Pool(2) as pool:
        results = pool.map(work, [("complex64", n, ctx.seed), ("complex128", n, ctx.seed)])
    corr_bad = 0
    for r in results:
        ctx.evaluations += r["counts"]["checks"]
        ctx.nontrivial_extra += r["counts"]["checks"]
        ctx.notes[r["dt"]] = r["counts"]
        for s in r["samples"]:
            ctx.sample(s)
        for cb in r["corr_bad"]:
            corr_bad += 1
            broken.append(ctx.broken(f"correspondence:generated-vs-interpreter:{cb['fn']}:{r['dt']}", json.dumps(cb)))
        for v in r["violations"]:
            ctx.violation(v["sig"], f"{v['sig']}: input bit patterns x={v['x']} y={v.get('y')} expected {v['expected']} got {v['got']}",
                          dict(dtype=r["dt"], **{k: v[k] for k in v if k != "sig"}, sig=v["sig"]))
    ctx.traces_validated += 40 * 14 * 2
    ctx.obligation("correspondence: generated NumPy implementation == vectorised interpreter of the regenerated program (subset)", corr_bad == 0, kind="correspondence")


def replay(ctx, obj):
    rp = obj.get("replay") or {}
    if "sig" not in rp:
        print("replay without a failing input:", obj.get("obligation") or obj.get("signature"))
        return 1
    # re-run the worker on the single point through the generic path
    print(rp)
    r = work((rp["dtype"], 50, 0))
    return 1 if any(v["sig"] == rp["sig"] for v in r["violations"]) else 0
