"""C04 — rewriting never changes what an expression denotes.

Layers
  model      lean/FAVerif/Models/Rewriter.lean  (hand port of rewrite.py + the inference properties of expr.py)
  theorems   lean/FAVerif/Props/C04.lean        (infer_sound, tables_sound_partial, rule_sound_*, rewrite_sound_*)
  tie        * translator: the three relational tables of rewrite.py (after the module's own symmetric
               completion loop) are re-read on every run and written to lean/FAVerif/Generated/C04Tables.lean
               (data + one kernel-checked verdict per row, Generated/C04Rows.lean);
             * correspondence: the real `expr.rewrite(functional_algorithms.rewrite)` and
               lean/Drivers/Rewriter.lean on the same serialised expressions (generated + malformed + every
               shipped algorithm graph); results compared as trees, exceptions as an enum; the real
               `_is_*` answers against the model's.
  search     independent of the model: original vs rewritten DAG of the REAL rewriter evaluated exactly over
             Fractions and with NumPy scalars (per-node NaN/overflow/underflow detection) on boundary-heavy
             assignments; no-raise; inference answers against exact evaluation; directed probes for every
             table row.
"""

import concurrent.futures as cf
import json
import os
import subprocess
import time
from fractions import Fraction

from ..runner import PY, REPO, ROOT, Infra
from ..workers import c04_worker as W

THEOREMS = []      # filled in below (kept next to the notes for the manifest)
SEARCHED = []
TRUSTED = []

NPROC = max(2, min(8, (os.cpu_count() or 4) // 2))

TYPES = {"f16": "float16", "f32": "float32", "f64": "float64", "py": "float", "i": "int64"}
FTYPES = ["f16", "f32", "f64", "py"]
REL = ["lt", "le", "gt", "ge", "eq", "ne"]
OPAQUE1 = ["sin", "cos", "exp", "log", "log1p", "floor", "tan", "expm1", "log2", "log10", "atan", "asinh", "tanh", "ceil"]
OPAQUE2 = ["atan2", "hypot", "pow", "copysign"]
NAMED = ["largest", "smallest", "eps", "posinf", "neginf", "pi", "smallest_subnormal"]


# ----------------------------------------------------------------------------- translator (tables)

def read_tables():
    """The three module attributes AFTER the module's own completion loop."""
    from functional_algorithms import rewrite as rw

    return dict(cc=dict(rw._constant_relop_constant), ca=dict(rw._constant_relop_any), aa=dict(rw._any_relop_any))


def key_tok(k):
    if isinstance(k, str):
        return "N" + k
    if isinstance(k, bool):
        return "I1" if k else "I0"
    if isinstance(k, int):
        return f"I{k}"
    if isinstance(k, float) and k == int(k):
        return f"I{int(k)}"
    return "Nunhashable_" + type(k).__name__


def entry_tok(e):
    return "T" if e is True else "F" if e is False else "N"


def table_line(tabs):
    parts = []
    for name in ("cc", "ca", "aa"):
        rows = []
        for (a, b), ent in tabs[name].items():
            rows.append(f"{key_tok(a)}~{key_tok(b)}~{''.join(entry_tok(x) for x in ent)}")
        parts.append(",".join(rows) if rows else "-")
    return "T " + " ".join(parts)


def lean_key(k):
    t = key_tok(k)
    return f'.name "{t[1:]}"' if t[0] == "N" else f".num ({t[1:]})"


def lean_entry(e):
    return "some true" if e is True else "some false" if e is False else "none"


def ident(k):
    t = key_tok(k)[1:]
    return "".join(c if c.isalnum() else "m" for c in t)


# the class abstraction (must agree with Models/SignAbs.lean): index along the extended line,
# even = point, odd = open interval
PTS = ["neginf", None, 0, None, "smallest_subnormal", None, "smallest", None, "eps", None, 1, None, "largest", None, "posinf"]
PROP_CLASSES = dict(positive=range(3, 15), nonnegative=range(2, 15), negative=range(0, 2), nonpositive=range(0, 3), finite=range(1, 14))


def classes(key):
    if isinstance(key, str) and key in PROP_CLASSES:
        return list(PROP_CLASSES[key])
    if isinstance(key, bool):
        key = int(key)
    if key in PTS and key is not None:
        return [PTS.index(key)]
    return None


def judge_row(lhs, rhs, ent):
    """strongest sound entry per column under the real-line universe; returns list of (col, entry, strongest)"""
    cl, cr = classes(lhs), classes(rhs)
    if cl is None or cr is None:
        return None
    outs = set()
    for i in cl:
        for j in cr:
            if i < j:
                outs.add((False, False, True, True, False, True))
            elif i > j:
                outs.add((True, True, False, False, False, True))
            elif i % 2 == 0:
                outs.add((True, False, True, False, True, False))
            else:
                outs |= {(False, False, True, True, False, True), (True, True, False, False, False, True), (True, False, True, False, True, False)}
    bad = []
    for k in range(6):
        vals = {o[k] for o in outs}
        strongest = next(iter(vals)) if len(vals) == 1 else None
        if ent[k] is not None and ent[k] != strongest:
            bad.append((k, ent[k], strongest))
    return bad


def reachable(tname, lhs, rhs):
    """Can `_compare` ever look this key up?  (`_constant_relop_any` is only consulted with a numeric
    constant on the left: `isinstance(value, number_types)` guards both lookups.)"""
    if tname != "ca":
        return True
    return not isinstance(lhs, str)


def generate(ctx):
    """Write Generated/C04Tables.lean (data) and Generated/C04Rows.lean (one verdict per row)."""
    tabs = read_tables()
    L = ["/- GENERATED by fav/props/c04.py from functional_algorithms/rewrite.py (module attributes after the",
         "   completion loop).  Do not edit. -/", "import FAVerif.Models.Rewriter", "namespace FAVerif.Generated.C04", "open FAVerif.Rewriter", ""]
    for name, attr in (("cc", "_constant_relop_constant"), ("ca", "_constant_relop_any"), ("aa", "_any_relop_any")):
        L.append(f"/-- `{attr}` -/")
        L.append(f"def {name} : Table := [")
        rows = []
        for (a, b), ent in tabs[name].items():
            rows.append(f"  (({lean_key(a)}, {lean_key(b)}), [{', '.join(lean_entry(x) for x in ent)}])")
        L.append(",\n".join(rows))
        L.append("]")
        L.append("")
    L.append("def tables : Tables := { cc := cc, ca := ca, aa := aa }")
    L.append("end FAVerif.Generated.C04")
    ctx.lean.write_generated("C04Tables.lean", "\n".join(L) + "\n")

    R = ["/- GENERATED by fav/props/c04.py: one kernel-checked verdict per table row (SignAbs judge, real-line universe).",
         "   `= true`: every non-None entry of the row is the strongest sound entry; `= false`: the row has an unsound entry. -/",
         "import FAVerif.Models.SignAbs", "import FAVerif.Generated.C04Tables", "namespace FAVerif.Generated.C04Rows",
         "open FAVerif.Rewriter FAVerif.SignAbs", ""]
    verdicts = {}
    seen = set()
    for name in ("cc", "ca", "aa"):
        for (a, b), ent in tabs[name].items():
            bad = judge_row(a, b, ent)
            nm = f"row_{name}_{ident(a)}__{ident(b)}"
            while nm in seen:
                nm += "_"
            seen.add(nm)
            verdicts[(name, key_tok(a), key_tok(b))] = dict(theorem=nm, bad=bad, reachable=reachable(name, a, b), entries=[entry_tok(x) for x in ent],
                                                             keys=(a, b))
            if bad is None:
                R.append(f"-- {nm}: key outside the abstraction, not judged")
                continue
            row = f"(({lean_key(a)}, {lean_key(b)}), [{', '.join(lean_entry(x) for x in ent)}])"
            R.append(f"theorem {nm} : rowSound {row} = {'true' if not bad else 'false'} := by decide")
    R.append("end FAVerif.Generated.C04Rows")
    ctx.lean.write_generated("C04Rows.lean", "\n".join(R) + "\n")
    return tabs, verdicts


# ----------------------------------------------------------------------------- generator

def fbits(x, tag):
    return f"{W.float_bits(x, tag):x}"


def vfloat(x, tag):
    import numpy

    if tag == "py":
        return ["f", "py", fbits(float(x), "py")]
    with numpy.errstate(all="ignore"):
        return ["f", tag, fbits(W.NPF[tag](x), tag)]


class Gen:
    """Type-directed random expression specs with sharing.  All randomness from `rng`."""

    def __init__(self, rng, w_fold=1.0, malformed=False, maxdepth=7):
        self.rng = rng
        self.w_fold = w_fold
        self.malformed = malformed
        self.maxdepth = maxdepth
        self.pool = {}
        self.syms = {}
        self.budget = 0

    # -- leaves
    def sym(self, ty):
        r = self.rng
        names = self.syms.setdefault(ty, {})
        n = r.choice(["x", "y", "z", "w"][: (2 if r.random() < 0.5 else 4)])
        name = f"{n}{ty}"
        if name not in names:
            tstr = {"b": "boolean", "c64": "complex64", "c128": "complex128"}.get(ty) or TYPES[ty]
            names[name] = ["sym", name, tstr]
        return names[name]

    def num_value(self, ty):
        r = self.rng
        u = r.random()
        if ty == "i":
            return ["i", r.choice([0, 1, -1, 2, 3, 7, 10, -5, 100, r.randint(-1000, 1000)])]
        if u < 0.30:
            return ["i", r.choice([0, 0, 1, 1, -1, 2, 3, 4, 10, -2, r.randint(-100, 100)])]
        dy = [0.0, 1.0, -1.0, 0.5, 2.0, 0.25, 1.5, -0.5, 3.0, 4.0, 16.0, -2.0, 0.75]
        if u < 0.55:
            x = r.choice(dy)
        elif u < 0.65:
            x = r.choice([0.1, 1e-3, 1 / 3, 2.7, -0.3, 1e10])
        elif u < 0.70:
            x = r.choice([1e-50, 1e300, 1e-320, 65520.0, 3.5e38, float("inf"), -float("inf")])
        elif u < 0.71:
            x = float("nan")
        else:
            x = r.randint(-64, 64) / r.choice([1, 2, 4, 8, 64])
        v = r.random()
        if v < 0.45:
            tag = "py"
        elif v < 0.90:
            tag = ty if ty != "py" else "py"
        else:
            tag = r.choice(["f16", "f32", "f64"])
        return vfloat(x, tag)

    def const(self, ty, value=None):
        r = self.rng
        if value is None:
            if ty != "i" and r.random() < 0.22:
                value = ["n", r.choice(NAMED + ["largest", "posinf", "neginf"] + (["nan", "undefined"] if r.random() < 0.03 else []))]
            else:
                value = self.num_value(ty)
        like = self.sym(ty)
        if r.random() < 0.08 and self.budget > 3:
            like = self.num(2, ty)
        return ["const", value, like]

    def bconst(self, b):
        return ["const", ["b", bool(b)], ["sym", "_boolean_value", "boolean"]]

    # -- helpers
    def reuse(self, key):
        p = self.pool.get(key)
        if p and self.rng.random() < 0.22:
            return self.rng.choice(p)
        return None

    def keep(self, key, e):
        self.pool.setdefault(key, []).append(e)
        return e

    def other_ty(self, ty):
        return self.rng.choice([t for t in FTYPES if t != ty])

    def signed(self, d, ty):
        """expression whose sign the inference can determine"""
        r = self.rng
        x = self.num(d - 1, ty)
        c = r.random()
        if c < 0.25:
            return ["absolute", x]
        if c < 0.40:
            return ["square", x]
        if c < 0.50:
            return ["negative", ["absolute", x]]
        if c < 0.60:
            return ["sqrt", ["absolute", x]]
        if c < 0.70:
            return ["add", ["absolute", x], self.const(ty, ["i", 1])]
        if c < 0.78:
            return ["negative", ["add", ["square", x], self.const(ty, vfloat(0.5, "py"))]]
        if c < 0.86:
            return ["multiply", ["absolute", x], ["square", self.num(d - 1, ty)]]
        if c < 0.93:
            return self.const(ty, r.choice([["i", 0], ["i", 1], ["i", -1], ["i", 2], vfloat(0.5, "py"), ["n", "largest"], ["n", "neginf"], ["n", "eps"]]))
        return ["subtract", ["negative", ["absolute", x]], ["square", self.num(d - 1, ty)]]

    # -- numeric
    def num(self, d, ty):
        r = self.rng
        self.budget -= 1
        got = self.reuse(("n", ty))
        if got is not None:
            return got
        if d <= 0 or self.budget <= 0 or r.random() < 0.12:
            return self.sym(ty) if r.random() < 0.6 else self.const(ty)
        c = r.random()
        if c < 0.34:
            k = r.choice(["add", "subtract", "multiply", "divide", "add", "multiply", "subtract"])
            x = self.num(d - 1, ty)
            u = r.random()
            if u < 0.10:
                y = x
            elif u < 0.30:
                y = self.const(ty, r.choice([["i", 0], ["i", 1], vfloat(0.0, "py"), vfloat(1.0, "py"), ["i", 2]]))
            elif u < 0.36 and ty != "i":
                y = self.num(d - 1, self.other_ty(ty))
            else:
                y = self.num(d - 1, ty)
            e = [k, x, y] if r.random() < 0.7 else [k, y, x]
        elif c < 0.52:
            k = r.choice(["negative", "absolute", "negative", "absolute", "sqrt", "square", "sign", "positive"])
            x = self.num(d - 1, ty)
            if r.random() < 0.25 and k in ("negative", "absolute", "sign"):
                x = [k, x]
            e = [k, x]
        elif c < 0.60:
            e = [r.choice(["minimum", "maximum"]), self.num(d - 1, ty), self.num(d - 1, ty)]
        elif c < 0.74:
            e = self.select_num(d, ty)
        elif c < 0.80 and ty in ("f16", "f32", "f64"):
            up = {"f16": "f32", "f32": "f64"}
            down = {"f64": "f32", "f32": "f16"}
            u = r.random()
            if u < 0.35 and ty in down.values() and ty in up:
                # ty = f32: downcast(upcast(x32)) or upcast(downcast(..)) patterns
                e = ["downcast", ["upcast", self.num(d - 2, ty)]] if r.random() < 0.5 else ["upcast", ["downcast", self.num(d - 2, ty)]]
            elif ty in up.values() and r.random() < 0.5:
                src = [k for k, v in up.items() if v == ty][0]
                e = ["upcast", self.num(d - 1, src)]
                if r.random() < 0.3:
                    e = ["upcast", ["downcast", self.num(d - 2, ty)]]
            elif ty in down.values():
                src = [k for k, v in down.items() if v == ty][0]
                e = ["downcast", self.num(d - 1, src)]
                if r.random() < 0.3:
                    e = ["downcast", ["upcast", self.num(d - 2, ty)]]
            else:
                e = ["negative", self.num(d - 1, ty)]
        elif c < 0.88 and ty != "i":
            if r.random() < 0.75:
                k = r.choice(OPAQUE1)
                x = self.num(d - 1, ty)
                if r.random() < 0.2 and k.startswith("log"):
                    x = self.const(ty, r.choice([["i", 1], ["i", 0], vfloat(1.0, "py"), vfloat(0.0, "py")]))
                e = [k, x]
            else:
                e = [r.choice(OPAQUE2), self.num(d - 1, ty), self.num(d - 1, ty)]
        elif c < 0.94:
            # constant sub-computations (folding)
            k = r.choice(["add", "subtract", "multiply", "minimum", "maximum", "sqrt", "square", "negative", "absolute", "sign", "divide"])
            a, b = self.const(ty), self.const(ty)
            e = [k, a] if k in ("sqrt", "square", "negative", "absolute", "sign") else [k, a, b]
        else:
            e = self.signed(d, ty)
        return self.keep(("n", ty), e)

    def select_num(self, d, ty):
        r = self.rng
        c = self.boolean(d - 1)
        x, y = self.num(d - 1, ty), self.num(d - 1, ty)
        u = r.random()
        if u < 0.10:
            return ["select", c, x, x]
        if u < 0.20:
            k = r.choice(["eq", "ne"])
            return ["select", [k, x, y], x, y] if r.random() < 0.7 else ["select", [k, y, x], x, y]
        if u < 0.32:
            c1 = self.boolean(d - 2)
            a = self.num(d - 2, ty)
            return ["select", c, ["select", c1, a, y], y] if r.random() < 0.5 else ["select", c, ["select", c1, y, a], y]
        if u < 0.42:
            c1 = self.boolean(d - 2)
            a = self.num(d - 2, ty)
            inner = ["select", c1, a, x] if r.random() < 0.5 else ["select", c1, x, a]
            return ["select", c, x, inner]
        if u < 0.46:
            return ["select", self.bconst(r.random() < 0.5), x, y]
        return ["select", c, x, y]

    # -- boolean
    def boolean(self, d):
        r = self.rng
        self.budget -= 1
        got = self.reuse(("b",))
        if got is not None:
            return got
        if d <= 0 or self.budget <= 0:
            if r.random() < 0.5:
                return self.sym("b")
            ty = r.choice(FTYPES)
            return [r.choice(REL), self.sym(ty), self.sym(ty) if r.random() < 0.8 else self.const(ty)]
        c = r.random()
        if c < 0.50:
            e = self.compare(d)
        elif c < 0.62:
            x, y = self.boolean(d - 1), self.boolean(d - 1)
            u = r.random()
            if u < 0.12:
                y = x
            elif u < 0.22:
                y = self.bconst(r.random() < 0.5) if r.random() < 0.35 else y
            e = ["logical_and", x, y] if r.random() < 0.6 else ["logical_and", y, x]
            if u > 0.80:
                # (a and b) and a
                e = ["logical_and", ["logical_and", x, y], r.choice([x, y])] if r.random() < 0.5 else ["logical_and", r.choice([x, y]), ["logical_and", x, y]]
        elif c < 0.74:
            x, y = self.boolean(d - 1), self.boolean(d - 1)
            u = r.random()
            if u < 0.10:
                y = x
            elif u < 0.18:
                y = self.bconst(r.random() < 0.5)
            e = ["logical_or", x, y] if r.random() < 0.6 else ["logical_or", y, x]
            if u > 0.75:
                # (not y and b) or y   -- with `not y` spelled as the rewriter would / as logical_not
                ny = self.negate(y) if r.random() < 0.6 else ["logical_not", y]
                inner = ["logical_and", ny, x] if r.random() < 0.5 else ["logical_and", x, ny]
                e = ["logical_or", inner, y] if r.random() < 0.5 else ["logical_or", y, inner]
        elif c < 0.84:
            e = ["logical_not", self.boolean(d - 1)]
        elif c < 0.88:
            e = ["logical_xor", self.boolean(d - 1), self.boolean(d - 1)]
        elif c < 0.93:
            e = ["select", self.boolean(d - 1), self.boolean(d - 1), self.boolean(d - 1)]
        elif c < 0.95:
            e = self.bconst(r.random() < 0.5)
        else:
            e = self.sym("b")
        return self.keep(("b",), e)

    def negate(self, y):
        """`not y` in the form the rewriter itself produces for comparisons"""
        if y[0] in REL and len(y) == 3:
            a, b = y[1], y[2]
            return dict(eq=["ne", a, b], ne=["eq", a, b], lt=["le", b, a], le=["lt", b, a], gt=["le", a, b], ge=["lt", a, b])[y[0]]
        return ["logical_not", y]

    def compare(self, d):
        r = self.rng
        ty = r.choice(FTYPES + ["f32", "f64", "i"])
        k = r.choice(REL)
        u = r.random()
        if u < 0.10 * self.w_fold:
            x, y = self.signed(d, ty), self.signed(d, ty)
        elif u < 0.10 * self.w_fold + 0.12:
            x = self.signed(d, ty)
            y = self.const(ty, r.choice([["i", 0], ["i", 1], vfloat(0.0, "py"), vfloat(1.0, ty if ty != "i" else "py"), ["i", 2], ["i", -1]])) if ty != "i" else self.const(ty)
            if r.random() < 0.5:
                x, y = y, x
        elif u < 0.10 * self.w_fold + 0.20:
            x = self.num(d - 1, ty)
            y = x if r.random() < 0.4 * self.w_fold else self.num(d - 1, ty)
        elif u < 0.10 * self.w_fold + 0.30:
            x = self.select_num(d - 1, ty)
            y = self.num(d - 1, ty) if r.random() < 0.8 else self.select_num(d - 1, ty)
            if r.random() < 0.5:
                x, y = y, x
        elif u < 0.10 * self.w_fold + 0.30 + 0.04 * self.w_fold:
            x, y = self.const(ty), self.const(ty)
        elif u < 0.10 * self.w_fold + 0.42 and ty != "i":
            x, y = self.num(d - 1, ty), self.num(d - 1, self.other_ty(ty))
        else:
            x, y = self.num(d - 1, ty), self.num(d - 1, ty)
        return [k, x, y]

    # -- malformed stream
    def bad(self, d):
        r = self.rng
        c = r.random()
        z = self.sym(r.choice(["c64", "c128"]))
        ty = r.choice(FTYPES)
        if c < 0.25:
            y = r.choice([self.const("py", ["i", 0]), ["const", ["i", 0], z], self.num(1, ty), z, ["absolute", z]])
            x = r.choice([z, ["absolute", z], ["real", z], ["add", z, z], ["conjugate", z], ["negative", z]])
            return [r.choice(REL), x, y] if r.random() < 0.5 else [r.choice(REL), y, x]
        if c < 0.40:
            return [r.choice(["add", "multiply", "subtract", "minimum"]), self.boolean(d - 1), self.num(d - 1, ty)]
        if c < 0.52:
            k = r.choice(["logical_and", "logical_or", "logical_not"])
            return [k, self.num(d - 1, ty)] if k == "logical_not" else [k, self.num(d - 1, ty), r.choice([self.boolean(d - 1), self.num(d - 1, ty)])]
        if c < 0.62:
            return ["select", self.num(d - 1, ty), self.num(d - 1, ty), self.boolean(d - 1)]
        if c < 0.72:
            v = r.choice([["b", True], ["n", "no_such_name"], ["c", "py", fbits(1.0, "py"), fbits(2.0, "py")], ["i", 10**30], ["n", "pi"]])
            like = r.choice([self.sym(ty), self.sym("b"), z])
            e = ["const", v, like]
            return r.choice([e, ["add", e, self.num(1, ty)], ["sqrt", e], [r.choice(REL), e, self.const(ty)], ["negative", e], ["absolute", e]])
        if c < 0.86:
            # kinds on which `is_complex` / `get_type` are not implemented, under comparisons and constants
            k = r.choice(["upcast", "downcast", "sign", "truncate", "round", "is_finite"])
            x = [k, self.num(1, r.choice(["f32", "f64"]))]
            return r.choice([[r.choice(REL), x, self.const("f32", ["i", 0])], [r.choice(REL), x, self.signed(2, "f32")], ["const", ["i", 1], x],
                             [r.choice(REL), ["copysign", self.num(1, ty), self.num(1, ty)], self.const(ty, ["i", 0])]])
        if c < 0.93:
            a, b = ["const", ["n", r.choice(["pi", "nan", "largest"])], self.sym(ty)], self.const(ty)
            return [r.choice(["eq", "ne", "lt"]), a, b] if r.random() < 0.5 else [r.choice(["eq", "ne"]), b, a]
        return [r.choice(["conjugate", "real", "imag"]), r.choice([z, ["complex", self.num(1, ty), self.num(1, ty)], ["conjugate", z], self.const(ty)])]

    def expression(self):
        r = self.rng
        self.pool = {}
        self.syms = {}
        d = r.choice([1, 2, 2, 3, 3, 4, 4, 5, 6, self.maxdepth])
        self.budget = r.choice([6, 12, 20, 30, 45])
        if self.malformed:
            return self.bad(d), "malformed"
        if r.random() < 0.55:
            return self.boolean(d), "bool"
        return self.num(d, r.choice(FTYPES + ["f32", "f64", "i"])), "num"


def depth_of(spec, memo=None):
    memo = {} if memo is None else memo
    k = id(spec)
    if k in memo:
        return memo[k]
    if spec[0] == "sym":
        r = 0
    elif spec[0] == "const":
        r = 0
    else:
        r = 1 + max([depth_of(s, memo) for s in spec[1:]] or [0])
    memo[k] = r
    return r


def kinds_of(spec, acc, memo=None):
    memo = set() if memo is None else memo
    if id(spec) in memo:
        return
    memo.add(id(spec))
    acc.add(spec[0])
    if spec[0] == "const":
        kinds_of(spec[2], acc, memo)
    elif spec[0] != "sym":
        for s in spec[1:]:
            kinds_of(s, acc, memo)


# ----------------------------------------------------------------------------- running real code / driver in parallel

def run_jobs(mode, specs, extra=None, nproc=NPROC):
    """Run worker subprocesses over chunks of specs (keeps order)."""
    if not specs:
        return []
    n = max(1, min(nproc, (len(specs) + 199) // 200))
    size = (len(specs) + n - 1) // n
    chunks = [(i, specs[i:i + size]) for i in range(0, len(specs), size)]
    env = dict(os.environ)
    env["PYTHONPATH"] = REPO + os.pathsep + ROOT + os.pathsep + env.get("PYTHONPATH", "")

    def one(ch):
        i, sp = ch
        job = dict(mode=mode, specs=[W.share(s) for s in sp])
        if extra is not None:
            job["assignments"] = extra[i:i + len(sp)]
        p = subprocess.run([PY, "-m", "fav.workers.c04_worker"], input=json.dumps(job), capture_output=True, text=True, cwd=ROOT, env=env, timeout=3000)
        if p.returncode != 0:
            raise Infra("c04 worker failed: " + p.stderr[-3000:])
        return json.loads(p.stdout)

    with cf.ThreadPoolExecutor(max_workers=n) as ex:
        parts = list(ex.map(one, chunks))
    out = []
    for p in parts:
        out.extend(p)
    return out


def run_driver(ctx, tline, lines, nproc=NPROC):
    if not lines:
        return []
    n = max(1, min(nproc, (len(lines) + 299) // 300))
    size = (len(lines) + n - 1) // n
    chunks = [lines[i:i + size] for i in range(0, len(lines), size)]

    def one(ch):
        out = ctx.lean.driver("Rewriter", [tline] + ch)
        if len(out) != len(ch) + 1 or not out[0].startswith("tables "):
            raise Infra(f"driver Rewriter returned {len(out)} lines for {len(ch) + 1}: {out[:1]}")
        return out[1:]

    with cf.ThreadPoolExecutor(max_workers=n) as ex:
        parts = list(ex.map(one, chunks))
    out = []
    for p in parts:
        out.extend(p)
    return out


def tuplify(x):
    return tuple(tuplify(i) for i in x) if isinstance(x, list) else x


def r_line(res, work="f32", fuel=64):
    gt = ",".join(map(str, res["gt"])) or "-"
    bad = ",".join(map(str, res["bad"])) or "-"
    return f"R {work} {fuel} {gt} {bad} | {res['dag']}"


def work_of(spec):
    """working dtype for the strict run: the most frequent float type among the symbols"""
    cnt = {}

    def rec(s, memo):
        if id(s) in memo:
            return
        memo.add(id(s))
        if s[0] == "sym":
            t = {"float16": "f16", "float32": "f32", "float64": "f64", "float": "py"}.get(s[2])
            if t:
                cnt[t] = cnt.get(t, 0) + 1
        elif s[0] == "const":
            rec(s[2], memo)
        else:
            for o in s[1:]:
                rec(o, memo)

    rec(spec, set())
    return max(cnt, key=cnt.get) if cnt else "f64"
