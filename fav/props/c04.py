"""C04 — rewriting never changes what an expression denotes.

Layers
  model      lean/FAVerif/Models/Rewriter.lean  (hand port of rewrite.py + the inference properties of expr.py)
  theorems   lean/FAVerif/Props/C04.lean        (infer_sound, tables_sound, rule_sound_*, rewrite_sound_*)
  tie        * translator: the three relational tables of rewrite.py (after the module's own symmetric
               completion loop) are re-read on every run and written to lean/FAVerif/Generated/C04Tables.lean
               (data + one kernel-checked verdict per row, Generated/C04Rows.lean);
             * correspondence: the real `expr.rewrite(functional_algorithms.rewrite)` and
               lean/Drivers/Rewriter.lean on the same serialised expressions (generated + malformed + every
               shipped algorithm graph); results compared as trees, exceptions as an enum; the real
               `_is_*` answers against the model's.
  search     independent of the model: original vs rewritten DAG of the REAL rewriter evaluated exactly over
             Fractions and with NumPy scalars (per-node NaN/overflow/underflow detection) on boundary-heavy
             assignments; no-raise; inference answers against exact evaluation; directed probes for every
             table row.
"""

import concurrent.futures as cf
import json
import os
import subprocess
import time
from fractions import Fraction

from ..runner import PY, REPO, ROOT, Infra
from ..workers import c04_worker as W

THEOREMS = ["infer_sound", "infer_sound_is_one_partial", "infer_is_one_witness",
            "tables_sound", "tables_sound_lifted", "tables_unsound_witness",
            "rule_sound_add", "rule_sound_subtract", "rule_sound_multiply", "rule_sound_divide", "rule_sound_minimum", "rule_sound_maximum",
            "rule_sound_negative", "rule_sound_absolute", "rule_sound_sqrt", "rule_sound_square", "rule_sound_sign", "rule_sound_constant",
            "rule_sound_upcast", "rule_sound_downcast", "rule_sound_log", "rule_sound_log10", "rule_sound_log2", "rule_sound_log1p",
            "rule_sound_logical_and", "rule_sound_logical_or", "rule_sound_logical_not", "rule_sound_compare", "rule_sound_compare_fold",
            "rule_sound_select", "rule_sound_dispatch", "rule_sound_call", "rule_sound_modifier",
            "rewrite_sound_real", "rewrite_sound_real_generated", "rewrite_sound_fp_partial",
            "rewrite_unsound_witness", "upcast_downcast_witness", "no_raise_witness_complex", "no_raise_witness_upcast", "no_raise_witness_sqrt",
            "example_rewrites"]
SEARCHED = ["termination of the per-node fixpoint (fuel exhaustion in the model, 10 s watchdog on the real rewriter)",
            "no exception on well-typed real input (no theorem; model == implementation on exceptions + search)",
            "the strict model returns the plain model's result (checked per expression by the driver)",
            "complex-valued kinds (conjugate/real/imag/complex rules are modelled and compared, not given a semantics)",
            "lists/items, apply (rule `item` not modelled; bodies of shipped graphs are compared)",
            "floating-point clause for mixed-precision expressions, inexact constant folds and casts (NumPy search only)",
            "_is_boolean, is_complex, get_type (model == implementation by correspondence)"]
TRUSTED = ["Lean 4 kernel; axioms propext, Classical.choice, Quot.sound only",
           "hand model Models/Rewriter.lean of rewrite.py/expr.py, tied by the correspondence check of this run (trees compared exactly, exceptions as enum)",
           "translator of the three relational tables (module attributes after the completion loop), re-read on every run",
           "semantics Lemmas/RewriterSem.lean: strict evaluation over an ordered field; floating point = monotone odd idempotent rounding of the exact result, "
           "regular results only (the property's no-NaN/overflow/underflow side condition), one working format, values read up to the sign of zero",
           "FP/Soft.lean == NumPy scalar arithmetic for constant folding (validated by the correspondence of folded constants, bit patterns compared)",
           "hash-consed identity == structural equality (C07), NaN payloads identified"]

# rows of a known finding (status "known" in known_findings.json) would be recorded with the verdict they have.
# Empty since the fix 6a4e7cd in /repo: every consultable row must be sound, an unsound row is a violation.
KNOWN_BAD_ROWS = set()

NPROC = max(2, min(8, (os.cpu_count() or 4) // 2))

TYPES = {"f16": "float16", "f32": "float32", "f64": "float64", "py": "float", "i": "int64"}
FTYPES = ["f16", "f32", "f64", "py"]
REL = ["lt", "le", "gt", "ge", "eq", "ne"]
OPAQUE1 = ["sin", "cos", "exp", "log", "log1p", "floor", "tan", "expm1", "log2", "log10", "atan", "asinh", "tanh", "ceil"]
OPAQUE2 = ["atan2", "hypot", "pow", "copysign"]
NAMED = ["largest", "smallest", "eps", "posinf", "neginf", "pi", "smallest_subnormal"]


# ----------------------------------------------------------------------------- translator (tables)

def read_tables():
    """The three module attributes AFTER the module's own completion loop."""
    from functional_algorithms import rewrite as rw

    return dict(cc=dict(rw._constant_relop_constant), ca=dict(rw._constant_relop_any), aa=dict(rw._any_relop_any))


def key_tok(k):
    if isinstance(k, str):
        return "N" + k
    if isinstance(k, bool):
        return "I1" if k else "I0"
    if isinstance(k, int):
        return f"I{k}"
    if isinstance(k, float) and k == int(k):
        return f"I{int(k)}"
    return "Nunhashable_" + type(k).__name__


def entry_tok(e):
    return "T" if e is True else "F" if e is False else "N"


def table_line(tabs):
    parts = []
    for name in ("cc", "ca", "aa"):
        rows = []
        for (a, b), ent in tabs[name].items():
            rows.append(f"{key_tok(a)}~{key_tok(b)}~{''.join(entry_tok(x) for x in ent)}")
        parts.append(",".join(rows) if rows else "-")
    return "T " + " ".join(parts)


def lean_key(k):
    t = key_tok(k)
    return f'.name "{t[1:]}"' if t[0] == "N" else f".num ({t[1:]})"


def lean_entry(e):
    return "some true" if e is True else "some false" if e is False else "none"


def ident(k):
    t = key_tok(k)[1:]
    return "".join(c if c.isalnum() else "m" for c in t)


# the class abstraction (must agree with Models/SignAbs.lean): index along the extended line,
# even = point, odd = open interval
PTS = ["neginf", None, 0, None, "smallest_subnormal", None, "smallest", None, "eps", None, 1, None, "largest", None, "posinf"]
PROP_CLASSES = dict(positive=range(3, 15), nonnegative=range(2, 15), negative=range(0, 2), nonpositive=range(0, 3), finite=range(1, 14))


def classes(key):
    if isinstance(key, str) and key in PROP_CLASSES:
        return list(PROP_CLASSES[key])
    if isinstance(key, bool):
        key = int(key)
    if key in PTS and key is not None:
        return [PTS.index(key)]
    return None


def judge_row(lhs, rhs, ent):
    """strongest sound entry per column under the real-line universe; returns list of (col, entry, strongest)"""
    cl, cr = classes(lhs), classes(rhs)
    if cl is None or cr is None:
        return None
    outs = set()
    for i in cl:
        for j in cr:
            if i < j:
                outs.add((False, False, True, True, False, True))
            elif i > j:
                outs.add((True, True, False, False, False, True))
            elif i % 2 == 0:
                outs.add((True, False, True, False, True, False))
            else:
                outs |= {(False, False, True, True, False, True), (True, True, False, False, False, True), (True, False, True, False, True, False)}
    bad = []
    for k in range(6):
        vals = {o[k] for o in outs}
        strongest = next(iter(vals)) if len(vals) == 1 else None
        if ent[k] is not None and ent[k] != strongest:
            bad.append((k, ent[k], strongest))
    return bad


def reachable(tname, lhs, rhs):
    """Can `_compare` ever look this key up?  (`_constant_relop_any` is only consulted with a numeric
    constant on the left: `isinstance(value, number_types)` guards both lookups.)"""
    if tname != "ca":
        return True
    return not isinstance(lhs, str)


def generate(ctx):
    """Write Generated/C04Tables.lean (data) and Generated/C04Rows.lean (one verdict per row)."""
    tabs = read_tables()
    L = ["/- GENERATED by fav/props/c04.py from functional_algorithms/rewrite.py (module attributes after the",
         "   completion loop).  Do not edit. -/", "import FAVerif.Models.Rewriter", "namespace FAVerif.Generated.C04", "open FAVerif.Rewriter", ""]
    for name, attr in (("cc", "_constant_relop_constant"), ("ca", "_constant_relop_any"), ("aa", "_any_relop_any")):
        L.append(f"/-- `{attr}` -/")
        L.append(f"def {name} : Table := [")
        rows = []
        for (a, b), ent in tabs[name].items():
            rows.append(f"  (({lean_key(a)}, {lean_key(b)}), [{', '.join(lean_entry(x) for x in ent)}])")
        L.append(",\n".join(rows))
        L.append("]")
        L.append("")
    L.append("def tables : Tables := { cc := cc, ca := ca, aa := aa }")
    L.append("end FAVerif.Generated.C04")
    ctx.lean.write_generated("C04Tables.lean", "\n".join(L) + "\n")

    R = ["/- GENERATED by fav/props/c04.py: one kernel-checked verdict per table row (SignAbs judge, real-line universe).",
         "   `= true`: every non-None entry of the row is the strongest sound entry; `= false`: the row has an unsound entry. -/",
         "import FAVerif.Models.SignAbs", "import FAVerif.Generated.C04Tables", "namespace FAVerif.Generated.C04Rows",
         "open FAVerif.Rewriter FAVerif.SignAbs", ""]
    verdicts = {}
    seen = set()
    for name in ("cc", "ca", "aa"):
        for (a, b), ent in tabs[name].items():
            bad = judge_row(a, b, ent)
            nm = f"row_{name}_{ident(a)}__{ident(b)}"
            while nm in seen:
                nm += "_"
            seen.add(nm)
            reach = reachable(name, a, b)
            known = (name, key_tok(a), key_tok(b)) in KNOWN_BAD_ROWS
            verdicts[(name, key_tok(a), key_tok(b))] = dict(theorem=nm, bad=bad, reachable=reach, known=known, entries=[entry_tok(x) for x in ent],
                                                             keys=(a, b), table=name)
            if bad is None:
                R.append(f"-- {nm}: key outside the abstraction, not judged")
                continue
            row = f"(({lean_key(a)}, {lean_key(b)}), [{', '.join(lean_entry(x) for x in ent)}])"
            # rows the rewriter can consult must be sound (a broken row is a named, failing obligation);
            # rows it cannot consult and the rows of the known finding are recorded with the verdict they have
            want = "true" if (reach and not known) else ("true" if not bad else "false")
            R.append(f"theorem {nm} : rowSound {row} = {want} := by decide")
    R.append("end FAVerif.Generated.C04Rows")
    ctx.lean.write_generated("C04Rows.lean", "\n".join(R) + "\n")
    return tabs, verdicts


# ----------------------------------------------------------------------------- generator

def fbits(x, tag):
    return f"{W.float_bits(x, tag):x}"


def vfloat(x, tag):
    import numpy

    if tag == "py":
        return ["f", "py", fbits(float(x), "py")]
    with numpy.errstate(all="ignore"):
        return ["f", tag, fbits(W.NPF[tag](x), tag)]


class Gen:
    """Type-directed random expression specs with sharing.  All randomness from `rng`."""

    def __init__(self, rng, w_fold=1.0, malformed=False, maxdepth=7, mix_py=True):
        self.rng = rng
        self.mix_py = mix_py
        self.w_fold = w_fold
        self.malformed = malformed
        self.maxdepth = maxdepth
        self.pool = {}
        self.syms = {}
        self.budget = 0

    # -- leaves
    def sym(self, ty):
        r = self.rng
        names = self.syms.setdefault(ty, {})
        n = r.choice(["x", "y", "z", "w"][: (2 if r.random() < 0.25 else 4)])
        name = f"{n}{ty}"
        if name not in names:
            tstr = {"b": "boolean", "c64": "complex64", "c128": "complex128"}.get(ty) or TYPES[ty]
            names[name] = ["sym", name, tstr]
        return names[name]

    def num_value(self, ty):
        r = self.rng
        u = r.random()
        if ty == "i":
            return ["i", r.choice([0, 1, -1, 2, 3, 7, 10, -5, 100, r.randint(-1000, 1000)])]
        if u < 0.30:
            return ["i", r.choice([0, 0, 1, 1, -1, 2, 3, 4, 10, -2, r.randint(-100, 100)])]
        dy = [0.0, 1.0, -1.0, 0.5, 2.0, 0.25, 1.5, -0.5, 3.0, 4.0, 16.0, -2.0, 0.75]
        if u < 0.55:
            x = r.choice(dy)
        elif u < 0.65:
            x = r.choice([0.1, 1e-3, 1 / 3, 2.7, -0.3, 1e10])
        elif u < 0.70:
            x = r.choice([1e-50, 1e300, 1e-320, 65520.0, 3.5e38, float("inf"), -float("inf")])
        elif u < 0.71:
            x = float("nan")
        else:
            x = r.randint(-64, 64) / r.choice([1, 2, 4, 8, 64])
        v = r.random()
        if v < 0.45:
            tag = "py"
        elif v < 0.90:
            tag = ty if ty != "py" else "py"
        else:
            tag = r.choice(["f16", "f32", "f64"])
        return vfloat(x, tag)

    def const(self, ty, value=None):
        r = self.rng
        if value is None:
            if ty != "i" and r.random() < 0.22:
                value = ["n", r.choice(NAMED + ["largest", "posinf", "neginf"] + (["nan", "undefined"] if r.random() < 0.03 else []))]
            else:
                value = self.num_value(ty)
        if ty == "i" and value[0] == "f":
            value = ["i", int(W.float_of_bits(int(value[2], 16), value[1]))]      # integer-typed constants hold ints
        like = self.sym(ty)
        if r.random() < 0.08 and self.budget > 3:
            like = self.num(2, ty)
        return ["const", value, like]

    def bconst(self, b):
        return ["const", ["b", bool(b)], ["sym", "_boolean_value", "boolean"]]

    # -- helpers
    def reuse(self, key):
        p = self.pool.get(key)
        if p and self.rng.random() < 0.22:
            return self.rng.choice(p)
        return None

    def keep(self, key, e):
        self.pool.setdefault(key, []).append(e)
        return e

    def other_ty(self, ty):
        """another float type for a mixed-precision operand.  The search does not mix Python-float typed
        operands (no bit width: the package's type of `x32 * c_float` is float32, what a target computes is
        target specific) with NumPy dtypes."""
        if not self.mix_py:
            if ty == "py":
                return ty
            return self.rng.choice([t for t in ("f16", "f32", "f64") if t != ty])
        return self.rng.choice([t for t in FTYPES if t != ty])

    def signed(self, d, ty):
        """expression whose sign the inference can determine"""
        r = self.rng
        x = self.num(d - 1, ty)
        c = r.random()
        if c < 0.25:
            return ["absolute", x]
        if c < 0.40:
            return ["square", x]
        if c < 0.50:
            return ["negative", ["absolute", x]]
        if c < 0.60:
            return ["sqrt", ["absolute", x]] if ty != "i" else ["absolute", ["negative", x]]
        if c < 0.70:
            return ["add", ["absolute", x], self.const(ty, ["i", 1])]
        if c < 0.78:
            return ["negative", ["add", ["square", x], self.const(ty, vfloat(0.5, "py"))]]
        if c < 0.86:
            return ["multiply", ["absolute", x], ["square", self.num(d - 1, ty)]]
        if c < 0.93:
            return self.const(ty, r.choice([["i", 0], ["i", 1], ["i", -1], ["i", 2], vfloat(0.5, "py"), ["n", "largest"], ["n", "neginf"], ["n", "eps"]]))
        return ["subtract", ["negative", ["absolute", x]], ["square", self.num(d - 1, ty)]]

    # -- numeric
    def num(self, d, ty):
        r = self.rng
        self.budget -= 1
        got = self.reuse(("n", ty))
        if got is not None:
            return got
        if d <= 0 or self.budget <= 0 or r.random() < 0.12:
            return self.sym(ty) if r.random() < 0.88 - 0.28 * self.w_fold else self.const(ty)
        c = r.random()
        if ty == "i":
            # integer-typed expressions: only kinds that are closed over the integers
            c = r.choice([0.1, 0.1, 0.1, 0.4, 0.55, 0.7, 0.9])
        if c < 0.34:
            k = r.choice(["add", "subtract", "multiply", "divide", "add", "multiply", "subtract"] if ty != "i" else ["add", "subtract", "multiply"])
            x = self.num(d - 1, ty)
            u = r.random()
            if u < 0.10:
                y = x
            elif u < 0.30:
                y = self.const(ty, r.choice([["i", 0], ["i", 1], vfloat(0.0, "py"), vfloat(1.0, "py"), ["i", 2]]))
            elif u < 0.36 and ty != "i":
                y = self.num(d - 1, self.other_ty(ty))
            else:
                y = self.num(d - 1, ty)
            e = [k, x, y] if r.random() < 0.7 else [k, y, x]
        elif c < 0.52:
            k = r.choice(["negative", "absolute", "negative", "absolute", "sqrt", "square", "sign", "positive"] if ty != "i" else ["negative", "absolute", "square", "positive"])
            x = self.num(d - 1, ty)
            if r.random() < 0.25 and k in ("negative", "absolute", "sign"):
                x = [k, x]
            e = [k, x]
        elif c < 0.60:
            e = [r.choice(["minimum", "maximum"]), self.num(d - 1, ty), self.num(d - 1, ty)]
        elif c < 0.74:
            e = self.select_num(d, ty)
        elif c < 0.80 and ty in ("f16", "f32", "f64"):
            up = {"f16": "f32", "f32": "f64"}
            down = {"f64": "f32", "f32": "f16"}
            u = r.random()
            if u < 0.35 and ty in down.values() and ty in up:
                # ty = f32: downcast(upcast(x32)) or upcast(downcast(..)) patterns
                e = ["downcast", ["upcast", self.num(d - 2, ty)]] if r.random() < 0.5 else ["upcast", ["downcast", self.num(d - 2, ty)]]
            elif ty in up.values() and r.random() < 0.5:
                src = [k for k, v in up.items() if v == ty][0]
                e = ["upcast", self.num(d - 1, src)]
                if r.random() < 0.3:
                    e = ["upcast", ["downcast", self.num(d - 2, ty)]]
            elif ty in down.values():
                src = [k for k, v in down.items() if v == ty][0]
                e = ["downcast", self.num(d - 1, src)]
                if r.random() < 0.3:
                    e = ["downcast", ["upcast", self.num(d - 2, ty)]]
            else:
                e = ["negative", self.num(d - 1, ty)]
        elif c < 0.88 and ty != "i":
            if r.random() < 0.75:
                k = r.choice(OPAQUE1)
                x = self.num(d - 1, ty)
                if r.random() < 0.2 and k.startswith("log"):
                    x = self.const(ty, r.choice([["i", 1], ["i", 0], vfloat(1.0, "py"), vfloat(0.0, "py")]))
                e = [k, x]
            else:
                e = [r.choice(OPAQUE2), self.num(d - 1, ty), self.num(d - 1, ty)]
        elif c < 0.88 + 0.06 * self.w_fold:
            # constant sub-computations (folding)
            k = r.choice(["add", "subtract", "multiply", "minimum", "maximum", "sqrt", "square", "negative", "absolute", "sign", "divide"]
                         if ty != "i" else ["add", "subtract", "multiply", "minimum", "maximum", "negative", "absolute"])
            a, b = self.const(ty), self.const(ty)
            e = [k, a] if k in ("sqrt", "square", "negative", "absolute", "sign") else [k, a, b]
        else:
            e = self.signed(d, ty)
        return self.keep(("n", ty), e)

    def select_num(self, d, ty):
        r = self.rng
        c = self.boolean(d - 1)
        x, y = self.num(d - 1, ty), self.num(d - 1, ty)
        u = r.random()
        if u < 0.10:
            return ["select", c, x, x]
        if u < 0.20:
            k = r.choice(["eq", "ne"])
            return ["select", [k, x, y], x, y] if r.random() < 0.7 else ["select", [k, y, x], x, y]
        if u < 0.32:
            c1 = self.boolean(d - 2)
            a = self.num(d - 2, ty)
            return ["select", c, ["select", c1, a, y], y] if r.random() < 0.5 else ["select", c, ["select", c1, y, a], y]
        if u < 0.42:
            c1 = self.boolean(d - 2)
            a = self.num(d - 2, ty)
            inner = ["select", c1, a, x] if r.random() < 0.5 else ["select", c1, x, a]
            return ["select", c, x, inner]
        if u < 0.46:
            return ["select", self.bconst(r.random() < 0.5), x, y]
        return ["select", c, x, y]

    # -- boolean
    def boolean(self, d):
        r = self.rng
        self.budget -= 1
        got = self.reuse(("b",))
        if got is not None:
            return got
        if d <= 0 or self.budget <= 0:
            if r.random() < 0.5:
                return self.sym("b")
            ty = r.choice(FTYPES)
            a = self.sym(ty)
            b = self.sym(ty) if r.random() < 0.8 else self.const(ty, self.num_value(ty))
            if b is a:
                b = ["negative", a] if r.random() < 0.5 else ["add", a, self.const(ty, ["i", r.choice([1, 2, 3])])]
            return [r.choice(REL), a, b]
        c = r.random()
        if c < 0.50:
            e = self.compare(d)
        elif c < 0.62:
            x, y = self.boolean(d - 1), self.boolean(d - 1)
            u = r.random()
            if u < 0.12:
                y = x
            elif u < 0.22:
                y = self.bconst(r.random() < 0.5) if r.random() < 0.35 else y
            e = ["logical_and", x, y] if r.random() < 0.6 else ["logical_and", y, x]
            if u > 0.80:
                # (a and b) and a
                e = ["logical_and", ["logical_and", x, y], r.choice([x, y])] if r.random() < 0.5 else ["logical_and", r.choice([x, y]), ["logical_and", x, y]]
        elif c < 0.74:
            x, y = self.boolean(d - 1), self.boolean(d - 1)
            u = r.random()
            if u < 0.10:
                y = x
            elif u < 0.18:
                y = self.bconst(r.random() < 0.5)
            e = ["logical_or", x, y] if r.random() < 0.6 else ["logical_or", y, x]
            if u > 0.75:
                # (not y and b) or y   -- with `not y` spelled as the rewriter would / as logical_not
                ny = self.negate(y) if r.random() < 0.6 else ["logical_not", y]
                inner = ["logical_and", ny, x] if r.random() < 0.5 else ["logical_and", x, ny]
                e = ["logical_or", inner, y] if r.random() < 0.5 else ["logical_or", y, inner]
        elif c < 0.84:
            e = ["logical_not", self.boolean(d - 1)]
        elif c < 0.88:
            e = ["logical_xor", self.boolean(d - 1), self.boolean(d - 1)]
        elif c < 0.93:
            e = ["select", self.boolean(d - 1), self.boolean(d - 1), self.boolean(d - 1)]
        elif c < 0.93 + 0.015 * self.w_fold:
            e = self.bconst(r.random() < 0.5)
        else:
            e = self.sym("b")
        return self.keep(("b",), e)

    def negate(self, y):
        """`not y` in the form the rewriter itself produces for comparisons"""
        if y[0] in REL and len(y) == 3:
            a, b = y[1], y[2]
            return dict(eq=["ne", a, b], ne=["eq", a, b], lt=["le", b, a], le=["lt", b, a], gt=["le", a, b], ge=["lt", a, b])[y[0]]
        return ["logical_not", y]

    def compare(self, d):
        r = self.rng
        ty = r.choice(FTYPES + ["f32", "f64", "i"])
        k = r.choice(REL)
        u = r.random()
        if u < 0.10 * self.w_fold:
            x, y = self.signed(d, ty), self.signed(d, ty)
        elif u < 0.10 * self.w_fold + 0.12:
            x = self.signed(d, ty)
            y = self.const(ty, r.choice([["i", 0], ["i", 1], vfloat(0.0, "py"), vfloat(1.0, ty if ty != "i" else "py"), ["i", 2], ["i", -1]])) if ty != "i" else self.const(ty)
            if r.random() < 0.5:
                x, y = y, x
        elif u < 0.10 * self.w_fold + 0.20:
            x = self.num(d - 1, ty)
            y = x if r.random() < 0.4 * self.w_fold else self.num(d - 1, ty)
        elif u < 0.10 * self.w_fold + 0.30:
            x = self.select_num(d - 1, ty)
            y = self.num(d - 1, ty) if r.random() < 0.8 else self.select_num(d - 1, ty)
            if r.random() < 0.5:
                x, y = y, x
        elif u < 0.10 * self.w_fold + 0.30 + 0.04 * self.w_fold:
            x, y = self.const(ty), self.const(ty)
        elif u < 0.10 * self.w_fold + 0.42 and ty != "i":
            x, y = self.num(d - 1, ty), self.num(d - 1, self.other_ty(ty))
        else:
            x, y = self.num(d - 1, ty), self.num(d - 1, ty)
            # keep accidental constant conditions rare: no `c1 rel c2`, no `x rel x` outside the directed branches
            tries = 0
            while (x is y or (x[0] == "const" and y[0] == "const") or x == y) and tries < 4:
                tries += 1
                y = self.num(max(1, d - 1), ty) if tries < 3 else ["add", self.sym(ty), self.num(1, ty)]
        return [k, x, y]

    # -- malformed stream
    def bad(self, d):
        r = self.rng
        c = r.random()
        z = self.sym(r.choice(["c64", "c128"]))
        ty = r.choice(FTYPES)
        if c < 0.25:
            y = r.choice([self.const("py", ["i", 0]), ["const", ["i", 0], z], self.num(1, ty), z, ["absolute", z]])
            x = r.choice([z, ["absolute", z], ["real", z], ["add", z, z], ["conjugate", z], ["negative", z]])
            return [r.choice(REL), x, y] if r.random() < 0.5 else [r.choice(REL), y, x]
        if c < 0.40:
            return [r.choice(["add", "multiply", "subtract", "minimum"]), self.boolean(d - 1), self.num(d - 1, ty)]
        if c < 0.52:
            k = r.choice(["logical_and", "logical_or", "logical_not"])
            return [k, self.num(d - 1, ty)] if k == "logical_not" else [k, self.num(d - 1, ty), r.choice([self.boolean(d - 1), self.num(d - 1, ty)])]
        if c < 0.62:
            return ["select", self.num(d - 1, ty), self.num(d - 1, ty), self.boolean(d - 1)]
        if c < 0.72:
            v = r.choice([["b", True], ["n", "no_such_name"], ["c", "py", fbits(1.0, "py"), fbits(2.0, "py")], ["i", 10**30], ["n", "pi"]])
            like = r.choice([self.sym(ty), self.sym("b"), z])
            e = ["const", v, like]
            return r.choice([e, ["add", e, self.num(1, ty)], ["sqrt", e], [r.choice(REL), e, self.const(ty)], ["negative", e], ["absolute", e]])
        if c < 0.86:
            # kinds on which `is_complex` / `get_type` are not implemented, under comparisons and constants
            k = r.choice(["upcast", "downcast", "sign", "truncate", "round", "is_finite"])
            x = [k, self.num(1, r.choice(["f32", "f64"]))]
            return r.choice([[r.choice(REL), x, self.const("f32", ["i", 0])], [r.choice(REL), x, self.signed(2, "f32")], ["const", ["i", 1], x],
                             [r.choice(REL), ["copysign", self.num(1, ty), self.num(1, ty)], self.const(ty, ["i", 0])]])
        if c < 0.93:
            a, b = ["const", ["n", r.choice(["pi", "nan", "largest"])], self.sym(ty)], self.const(ty)
            return [r.choice(["eq", "ne", "lt"]), a, b] if r.random() < 0.5 else [r.choice(["eq", "ne"]), b, a]
        return [r.choice(["conjugate", "real", "imag"]), r.choice([z, ["complex", self.num(1, ty), self.num(1, ty)], ["conjugate", z], self.const(ty)])]

    def expression(self):
        r = self.rng
        self.pool = {}
        self.syms = {}
        d = r.choice([1, 2, 2, 3, 3, 4, 4, 5, 6, self.maxdepth])
        self.budget = r.choice([6, 12, 20, 30, 45])
        if self.malformed:
            return self.bad(d), "malformed"
        if r.random() < 0.55:
            return self.boolean(d), "bool"
        return self.num(d, r.choice(FTYPES + ["f32", "f64", "i"])), "num"


def depth_of(spec, memo=None):
    memo = {} if memo is None else memo
    k = id(spec)
    if k in memo:
        return memo[k]
    if spec[0] == "sym":
        r = 0
    elif spec[0] == "const":
        r = 0
    else:
        r = 1 + max([depth_of(s, memo) for s in spec[1:]] or [0])
    memo[k] = r
    return r


def kinds_of(spec, acc, memo=None):
    memo = set() if memo is None else memo
    if id(spec) in memo:
        return
    memo.add(id(spec))
    acc.add(spec[0])
    if spec[0] == "const":
        kinds_of(spec[2], acc, memo)
    elif spec[0] != "sym":
        for s in spec[1:]:
            kinds_of(s, acc, memo)


# ----------------------------------------------------------------------------- running real code / driver in parallel

def run_jobs(mode, specs, extra=None, nproc=NPROC):
    """Run worker subprocesses over chunks of specs (keeps order)."""
    if not specs:
        return []
    n = max(1, min(nproc, (len(specs) + 199) // 200))
    size = (len(specs) + n - 1) // n
    chunks = [(i, specs[i:i + size]) for i in range(0, len(specs), size)]
    env = dict(os.environ)
    env["PYTHONPATH"] = REPO + os.pathsep + ROOT + os.pathsep + env.get("PYTHONPATH", "")

    def one(ch):
        i, sp = ch
        job = dict(mode=mode, specs=[W.share(s) for s in sp])
        if extra is not None:
            job["assignments"] = extra[i:i + len(sp)]
        p = subprocess.run([PY, "-m", "fav.workers.c04_worker"], input=json.dumps(job), capture_output=True, text=True, cwd=ROOT, env=env, timeout=3000)
        if p.returncode != 0:
            raise Infra("c04 worker failed: " + p.stderr[-3000:])
        return json.loads(p.stdout)

    with cf.ThreadPoolExecutor(max_workers=n) as ex:
        parts = list(ex.map(one, chunks))
    out = []
    for p in parts:
        out.extend(p)
    return out


def run_driver(ctx, tline, lines, nproc=NPROC):
    if not lines:
        return []
    n = max(1, min(nproc, (len(lines) + 299) // 300))
    size = (len(lines) + n - 1) // n
    chunks = [lines[i:i + size] for i in range(0, len(lines), size)]

    def one(ch):
        for attempt in range(8):
            try:
                out = ctx.lean.driver("Rewriter", [tline] + ch)
                break
            except Infra as ex:
                # another property's `lake build` may be replacing a shared .olean at this very moment
                if "does not exist" in str(ex) and attempt < 7:
                    time.sleep(15)
                    continue
                raise
        if len(out) != len(ch) + 1 or not out[0].startswith("tables "):
            raise Infra(f"driver Rewriter returned {len(out)} lines for {len(ch) + 1}: {out[:1]}")
        return out[1:]

    with cf.ThreadPoolExecutor(max_workers=n) as ex:
        parts = list(ex.map(one, chunks))
    out = []
    for p in parts:
        out.extend(p)
    return out


def tuplify(x):
    return tuple(tuplify(i) for i in x) if isinstance(x, list) else x


def r_line(res, work="f32", fuel=64):
    gt = ",".join(map(str, res["gt"])) or "-"
    bad = ",".join(map(str, res["bad"])) or "-"
    return f"R {work} {fuel} {gt} {bad} | {res['dag']}"


def work_of(spec):
    """working dtype for the strict run: the most frequent float type among the symbols"""
    cnt = {}

    def rec(s, memo):
        if id(s) in memo:
            return
        memo.add(id(s))
        if s[0] == "sym":
            t = {"float16": "f16", "float32": "f32", "float64": "f64", "float": "py"}.get(s[2])
            if t:
                cnt[t] = cnt.get(t, 0) + 1
        elif s[0] == "const":
            rec(s[2], memo)
        else:
            for o in s[1:]:
                rec(o, memo)

    rec(spec, set())
    return max(cnt, key=cnt.get) if cnt else "f64"


# ----------------------------------------------------------------------------- assignments

TAG_OF_TYPE = {"float16": "f16", "float32": "f32", "float64": "f64", "float": "py", "int64": "i", "boolean": "b"}


def symbols_of(spec):
    out = {}

    def rec(s, memo):
        if id(s) in memo:
            return
        memo.add(id(s))
        if s[0] == "sym":
            out[s[1]] = TAG_OF_TYPE.get(s[2])
        elif s[0] == "const":
            rec(s[2], memo)
        else:
            for o in s[1:]:
                rec(o, memo)

    rec(spec, set())
    return out


def gen_value(rng, tag, allow_inf):
    """boundary-heavy value representable in the dtype: returns (Fraction | None for inf, float)"""
    import numpy

    if tag == "i":
        n = rng.choice([0, 0, 1, -1, 2, -2, 3, 7, 100, -100, rng.randint(-50, 50)])
        return Fraction(n), n
    p = {"f16": 11, "f32": 24, "f64": 53, "py": 53}[tag]
    emax = {"f16": 14, "f32": 120, "f64": 1000, "py": 1000}[tag]
    emin = {"f16": -13, "f32": -120, "f64": -1000, "py": -1000}[tag]
    c = rng.random()
    if c < 0.16:
        q = Fraction(0)
    elif c < 0.30:
        q = Fraction(rng.choice([1, -1]))
    elif c < 0.40:
        q = Fraction(rng.choice([1, -1])) * Fraction(2) ** rng.choice([emin, emin + 1, -8, -3])
    elif c < 0.50:
        q = Fraction(rng.choice([1, -1])) * Fraction(2) ** rng.choice([emax, emax - 1, 8, 5])
    elif c < 0.56 and allow_inf:
        return None, rng.choice([float("inf"), -float("inf")])
    elif c < 0.70:
        q = Fraction(rng.randint(-16, 16), rng.choice([1, 2, 4, 8]))
    elif c < 0.84:
        # full significand: not representable in any narrower format
        q = Fraction(rng.choice([1, -1]) * rng.randint(1 << (p - 1), (1 << p) - 1), 1 << (p - 1 + rng.choice([0, 1, 3])))
    else:
        q = Fraction(rng.randint(-(1 << min(p, 20)), 1 << min(p, 20)), 1 << rng.choice([0, 3, 10, 18]))
    return q, float(q)


def gen_assignments(rng, spec, n):
    syms = symbols_of(spec)
    out = []
    for k in range(n):
        q, f = {}, {}
        prev = {}
        for name, tag in sorted(syms.items()):
            if tag is None:
                continue
            if tag == "b":
                b = rng.random() < 0.5
                q[name], f[name] = b, b
                continue
            if tag in prev and rng.random() < 0.25:
                vq, vf = prev[tag]          # equal values
            else:
                vq, vf = gen_value(rng, tag, allow_inf=(k % 3 == 2))
            prev[tag] = (vq, vf)
            if vq is None:
                # infinity: only in the floating-point environment; the exact environment gets a finite stand-in
                q[name] = [rng.choice([1, -1, 0, 3]), 1]
            else:
                q[name] = [vq.numerator, vq.denominator]
            f[name] = ["i", int(vf)] if tag == "i" else [tag, W.float_bits(vf, tag)]
        out.append(dict(q=q, f=f))
    return out


# ----------------------------------------------------------------------------- stages

def table_stage(ctx, verdicts, lean_broken):
    """One obligation per table row; unexpected unsound reachable rows are broken obligations."""
    items = {}
    latent = []
    for key, v in verdicts.items():
        name = f"row:{key[0]}:({key[1][1:]},{key[2][1:]})"
        if v["bad"] is None:
            ctx.obligation(name, True, kind="table-row(not judged: key outside the abstraction)")
            continue
        if v["bad"] and not v["reachable"]:
            latent.append(name)
            ctx.obligation(name, True, kind="table-row(unsound but never consulted by _compare)")
            continue
        ok = not v["bad"]
        ctx.obligation(name, ok or v["known"], kind="table-row" if ok else "table-row(known finding)")
        if v["bad"] and not v["known"]:
            items[key] = ctx.broken(f"tables_sound:{name}", f"row {v['keys']} entries {v['entries']} unsound columns {v['bad']}")
    ctx.notes["latent_unsound_unreachable_rows"] = latent
    return items


def compare_one(res, out):
    """-> (status, detail).  status in same | order-only | unsupported | nan-identity | MISMATCH"""
    head, _, strict = out.partition(" | strict=")
    if head.startswith("ok "):
        m = ("ok", W.parse_sexpr(head[3:]))
    elif head.startswith("err "):
        m = ("err", head[4:])
    else:
        return "MISMATCH", f"driver said {head[:200]}", strict
    real = ("ok", tuplify(res["ok"])) if "ok" in res else ("err", res["err"])
    if m[0] == "err" and m[1].startswith("Unsupported"):
        return "unsupported", m[1], strict
    if m == real:
        return "same", real[0] if real[0] == "ok" else real[1], strict
    if m[0] == "ok" and real[0] == "ok" and W.sort_canon(m[1]) == W.sort_canon(real[1]):
        return "order-only", "", strict
    blob = repr(m) + repr(real) + res.get("dag", "")
    if "7fc00000" in blob or "7ff8000000000000" in blob or ":7e00" in blob or "Nnan" in blob or "Nundefined" in blob:
        return "nan-identity", "", strict
    return "MISMATCH", dict(model=str(m)[:1500], impl=str(real)[:1500]), strict


def shrink_spec(spec, still_fails, budget=60):
    """greedy delta debugging: replace the expression by one of its sub-expressions while it still fails"""
    cur = spec
    changed = True
    while changed and budget > 0:
        changed = False
        kids = [s for s in (cur[1:] if cur[0] not in ("sym", "const") else []) if isinstance(s, list)]
        for k in kids:
            budget -= 1
            if budget <= 0:
                break
            try:
                if still_fails(k):
                    cur = k
                    changed = True
                    break
            except Exception:  # noqa: BLE001
                continue
    return cur


def correspondence(ctx, tline, specs, kinds, label, broken_out):
    """real rewriter vs model on `specs`; returns per-spec status list"""
    res = run_jobs("corr", specs)
    idx = [i for i, r in enumerate(res) if "dag" in r]
    lines = [r_line(res[i], work_of(specs[i])) for i in idx]
    outs = run_driver(ctx, tline, lines)
    status = [None] * len(specs)
    for i, r in enumerate(res):
        if "dag" not in r:
            ctx.count(f"{label}:build-error:{r.get('build_error')}")
            status[i] = "build-error"
    mism = 0
    for i, o in zip(idx, outs):
        r = res[i]
        st, detail, strict = compare_one(r, o)
        status[i] = st
        ctx.count(f"{label}:{st}")
        ctx.count(f"{label}:strict:{strict.split(':')[0]}")
        if strict.startswith("Inexact:internal") or strict == "ok-diff":
            mism += 1
            if len(broken_out) < 4:
                broken_out.append((ctx.broken("model:strict-run-disagrees-with-plain-run", json.dumps(dict(dag=r["dag"], strict=strict))), specs[i]))
        nontrivial = bool(r.get("changed")) or "err" in r
        ctx.case(key=W.hstr(r["dag"]), nontrivial=nontrivial)
        if "err" in r:
            ctx.count(f"{label}:impl-raises:{r['err']}")
        elif r.get("changed"):
            ctx.count(f"{label}:rewritten")
        ctx.traces_validated += 1
        if st == "MISMATCH":
            mism += 1
            if len(broken_out) < 4:
                def fails(sub):
                    rr = W.correspondence_case(sub)
                    if "dag" not in rr:
                        return False
                    oo = run_driver(ctx, tline, [r_line(rr, work_of(sub))], nproc=1)
                    return compare_one(rr, oo[0])[0] == "MISMATCH"
                small = shrink_spec(specs[i], fails)
                path = save_corpus("mismatch", small)
                item = ctx.broken("correspondence:Rewriter", json.dumps(dict(spec=W.share(small), detail=detail, corpus=path))[:3500])
                broken_out.append((item, small))
    return status, res, mism


def save_corpus(prefix, spec):
    if os.path.realpath(REPO) != "/repo":
        return "(not stored: FAV_REPO experiment)"
    d = os.path.join(ROOT, "corpus", "C04")
    os.makedirs(d, exist_ok=True)
    blob = json.dumps(dict(spec=W.share(spec)), sort_keys=True)
    import hashlib

    name = f"{prefix}_{hashlib.sha256(blob.encode()).hexdigest()[:10]}.json"
    path = os.path.join(d, name)
    if not os.path.exists(path):
        with open(path, "w") as f:
            f.write(blob + "\n")
    return os.path.relpath(path, ROOT)


def load_corpus():
    d = os.path.join(ROOT, "corpus", "C04")
    out = []
    if os.path.isdir(d):
        for fn in sorted(os.listdir(d)):
            if fn.endswith(".json"):
                try:
                    out.append((fn, W.unshare(json.load(open(os.path.join(d, fn)))["spec"])))
                except Exception:  # noqa: BLE001
                    continue
    return out


def report_search(ctx, spec, res, broken_item=None, origin="generated"):
    """turn the failures of one search case into violations"""
    n = 0
    if not res.get("fails"):
        return 0
    sigs = res.get("signatures") or [f.get("signature", "value:unclassified") for f in res["fails"]]
    for sig in dict.fromkeys(sigs):
        if sig.startswith("value:") and sum(1 for v in ctx.violations if v["signature"].startswith("value:")) >= 6 and \
                sig not in [v["signature"] for v in ctx.violations]:
            ctx.count("search:further-unclassified-value-failures(not reported separately)")
            continue
        what = f"{origin}: rewriting changes the value / raises on the real rewriter: {sig}; first failure {json.dumps(res['fails'][0])[:600]}"
        ctx.violation(sig, what, dict(spec=W.share(spec), fails=res["fails"][:3], minimal=res.get("minimal")), broken_item=broken_item)
        n += 1
    return n


def sym_spec(name, ty):
    return ["sym", name, TYPES[ty]]


def prop_witness(prop, ty, name):
    """expression whose inferred property is `prop` (and nothing stronger than needed)"""
    x = sym_spec(name, ty)
    like = sym_spec(name, ty)
    c = lambda v: ["const", ["i", v], like]
    return dict(nonnegative=["absolute", x], nonpositive=["negative", ["absolute", x]],
                positive=["divide", c(3), c(2)], negative=["divide", c(-3), c(2)],
                finite=["divide", c(1), c(2)])[prop]


def key_expr(key, ty, name):
    if isinstance(key, str) and key in PROP_CLASSES:
        return prop_witness(key, ty, name)
    like = sym_spec(name, ty)
    if isinstance(key, str):
        return ["const", ["n", key], like]
    return ["const", ["i", int(key)], like]


def table_probes(verdicts):
    """for every row the rewriter can consult: the comparisons that consult it"""
    probes = []
    for key, v in verdicts.items():
        if not v["reachable"]:
            continue
        a, b = v["keys"]
        for ty in ("f32", "f64"):
            for rel in REL:
                probes.append((key, [rel, key_expr(a, ty, "a"), key_expr(b, ty, "b")]))
                if key[0] == "ca":
                    probes.append((key, [rel, key_expr(b, ty, "b"), key_expr(a, ty, "a")]))
    return probes


DIRECTED = [
    # (label, spec builder)  -- expressions behind the findings recorded in known_findings.json and their neighbours
    ("upcast(downcast(x))", lambda: ["upcast", ["downcast", sym_spec("x", "f64")]]),
    ("downcast(upcast(x))", lambda: ["downcast", ["upcast", sym_spec("x", "f32")]]),
    ("z == 0 (complex)", lambda: ["eq", ["sym", "z", "complex64"], ["const", ["i", 0], ["sym", "z", "complex64"]]]),
    ("abs(z) < 0 (complex)", lambda: ["lt", ["absolute", ["sym", "z", "complex64"]], ["const", ["i", 0], ["sym", "x", "float32"]]]),
    ("upcast(x) < 0", lambda: ["lt", ["upcast", sym_spec("x", "f32")], ["const", ["i", 0], sym_spec("y", "f64")]]),
    ("sign(x) >= abs(y)", lambda: ["ge", ["sign", sym_spec("x", "f32")], ["absolute", sym_spec("y", "f32")]]),
    ("copysign(x,y) < 0", lambda: ["lt", ["copysign", sym_spec("x", "f32"), sym_spec("y", "f32")], ["const", ["i", 0], sym_spec("x", "f32")]]),
    ("sqrt(-1.0) python float", lambda: ["sqrt", ["const", vfloat(-1.0, "py"), sym_spec("x", "py")]]),
    ("sqrt(-4.0) float32", lambda: ["sqrt", ["const", vfloat(-4.0, "py"), sym_spec("x", "f32")]]),
    ("pi == 3 python float", lambda: ["eq", ["const", ["n", "pi"], sym_spec("x", "py")], ["const", ["i", 3], sym_spec("x", "py")]]),
    ("0.1(f32) + 0.2(f64)", lambda: ["add", ["const", vfloat(0.1, "py"), sym_spec("x", "f32")], ["const", vfloat(0.2, "py"), sym_spec("y", "f64")]]),
    ("x*(0.1(f32) + 0.2(f64))", lambda: ["multiply", sym_spec("y", "f64"), ["add", ["const", vfloat(0.1, "py"), sym_spec("x", "f32")], ["const", vfloat(0.2, "py"), sym_spec("y", "f64")]]]),
    ("largest(f32) == largest(f64)", lambda: ["eq", ["const", ["n", "largest"], sym_spec("x", "f32")], ["const", ["n", "largest"], sym_spec("y", "f64")]]),
    ("atan2(0.0 - (x - x), -1)", lambda: ["atan2", ["subtract", ["const", vfloat(0.0, "py"), sym_spec("x", "f32")], ["subtract", sym_spec("x", "f32"), sym_spec("x", "f32")]],
                                          ["const", ["i", -1], sym_spec("x", "f32")]]),
    ("0 == smallest/posinf", lambda: ["eq", ["const", ["i", 0], sym_spec("x", "f32")], ["divide", ["const", ["n", "smallest"], sym_spec("x", "f32")], ["const", ["n", "posinf"], sym_spec("x", "f32")]]]),
    ("-abs(a) < abs(b)", lambda: ["lt", ["negative", ["absolute", sym_spec("a", "f32")]], ["absolute", sym_spec("b", "f32")]]),
    ("abs(a) <= -abs(b)", lambda: ["le", ["absolute", sym_spec("a", "f64")], ["negative", ["absolute", sym_spec("b", "f64")]]]),
    ("select(-abs(a) == abs(b), a, b)", lambda: ["select", ["eq", ["negative", ["absolute", sym_spec("a", "f32")]], ["absolute", sym_spec("b", "f32")]], sym_spec("a", "f32"), sym_spec("b", "f32")]),
]

def sign_algebra_specs(ty="f32"):
    """Systematic depth-2 coverage of the sign inference: every binary arithmetic kind over every ordered pair of
    sign classes (positive, non-negative, zero, non-positive, negative, unknown — several witnesses each), and its
    negation.  Returns (expressions, comparisons of them against 0)."""
    def atoms(name):
        x = sym_spec(name, ty)
        c = lambda v: ["const", ["i", v], x]
        return [
            ["add", ["absolute", x], c(1)], ["divide", c(3), c(2)], c(2),                       # positive
            ["absolute", x], ["square", x],                                                     # non-negative
            c(0),                                                                                # zero
            ["negative", ["absolute", x]], ["negative", ["square", x]],                          # non-positive
            ["negative", ["add", ["square", x], c(1)]], c(-2), ["divide", c(-3), c(2)],          # negative
            x,                                                                                   # unknown
        ]
    zero = ["const", ["i", 0], sym_spec("a", ty)]
    exprs, cmps = [], []
    for a in atoms("a"):
        for b in atoms("b"):
            for op in ("multiply", "divide", "add", "subtract"):
                e = [op, a, b]
                for ee in (e, ["negative", e]):
                    exprs.append(ee)
                    for rel in REL:
                        cmps.append([rel, ee, zero])
    return exprs, cmps


def _signzero_probes():
    """every way the rewriter can turn an expression of value +-0 into one of the other sign, under each sign-sensitive kind"""
    P = []
    for ty in ("f32", "f64"):
        x = sym_spec("x", ty)
        c = lambda v: ["const", ["i", v], x]
        cf = lambda v: ["const", vfloat(v, "py"), x]
        E = {
            "0-x": ["subtract", c(0), x], "0.0-x": ["subtract", cf(0.0), x], "x-0": ["subtract", x, c(0)], "x+0": ["add", x, c(0)], "0+x": ["add", c(0), x],
            "x+0.0": ["add", x, cf(0.0)], "x+(-0.0)": ["add", x, cf(-0.0)], "x*1": ["multiply", x, c(1)], "1*x": ["multiply", c(1), x], "x/1": ["divide", x, c(1)],
            "-(-x)": ["negative", ["negative", x]], "x*(-1)": ["multiply", x, c(-1)], "-(x-y)": ["negative", ["subtract", x, sym_spec("y", ty)]],
            "x-x": ["subtract", x, x], "0*x": ["multiply", c(0), x], "x*0": ["multiply", x, c(0)], "0/x": ["divide", c(0), x], "-0": ["negative", c(0)],
            "abs(-x)": ["absolute", ["negative", x]], "x+x": ["add", x, x], "+x": ["positive", x], "sqrt(x*x)": ["sqrt", ["multiply", x, x]],
            "min(x,x)": ["minimum", x, x], "max(x,0)": ["maximum", x, c(0)], "select(x<0,x,0)": ["select", ["lt", x, c(0)], x, c(0)],
            # rules found by the thorough tier (2026-09-25): (x == y) ? x : y -> y and (x != y) ? x : y -> x pick the other zero
            "select(x==y,x,y)": ["select", ["eq", x, sym_spec("y", ty)], x, sym_spec("y", ty)],
            "select(x!=y,x,y)": ["select", ["ne", x, sym_spec("y", ty)], x, sym_spec("y", ty)],
            "select(y==x,x,y)": ["select", ["eq", sym_spec("y", ty), x], x, sym_spec("y", ty)],
            "x-(-0.0)": ["subtract", x, cf(-0.0)], "(-0.0)-x": ["subtract", cf(-0.0), x], "(-0.0)+x": ["add", cf(-0.0), x],
            "sign(-0.0)": ["sign", cf(-0.0)], "sqrt(-0.0)": ["sqrt", cf(-0.0)], "min(0.0,-0.0)": ["minimum", cf(0.0), cf(-0.0)],
            "max(-0.0,0.0)": ["maximum", cf(-0.0), cf(0.0)], "(-0.0)*1": ["multiply", cf(-0.0), c(1)], "0.0*(-1)": ["multiply", cf(0.0), c(-1)],
            "0.0+(-0.0)": ["add", cf(0.0), cf(-0.0)], "(-0.0)-0.0": ["subtract", cf(-0.0), cf(0.0)], "abs(-0.0)": ["absolute", cf(-0.0)],
            "-(0.0)": ["negative", cf(0.0)], "log1p(-0.0)": ["log1p", cf(-0.0)], "x*1.0": ["multiply", x, cf(1.0)],
        }
        for en, e in E.items():
            W = {"atan2(E,-1)": ["atan2", e, c(-1)], "copysign(1,E)": ["copysign", c(1), e], "1/E": ["divide", c(1), e], "sign(E)": ["sign", e]}
            for wn, w in W.items():
                P.append((f"signzero:{ty}:{wn}:E={en}", (lambda w=w: w)))
    return P


SIGNZERO_DIRECTED = _signzero_probes()


INFER_DIRECTED = [
    ("_is_one(square(-1))", lambda: ["square", ["const", ["i", -1], sym_spec("x", "f32")]]),
    ("_is_one(abs(-1.0))", lambda: ["absolute", ["const", vfloat(-1.0, "py"), sym_spec("x", "f64")]]),
    ("_is_one(sqrt(square(-1)))", lambda: ["sqrt", ["square", ["const", ["i", -1], sym_spec("x", "f32")]]]),
]


def run(ctx):
    t0 = time.time()
    ctx.rule = ("type-directed random expression DAGs (depth <= 7, sharing, every kind the rewriter touches, constants of several Python/NumPy types, "
                "named constants, casts) + a malformed stream + every shipped algorithm graph, rewritten by the REAL rewriter and by the Lean model; "
                "non-trivial = the real rewriter changed the expression or raised; distinct by serialised DAG")
    tabs, verdicts = generate(ctx)
    tline = table_line(tabs)
    lean_broken = ctx.lean_stage(["FAVerif.Props.C04"], THEOREMS, extra_targets=["FAVerif.Generated.C04Rows"])
    row_items = table_stage(ctx, verdicts, lean_broken)
    fallback_item = lean_broken[0] if lean_broken else None

    # ---- directed probes on the real code (always): table rows + findings
    probes = table_probes(verdicts)
    pspecs = [p[1] for p in probes]
    asg = [gen_assignments(ctx.rng, s, 8) + boundary_assignments(s) for s in pspecs]
    pres = run_jobs("search", pspecs, extra=asg)
    rows_failing = {}
    for (key, spec), r in zip(probes, pres):
        ctx.count("probe:table-row")
        ctx.case(key=("probe", json.dumps(W.share(spec))), nontrivial=bool(r.get("changed")))
        if r.get("fails"):
            rows_failing.setdefault(key, (spec, r))
    for key, (spec, r) in rows_failing.items():
        v = verdicts[key]
        report_search(ctx, spec, r, broken_item=row_items.get(key) or fallback_item, origin=f"table row {v['keys']}")
        if not v["known"]:
            # the Lean obligations that name this row (and the table theorem) now have their failing input
            for b in lean_broken:
                if v["theorem"] in b["name"] or "tables_sound" in b["name"]:
                    b["has_failing_input"] = True
    ctx.notes["table_rows_failing_on_real_code"] = sorted(f"{k[0]}:({k[1][1:]},{k[2][1:]})" for k in rows_failing)
    DIR = DIRECTED + SIGNZERO_DIRECTED
    dspecs = [mk() for _, mk in DIR]
    dres = run_jobs("search", dspecs, extra=[gen_assignments(ctx.rng, s, 10) + boundary_assignments(s) for s in dspecs])
    for (label, _), spec, r in zip(DIR, dspecs, dres):
        ctx.count("probe:directed")
        ctx.case(key=("directed", label), nontrivial=True)
        report_search(ctx, spec, r, origin=f"directed probe `{label}`")
    ispecs = [mk() for _, mk in INFER_DIRECTED]
    ires = run_jobs("infersearch", ispecs, extra=[gen_assignments(ctx.rng, s, 2) for s in ispecs])
    for (label, _), spec, r in zip(INFER_DIRECTED, ispecs, ires):
        ctx.count("probe:infer")
        for f in r.get("fails", [])[:1]:
            ctx.violation(f["signature"], f"directed probe `{label}`: the real `_is_{f['prop']}` answers {f['answer']} but the value is {f['value']}",
                          dict(spec=W.share(spec), infer=f))

    # ---- correspondence
    broken_out = []
    corpus = load_corpus()
    if corpus:
        correspondence(ctx, tline, [c[1] for c in corpus], ["corpus"] * len(corpus), "corpus", broken_out)
    n_total = ctx.scale(21000, 250000)
    batch = 3000
    w_fold = 0.25
    done = 0
    n_bool = n_const = 0
    sampled = 0
    while done < n_total:
        g = Gen(ctx.rng, w_fold=w_fold)
        gh = Gen(ctx.rng, w_fold=1.0)       # fold-heavy stream (constants, operands of known sign)
        gm = Gen(ctx.rng, malformed=True)
        specs, kinds = [], []
        for _ in range(min(batch, n_total - done)):
            u = ctx.rng.random()
            s, k = (gm if u < 0.07 else gh if u < 0.12 else g).expression()
            specs.append(s)
            kinds.append(k)
        status, res, _ = correspondence(ctx, tline, specs, kinds, "gen", broken_out)
        for s, k, r in zip(specs, kinds, res):
            ctx.count(f"stream:{k}")
            ctx.count(f"depth:{min(depth_of(s), 8)}")
            if k == "bool" and "ok" in r:
                n_bool += 1
                if r["ok"][0] == "const":
                    n_const += 1
            if sampled < 6 and r.get("changed") and "dag" in r and len(r["dag"]) < 300:
                sampled += 1
                ctx.sample(dict(stream=k, dag=r["dag"], rewritten=str(r.get("ok"))[:300]))
        done += len(specs)
        frac = n_const / max(1, n_bool)
        if frac > 0.085:
            w_fold = max(0.05, w_fold * 0.6)     # re-weight: fewer conditions with operands of known sign / constant leaves
        elif frac < 0.06:
            w_fold = min(1.0, w_fold * 1.25)
        if time.time() - t0 > ctx.scale(150, 1500):
            ctx.notes["correspondence_cut_short_after"] = done
            break
    ctx.notes["constant_condition_fraction"] = round(n_const / max(1, n_bool), 4)
    ctx.notes["w_fold_final"] = w_fold
    ctx.obligation("generator: fraction of generated conditions that rewrite to a constant < 10%", n_const / max(1, n_bool) < 0.10, kind="generator")

    # inference answers: model vs implementation
    gq = Gen(ctx.rng)
    qspecs = [gq.expression()[0] for _ in range(ctx.scale(3000, 30000))]
    sa_exprs, sa_cmps = sign_algebra_specs("f32")
    sa_exprs64, sa_cmps64 = sign_algebra_specs("f64")
    qspecs += sa_exprs + (sa_exprs64 if not ctx.quick else [])
    ctx.count("infer-corr:sign-algebra", len(qspecs) - ctx.scale(3000, 30000))
    qres = [r for r in run_jobs("infer", qspecs) if "dag" in r]
    qout = run_driver(ctx, tline, ["Q " + r["dag"] for r in qres])
    qmis = 0
    for r, o in zip(qres, qout):
        m = dict(kv.split("=", 1) for kv in o.split(" ")) if "=" in o else {}
        mm = dict(zero=m.get("zero"), one=m.get("one"), finite=m.get("finite"), nonnegative=m.get("nonneg"), nonpositive=m.get("nonpos"),
                  positive=m.get("pos"), negative=m.get("neg"), bool=m.get("bool"), complex=m.get("complex"), type=m.get("type"))
        bad = [k for k in r["ans"] if r["ans"][k] != mm[k] and not str(mm[k]).startswith("E:Unsupported")]
        ctx.traces_validated += 1
        ctx.count("infer-corr:" + ("same" if not bad else "MISMATCH"))
        if bad:
            qmis += 1
            if qmis <= 2:
                broken_out.append((ctx.broken("correspondence:Infer", json.dumps(dict(dag=r["dag"], impl={k: r["ans"][k] for k in bad}, model={k: mm[k] for k in bad}))), None))

    # every shipped algorithm graph
    ship_mis = 0
    sg = W.shipped_graphs()
    slines, sreal, smeta = [], [], []
    for name, sig, bodies, err, c in sg:
        if bodies is None:
            ctx.count(f"shipped:not-traceable:{err}")
            continue
        for b in bodies:
            try:
                dag = W.to_dag(b)
            except W.Unserialisable:
                ctx.count("shipped:unserialisable")
                continue
            rr = W.real_rewrite(b, timeout=60)
            gt, bd = W.order_oracle(c)
            work = "f32" if "64" in sig[0] and "complex64" in sig[0] or "float32" in sig[0] else "f64"
            slines.append(r_line(dict(dag=dag, gt=gt, bad=bd), work, 256))
            sreal.append(dict(dag=dag, ok=W.canon_real(rr[1])) if rr[0] == "ok" else dict(dag=dag, err=rr[1]))
            smeta.append((name, sig))
    souts = run_driver(ctx, tline, slines)
    for (name, sig), r, o in zip(smeta, sreal, souts):
        st, detail, strict = compare_one(r, o)
        ctx.count(f"shipped:{st}")
        ctx.traces_validated += 1
        ctx.case(key=("shipped", name, str(sig)), nontrivial=True)
        if st == "MISMATCH":
            ship_mis += 1
            if ship_mis <= 2:
                broken_out.append((ctx.broken("correspondence:Rewriter(shipped graph)", json.dumps(dict(algorithm=name, signature=sig, detail=detail))[:3000]), None))
    nmis = sum(1 for k, v in ctx.distribution.items() if k.endswith(":MISMATCH") for _ in range(v))
    ctx.notes["correspondence_mismatches"] = nmis
    ctx.obligation("correspondence:Rewriter(model == real rewriter: identical trees / same exception, every generated, malformed, corpus and shipped expression)",
                   nmis == 0 and not any(b[0]["name"].startswith("model:") for b in broken_out), kind="correspondence")

    # ---- search: the property's clauses on the real rewriter, independent of the model
    gs = Gen(ctx.rng, mix_py=False)
    sspecs = []
    n_search = ctx.scale(4500, 40000)
    while len(sspecs) < n_search:
        s, k = gs.expression()
        sspecs.append(s)
    # systematic sign algebra: comparisons of every (kind, sign class, sign class) combination against 0
    sa_pick = (sa_cmps + sa_cmps64) if not ctx.quick else ctx.rng.sample(sa_cmps, 1500)
    sspecs += sa_pick
    ctx.count("search:sign-algebra-comparisons", len(sa_pick))
    sasg = [gen_assignments(ctx.rng, s, 6) + boundary_assignments(s) for s in sspecs]
    sres = run_jobs("search", sspecs, extra=sasg)
    agg = {}
    nviol = 0
    for s, r in zip(sspecs, sres):
        ctx.case(key=("search", json.dumps(W.share(s))), nontrivial=bool(r.get("changed")))
        for k, v in r.get("stats", {}).items():
            agg[k] = agg.get(k, 0) + v
        if r.get("fails"):
            nviol += report_search(ctx, s, r, broken_item=fallback_item)
    for k, v in agg.items():
        ctx.count("search:" + k, v)
    # inference answers of the real code against exact evaluation
    fspecs = [gs.expression()[0] for _ in range(ctx.scale(1500, 20000))]
    fspecs += sa_exprs + (sa_exprs64 if not ctx.quick else [])
    fres = run_jobs("infersearch", fspecs, extra=[gen_assignments(ctx.rng, s, 4) + boundary_assignments(s) for s in fspecs])
    for s, r in zip(fspecs, fres):
        ctx.count("infer-search:checked", r.get("checked", 0))
        for f in r.get("fails", [])[:1]:
            ctx.violation(f["signature"], f"the real `_is_{f['prop']}` answers {f['answer']} for a {f['kind']} expression whose value is {f['value']}",
                          dict(spec=W.share(s), infer=f))

    # ---- broken correspondence items: look for a failing input of the PROPERTY on the real code
    for item, spec in broken_out:
        if spec is None or item["has_failing_input"]:
            continue
        r = W.search_case_full(spec, gen_assignments(ctx.rng, spec, 12) + boundary_assignments(spec))
        report_search(ctx, spec, r, broken_item=item, origin="expression of a correspondence mismatch")
    if ctx.violations:
        # the search found inputs on which the real rewriter violates the property: they are the failing inputs of the
        # obligations that broke in this run (a mismatch on a shipped graph or on an expression the evaluators cannot
        # handle has no replay of its own)
        for item, _ in broken_out:
            item["has_failing_input"] = True
        for b in lean_broken:
            b["has_failing_input"] = True
    ctx.notes["wall_s_c04"] = round(time.time() - t0, 1)


def boundary_assignments(spec):
    """the all-zero, all-one, all-equal assignments (the 0-vs-0 case of the relational tables)"""
    syms = symbols_of(spec)
    out = []
    for val in (0, 1, -1, "-0"):
        negz = val == "-0"
        val = 0 if negz else val
        q, f = {}, {}
        for name, tag in syms.items():
            if tag is None:
                continue
            if tag == "b":
                q[name], f[name] = bool(val > 0), bool(val > 0)
            elif tag == "i":
                q[name], f[name] = [val, 1], ["i", val]
            else:
                q[name], f[name] = [val, 1], [tag, W.float_bits(-0.0 if negz else float(val), tag)]
        out.append(dict(q=q, f=f))
    return out


def replay(ctx, obj):
    rp = obj.get("replay") or {}
    if "spec" not in rp:
        print("replay names an obligation without failing input:", obj.get("obligation"))
        print(obj.get("detail", "")[:2000])
        return 1
    spec = W.unshare(rp["spec"])
    if "infer" in rp:
        r = W.infer_search_case(spec, gen_assignments(ctx.rng, spec, 6))
        print(json.dumps(r, indent=1)[:4000])
        return 1 if r.get("fails") else 0
    asg = gen_assignments(ctx.rng, spec, 16) + boundary_assignments(spec)
    for f in rp.get("fails", []):
        if f.get("clause") == "exact" and isinstance(f.get("env"), dict):
            asg.append(dict(q=f["env"], f={}))
    r = W.search_case_full(spec, asg)
    c = W.new_context()
    with W.quiet():
        e = W.build(c, spec)
    print("expression:", e)
    res = W.real_rewrite(e)
    print("rewritten :", res[1] if res[0] == "ok" else res)
    print(json.dumps(dict(fails=r.get("fails", [])[:4], signatures=r.get("signatures"), minimal=r.get("minimal")), indent=1, default=str)[:6000])
    return 1 if r.get("fails") else 0


LEVEL_TEXT = ("Proof (soundness) + search (termination, no-raise). Theorems (Lean kernel): for every expression over the modelled kinds, every operand "
              "order, every fuel and every assignment on which the expression is defined, the rewriting pass (every rule method, the per-node fixpoint, the "
              "bottom-up traversal) returns an expression with the same value — in exact arithmetic over any ordered field and, in one working precision, "
              "under any monotone odd idempotent rounding away from NaN/overflow/underflow (floats equal up to the sign of zero); sign/zero/finite inference "
              "is sound; every consulted row of the relational tables, regenerated from the module on each run, is the strongest sound row (full statement "
              "since the fix 6a4e7cd; the old rows are kept as a regression witness). The model is a hand port tied by a correspondence check (identical trees / exception kinds on >= 2e4 "
              "generated, malformed and all shipped graphs per quick run).")
LEVEL_NOTE = ("Theorems speak about runs of the strict model (exact constant folds/casts, one dtype for named constants); strict == plain result is checked per "
              "expression. Not theorems: termination, absence of exceptions, complex kinds, lists, mixed-precision floating point — these are searched on the real "
              "rewriter with exact Fraction and NumPy interpreters. The unsound relop rows found by this check were fixed in /repo (6a4e7cd); 10 other findings are listed as known. Trusted: Lean kernel; the hand model (validated each run); the semantics; Soft float == NumPy.")
TECHNIQUE = "Lean 4 proof over a hand model + regenerated tables (per-row decide) + line-protocol correspondence + exact/NumPy differential search on the real rewriter"
