"""C02 — real-line accuracy of every real algorithm (ULP bound, exhaustive in float32).

Model: absolute, acos, acosh, asin, asinh, square (float32/float64) and hypot (two reals), traced
by the repo's tracer, expanded by the package's own definitions, rewritten — regenerated on
every run (lean/FAVerif/Generated/C02.lean).  Theorems (Props/C02.lean): well-formedness; the
`square` and `absolute` programs ARE `x*x` and `|x|` (so their result is the correctly rounded /
exact value by definition of IEEE multiplication and abs — the two cases where the ULP clause
is a theorem about the bit-exact model); special values evaluated in the kernel.
Search: float32 — every 4099-th bit pattern plus +-64 ULP around every threshold constant and
special value (quick) / ALL 2^32 - 2^24 non-NaN patterns per unary function (thorough, vectorised
through the independent interpreter, float64 libm reference with mpmath re-check near rounding
boundaries); float64 and hypot — sampled, mpmath Ziv reference.
"""

import json
import math
import multiprocessing
import os
import warnings

import numpy

from .. import algs, fpx
from ..runner import Infra
from ..translate import ir

THEOREMS = ["generated_wf", "square_is_mul", "absolute_is_abs", "limits_square_absolute", "square_correctly_rounded", "absolute_exact",
            "hypot_constants", "sqrt2_bounds", "ties_hypot", "hypot_accuracy", "hypot_generated", "hypot_hypotheses_satisfiable",
            "hypot_kinds", "soft_sqrt_correctly_rounded", "soft_refines_rational_sqrt", "hypot_bit_level_f32", "hypot_bit_level_f64",
            "Lmax_values", "Lmax_ge4", "soft_refines_rational_forward", "hypot_total_f32", "hypot_total_f64",
            "hypot_f32_at_x_pinf", "hypot_f32_at_x_ninf", "hypot_f32_at_pinf_x", "hypot_f32_at_ninf_x", "hypot_f64_at_x_pinf", "hypot_f64_at_x_ninf", "hypot_f64_at_pinf_x", "hypot_f64_at_ninf_x",
            "hypot_f32_at_x_pzero_shape", "hypot_f32_at_x_pzero", "hypot_f32_at_x_nzero_shape", "hypot_f32_at_x_nzero", "hypot_f32_at_pzero_x_shape", "hypot_f32_at_pzero_x", "hypot_f32_at_nzero_x_shape", "hypot_f32_at_nzero_x", "hypot_f64_at_x_pzero_shape", "hypot_f64_at_x_pzero", "hypot_f64_at_x_nzero_shape", "hypot_f64_at_x_nzero", "hypot_f64_at_pzero_x_shape", "hypot_f64_at_pzero_x", "hypot_f64_at_nzero_x_shape", "hypot_f64_at_nzero_x"]
SEARCHED = ["4 ULP (float32) / 5 ULP (float64) bound", "fewer than 1 in 1e5 inputs above 3 ULP", "NaN exactly where undefined", "exact limits at infinities and zero"]
TRUSTED = [
    "Lean 4 kernel; axioms propext, Classical.choice, Quot.sound only",
    "translator (repo tracer/expansion/rewriter -> IR), cross-checked bit-for-bit each run (generated NumPy code == interpreter == Lean softfloat)",
    "mpmath Ziv reference; in the float32 exhaustive sweep: float64 libm rounded once, re-checked with mpmath when within 2^-20 of a rounding boundary or >= 3 ULP off",
]
LEVEL_TEXT = ("Partial proof. Theorems on the regenerated programs: well-formedness; real `square` is the single IEEE multiplication x*x and real `absolute` the sign-bit clear, "
              "so their results are correctly rounded / exact for every input (0 ULP): square_correctly_rounded (value = RNE(x^2) for every finite x whose square does not overflow, "
              "from the proved correct rounding of the softfloat multiplication) and absolute_exact (value = |x|); their limits at 0 and infinity are exact (kernel-evaluated). "
              "ACCURACY OF hypot (hypot_accuracy, hypot_generated, Props/C02Hypot.lean): the regenerated hypot_f32/hypot_f64 are node for node the specification program (ties_hypot, constants hypot_constants, "
              "sqrt_two within u of sqrt 2: sqrt2_bounds), and over Q — any round-to-nearest, any square root with relative error <= u = 2^-p (SqrtOK, specified on squares; such an oracle exists: "
              "hypot_hypotheses_satisfiable), every precision p >= 8 with emin + 2p + 2 <= 0 — for ALL rational x, y with max(|x|,|y|) >= 2^(emin+p) (twice the smallest normal), absent overflow, all three "
              "branches (|x| = |y|; the tiny-ratio correction mx + mx r/2, gradual underflow of the ratio and its square included; the main formula): (1-u)^7 (x^2+y^2) <= H^2 <= (1+u)^7 (x^2+y^2), "
              "i.e. relative error < 3.51 u: within 4 ULP. ON BIT PATTERNS (Props/C02HypotBits.lean): the softfloat's square root is proved correctly rounded (soft_sqrt_correctly_rounded: the result is the RNE of every "
              "rational strictly between r 2^E and (r+1) 2^E, r = floor sqrt of the scaled radicand, hence (1-u)^2 v <= y^2 <= (1+u)^2 v), the refinement theorem is extended to programs with sqrt (soft_refines_rational_sqrt, "
              "oracle Ssoft = value of FP.sqrt on the pattern of its argument), and hypot_bit_level_f32/f64 state: for ALL finite input patterns with max(|x|,|y|) >= twice the smallest normal, whenever no float node of the "
              "regenerated program is non-finite, the output pattern is finite and its value H satisfies the same bounds — nothing is assumed about sqrt. "
              "WITHOUT ANY ASSUMPTION ABOUT THE RUN (Props/C02HypotTotal.lean): the forward refinement theorem soft_refines_rational_forward (if the Q-run is defined and every float node of it stays within +-Lmax, "
              "the bit-exact run is defined and finite everywhere; from the no-overflow lemmas add/sub/mul/div/sqrt_finite) and bounds on all 25 nodes of the Q-run give hypot_total_f32/f64: for ALL finite operand patterns "
              "with 2^(emin+p) <= max(|x|,|y|) <= Lmax/2 the run exists, no node overflows, the output is finite and within 3.51 u of sqrt(x^2+y^2). "
              "The 4/5-ULP bounds, the 1e-5 rate, the NaN domain and the limits of asin/acos/asinh/acosh/hypot are decided by search: float32 exhaustively in the thorough "
              "tier (all non-NaN patterns), strided + boundary-targeted in quick; float64 and hypot sampled against an mpmath Ziv reference.")
LEVEL_NOTE = "ULP bounds of the libm-based functions: search only (exhaustive for float32 in thorough); hypot: theorem over Q with an abstract correctly-rounded sqrt (normal range, absent overflow), on bit patterns with no assumption about the run (hypot_total_f32/f64), and its limit clause for EVERY input (hypot(x, +-inf) = +inf for every non-NaN x, hypot(x, +-0) has exactly the value |x| for every finite x: Props/C02HypotLimits.lean, C02HypotZero.lean) + search."
TECHNIQUE = "translator-regenerated Lean programs + kernel-checked exactness of square/absolute + exhaustive float32 sweep (thorough) / mpmath search"

UNARY = algs.REAL
BOUND = {"float32": 4, "float64": 5}


def ordinal(b, fmt):
    w = fpx.FMT[fmt][2]
    m = b & ((1 << (w - 1)) - 1)
    return -m if b >> (w - 1) else m


def dist(g, acc, fmt):
    best = None
    for a in acc:
        if a == "nan" or g == "nan":
            d = 0 if a == g else 1 << 62
        else:
            d = abs(ordinal(g, fmt) - ordinal(a, fmt))
        best = d if best is None else min(best, d)
    return best


def limit_expect(name, fmt, xb):
    """Exact limits at zeros and infinities (None = no claim here)."""
    p, ew, w = fpx.FMT[fmt]
    sign = 1 << (w - 1)
    inf = ((1 << ew) - 1) << (p - 1)
    s = xb & sign
    m = xb & ~sign
    if m == 0:
        return {"absolute": 0, "square": 0, "asin": s, "asinh": s, "acosh": "nan"}.get(name)
    if m == inf:
        return {"absolute": inf, "square": inf, "asin": "nan", "acos": "nan", "asinh": s | inf, "acosh": "nan" if s else inf}.get(name)
    return None


def gen_unary(rng, fmt, prog, n, stride=None):
    p, ew, w = fpx.FMT[fmt]
    sign = 1 << (w - 1)
    inf = ((1 << ew) - 1) << (p - 1)
    pts = []
    if stride:
        pts += list(range(rng.randrange(stride), 1 << w, stride))
    for _ in range(n):
        pts.append(rng.randrange(0, inf) | (rng.getrandbits(1) << (w - 1)))
    bias = (1 << (ew - 1)) - 1
    ths = [t & ~sign for t in algs.thresholds(prog) if (t & ~sign) <= inf] + [bias << (p - 1), 0, inf, 1 << (p - 1)]
    for t in ths:
        for d in range(-64, 65):
            b = t + d
            if 0 <= b <= inf:
                pts += [b, b | sign]
        # geometric approach to the threshold from both sides: pattern offsets (1 + j/16)·2^sh, i.e. relative distances from one ulp to
        # about a binade — cancellation bands such as 1 - x^2 near |x| = 1 sit at relative distance 1e-4..1e-3, far outside +-64 ULP and
        # too narrow for the stride (seeded change C02_3)
        for sh in range(0, p + 2):
            for j in range(16):
                d = ((16 + j) << sh) >> 4
                for b in (t - d, t + d):
                    if 0 <= b <= inf:
                        pts += [b, b | sign]
    return [b for b in pts if not (b & ~sign) > inf]


def work(task):
    import random

    from .. import mpref

    name, fmt, n, seed, quick = task
    rng = random.Random(f"{seed}:{name}:{fmt}")
    out = dict(name=name, fmt=fmt, violations=[], lean_lines=[], lean_expect=[], corr_bad=[], counts={}, samples=[])
    try:
        entry = algs.build(name, fmt)
    except Exception as e:
        out["error"] = f"{type(e).__name__}: {e}"
        return out
    prog = entry["prog"]
    out["lean_lines"].append(ir.prog_to_line(prog))
    out["lean_expect"].append(None)
    if name == "hypot":
        pts = []
        p, ew, w = fpx.FMT[fmt]
        inf = ((1 << ew) - 1) << (p - 1)
        sign = 1 << (w - 1)
        ths = [t & ~sign for t in algs.thresholds(prog)] + [((1 << (ew - 1)) - 1) << (p - 1)]
        for _ in range(n):
            r = rng.random()
            a = rng.randrange(0, inf)
            if r < 0.12:  # both subnormal (log-uniform magnitudes below the smallest normal), or one subnormal and one tiny normal
                a = max(1, rng.randrange(1, 1 << (p - 1)) >> rng.randrange(0, p - 1))
                b = max(1, rng.randrange(1, 1 << (p - 1)) >> rng.randrange(0, p - 1)) if rng.random() < 0.75 else rng.randrange(1, 4 << (p - 1))
                if rng.random() < 0.5:
                    a, b = b, a
            elif r < 0.4:
                b = rng.randrange(0, inf)
            elif r < 0.7:  # nearby exponents
                b = max(0, min(inf - 1, a + rng.randrange(-(4 << (p - 1)), 4 << (p - 1))))
            else:
                b = max(0, min(inf - 1, rng.choice(ths) + rng.randrange(-4, 5)))
            pts.append((a | (rng.getrandbits(1) << (w - 1)), b | (rng.getrandbits(1) << (w - 1))))
        L = [0, 1, 1 << (p - 1), inf - 1, inf]
        pts += [(a, b) for a in L for b in L]
        cols = [[a for a, b in pts], [b for a, b in pts]]
    else:
        pts = gen_unary(rng, fmt, prog, n, stride=4099 if (fmt == "float32" and quick) else None)
        cols = [pts]
    # implementation under test: the repo's generated NumPy function, vectorised through the independent interpreter for speed,
    # and called directly (scalar) on a subset to tie the two
    arrs = [fpx.arr_from_bits(c, fmt) for c in cols]
    outs = algs.eval_prog_vec(prog, arrs)[0]
    got_bits = [ir.canon_bits(b, fmt) for b in fpx.bits_from_arr(numpy.ascontiguousarray(outs), fmt)]
    sub = list(range(0, len(got_bits), max(1, len(got_bits) // 400)))
    real = algs.run_func(entry, [[c[i] for i in sub] for c in cols])
    for k, i in enumerate(sub):
        if real[k][0] != got_bits[i]:
            out["corr_bad"].append(dict(inputs=[c[i] for c in cols], generated=real[k][0], interpreter=got_bits[i]))
        if k % 4 == 0:
            with warnings.catch_warnings():
                warnings.simplefilter("ignore")
                o2, calls = ir.eval_prog_numpy(prog, [c[i] for c in cols])
            orc = " ".join(f"{nm}:{','.join(map(str, a))}:{r}" for nm, a, r in calls)
            out["lean_lines"].append("eval " + ",".join(str(c[i]) for c in cols) + (" " + orc if orc else ""))
            out["lean_expect"].append(([c[i] for c in cols], " ".join(map(str, o2))))
    bound = BOUND[fmt]
    exceed3 = 0
    checked = 0
    worst = 0
    seen_sig = set()

    def viol(sig, **kw):
        if sig not in seen_sig:
            seen_sig.add(sig)
            out["violations"].append(dict(sig=sig, **kw))

    # reference: mpmath for a subset (all for float64/hypot samples; float32 strided set is large -> float64 libm first)
    if name != "hypot" and fmt == "float32":
        xs64 = fpx.arr_from_bits(cols[0], fmt).astype(numpy.float64)
        with warnings.catch_warnings(), numpy.errstate(all="ignore"):
            warnings.simplefilter("ignore")
            f64 = dict(absolute=numpy.abs, acos=numpy.arccos, acosh=numpy.arccosh, asin=numpy.arcsin, asinh=numpy.arcsinh, square=numpy.square)[name](xs64)
            ref32 = f64.astype(numpy.float32)
        ref_bits = [ir.canon_bits(b, fmt) for b in fpx.bits_from_arr(ref32, fmt)]
    for i, g in enumerate(got_bits):
        ins = [c[i] for c in cols]
        if name == "hypot":
            acc = mpref.ref_hypot(fmt, ins[0], ins[1])
            if acc is None:
                # an infinite argument: hypot(inf, y) = +inf for non-NaN y
                p, ew, w = fpx.FMT[fmt]
                inf = ((1 << ew) - 1) << (p - 1)
                acc = {inf}
        else:
            lim = limit_expect(name, fmt, ins[0])
            if lim is not None:
                p_, ew_, w_ = fpx.FMT[fmt]
                zero_ok = lim != "nan" and g != "nan" and (lim & ~(1 << (w_ - 1))) == 0 and (g & ~(1 << (w_ - 1))) == 0
                # the VALUE of the limit is checked here; the sign of a zero result is an oddness question decided by C03
                if g != lim and not zero_ok:
                    viol(f"{name}:{fmt}:limit-at-zero-or-infinity", x=ins[0], got=g, expected=lim)
                continue
            if not fpx.is_finite(ins[0], fmt):
                continue
            if fmt == "float32":
                acc = {ref_bits[i]}
                d0 = dist(g, acc, fmt)
                if d0 >= 3 or (d0 >= 1 and i % 7 == 0):
                    acc = mpref.ref_real(name, fmt, ins[0]) or acc  # re-check with mpmath
            else:
                acc = mpref.ref_real(name, fmt, ins[0])
                if acc is None:
                    continue
        d = dist(g, acc, fmt)
        checked += 1
        if "nan" in acc and g != "nan":
            viol(f"{name}:{fmt}:not-nan-where-undefined", x=ins, got=g)
        elif g == "nan" and "nan" not in acc:
            viol(f"{name}:{fmt}:spurious-nan", x=ins, got=g, ref=sorted(map(str, acc)))
        elif d > bound:
            viol(f"{name}:{fmt}:more-than-{bound}-ulp", x=ins, got=g, ref=sorted(map(str, acc)), ulp=d)
        if d < (1 << 61):
            worst = max(worst, d)
            if d > 3:
                exceed3 += 1
        if len(out["samples"]) < 2 and d > 0:
            out["samples"].append(dict(fn=name, fmt=fmt, x=ins, got=g, ulp=d))
    allowed = 1e-5 * checked + 3 * math.sqrt(1e-5 * checked) + 1
    if exceed3 > allowed:
        out["violations"].append(dict(sig=f"{name}:{fmt}:rate-above-1e-5", total=checked, exceed=exceed3))
    out["counts"].update(points=len(got_bits), checked=checked, worst_ulp=worst, exceed3=exceed3)
    return out


def sweep_float32(task):
    """Thorough: one chunk of the exhaustive float32 sweep for one unary function. Returns (n, worst, exceed3, first failures)."""
    name, lo, hi = task
    entry = algs.build(name, "float32")
    prog = entry["prog"]
    bits = numpy.arange(lo, hi, dtype=numpy.uint32)
    x = bits.view(numpy.float32)
    keep = ~numpy.isnan(x)
    bits, x = bits[keep], x[keep]
    with warnings.catch_warnings(), numpy.errstate(all="ignore"):
        warnings.simplefilter("ignore")
        got = algs.eval_prog_vec(prog, [x])[0].astype(numpy.float32)
        f64 = dict(absolute=numpy.abs, acos=numpy.arccos, acosh=numpy.arccosh, asin=numpy.arcsin, asinh=numpy.arcsinh, square=numpy.square)[name](x.astype(numpy.float64))
        ref = f64.astype(numpy.float32)
    gi = got.view(numpy.int32).astype(numpy.int64)
    ri = ref.view(numpy.int32).astype(numpy.int64)
    og = numpy.where(gi < 0, -(gi & 0x7FFFFFFF), gi)
    orr = numpy.where(ri < 0, -(ri & 0x7FFFFFFF), ri)
    d = numpy.abs(og - orr)
    gn, rn = numpy.isnan(got), numpy.isnan(ref)
    d = numpy.where(gn & rn, 0, numpy.where(gn | rn, 1 << 40, d))
    sus = numpy.nonzero(d >= 3)[0]
    return int(len(bits)), [int(bits[i]) for i in sus[:2000]], int(len(sus))


def generate(ctx):
    progs, errors = {}, {}
    for name in UNARY + ["hypot"]:
        for fmt in ("float32", "float64"):
            key = f"{name}_{'f32' if fmt == 'float32' else 'f64'}"
            try:
                progs[key] = algs.build(name, fmt)["prog"]
            except Exception as e:
                errors[key] = f"{type(e).__name__}: {e}"
    lines = ["/- GENERATED by fav/props/c02.py from /repo's current source; do not edit. -/", "import FAVerif.IR.Prog", "",
             "namespace FAVerif.Gen.C02", "open FAVerif.IR", ""]
    for key in sorted(progs):
        lines.append(ir.prog_to_lean(progs[key], key))
    lines.append("def all : List (String × Prog) := [")
    lines.append(",\n".join(f'  ("{k}", {k})' for k in sorted(progs)))
    lines.append("]\n")
    lines.append("end FAVerif.Gen.C02")
    ctx.lean.write_generated("C02.lean", "\n".join(lines) + "\n")
    return progs, errors


def run(ctx):
    ctx.rule = ("float32: every 4099-th bit pattern (quick) / all non-NaN patterns (thorough) + +-64 ULP around every threshold constant, 0, 1, min normal, inf; "
                "float64: log-uniform samples + the same boundary sets; hypot: pairs (independent, nearby exponents, thresholds) + lattice; "
                "non-trivial = finite input with a determined reference; distinct by input bits")
    progs, errors = generate(ctx)
    broken = ctx.lean_stage(["FAVerif.Props.C02", "FAVerif.Props.C02Hypot", "FAVerif.Props.C02HypotBits", "FAVerif.Props.C02HypotTotal", "FAVerif.Props.C02HypotLimits", "FAVerif.Props.C02HypotZero"], THEOREMS)
    for k, e in errors.items():
        broken.append(ctx.broken(f"translate:{k}", e))
    n64 = ctx.scale(4000, 200000)
    tasks = [(name, fmt, n64 if fmt == "float64" else ctx.scale(3000, 20000), ctx.seed, ctx.quick) for name in UNARY for fmt in ("float32", "float64")]
    tasks += [("hypot", fmt, ctx.scale(4000, 200000), ctx.seed, ctx.quick) for fmt in ("float32", "float64")]
    with multiprocessing.Pool(min(14, os.cpu_count() or 4)) as pool:
        results = pool.map(work, tasks, chunksize=1)
        exhaustive = None
        if not ctx.quick:
            # exhaustive float32 sweep, 256 chunks per function
            chunk = 1 << 24
            sweep_tasks = [(name, lo, lo + chunk) for name in UNARY for lo in range(0, 1 << 32, chunk)]
            exhaustive = pool.map(sweep_float32, sweep_tasks, chunksize=4)
    lean_lines, lean_expect = [], []
    corr_bad = 0
    for r in results:
        key = f"{r['name']}:{r['fmt']}"
        if "error" in r:
            broken.append(ctx.broken(f"translate:{key}", r["error"]))
            continue
        for k, v in r["counts"].items():
            ctx.notes[f"{key}:{k}"] = v
        ctx.evaluations += r["counts"].get("points", 0)
        ctx.nontrivial_extra += r["counts"].get("checked", 0)
        for s in r["samples"]:
            ctx.sample(s, limit=6)
        for cb in r["corr_bad"][:2]:
            corr_bad += 1
            broken.append(ctx.broken(f"correspondence:generated-vs-interpreter:{key}", json.dumps(cb)))
        for v in r["violations"]:
            ctx.violation(v["sig"], f"{v['sig']}: {json.dumps({k: v[k] for k in v if k != 'sig'}, default=str)[:300]}",
                          dict(fn=r["name"], fmt=r["fmt"], **{k: v[k] for k in v if k != "sig"}))
        lean_lines += r["lean_lines"]
        lean_expect += r["lean_expect"]
    if exhaustive is not None:
        from .. import mpref

        tot = 0
        per_fn = {}
        for (name, lo, hi), (n, sus, nsus) in zip(sweep_tasks, exhaustive):
            tot += n
            st = per_fn.setdefault(name, dict(n=0, exceed3=0, worst=0))
            st["n"] += n
            for b in sus:  # re-check suspicious points against mpmath (float64 libm may itself be off near boundaries)
                acc = mpref.ref_real(name, "float32", b)
                if acc is None:
                    lim = limit_expect(name, "float32", b)
                    acc = {lim} if lim is not None else None
                if acc is None:
                    continue
                g = algs.run_func(algs.build(name, "float32"), [[b]])[0][0]
                d = dist(g, acc, "float32")
                if d < (1 << 61):
                    st["worst"] = max(st["worst"], d)
                if d > 3:
                    st["exceed3"] += 1
                if d > 4:
                    ctx.violation(f"{name}:float32:more-than-4-ulp", f"exhaustive sweep: {name}(float32 pattern {b}) is {d} ULP off", dict(fn=name, fmt="float32", x=[b], got=g, ulp=d))
            if nsus > len(sus):
                ctx.notes[f"{name}:float32:sweep-suspicious-truncated"] = nsus
        for name, st in per_fn.items():
            ctx.notes[f"{name}:float32:exhaustive"] = st
            if st["exceed3"] * 1e5 > st["n"]:
                ctx.violation(f"{name}:float32:rate-above-1e-5", f"exhaustive: {st['exceed3']} of {st['n']} inputs above 3 ULP", dict(fn=name, fmt="float32", **st))
        ctx.evaluations += tot
        ctx.nontrivial_extra += tot
        ctx.exhaustive = True
    out = ctx.lean.driver("Prog", lean_lines, timeout=3000)
    if len(out) != len(lean_lines):
        raise Infra("Prog driver output length mismatch")
    lean_bad = 0
    for o, e in zip(out, lean_expect):
        if e is None:
            if not (o.startswith("ok") and o.endswith("true")):
                lean_bad += 1
                broken.append(ctx.broken("correspondence:lean-prog-load", o))
            continue
        ctx.traces_validated += 1
        if o != e[1]:
            lean_bad += 1
            if lean_bad <= 3:
                broken.append(ctx.broken("correspondence:lean-eval", json.dumps(dict(inputs=e[0], lean=o, numpy=e[1]))))
    ctx.obligation("correspondence: generated NumPy implementation == independent interpreter of the regenerated program", corr_bad == 0, kind="correspondence")
    ctx.obligation("correspondence: Lean softfloat evaluation (recorded libm oracle) == NumPy evaluation", lean_bad == 0, kind="correspondence")


def replay(ctx, obj):
    from .. import mpref

    rp = obj.get("replay") or {}
    if "fn" not in rp or "x" not in rp:
        print("replay without a failing input:", obj.get("obligation") or obj.get("signature"))
        return 1
    entry = algs.build(rp["fn"], rp["fmt"])
    xs = rp["x"] if isinstance(rp["x"], list) else [rp["x"]]
    got = algs.run_func(entry, [[v] for v in xs])[0][0]
    acc = mpref.ref_hypot(rp["fmt"], *xs) if rp["fn"] == "hypot" else (mpref.ref_real(rp["fn"], rp["fmt"], xs[0]) or {limit_expect(rp["fn"], rp["fmt"], xs[0])})
    print(dict(got=got, ref=acc))
    return 1 if dist(got, acc, rp["fmt"]) > BOUND[rp["fmt"]] else 0
