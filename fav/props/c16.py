"""C16 — polynomial utilities are exact polynomial algebra.

Layers
  model     lean/FAVerif/Models/Poly.lean (hand port of polynomial.py and of the polynomial part of
            floating_point_algorithms.py, generic over the carrier)
  theorems  lean/FAVerif/Props/C16.lean (all degrees, all coefficient values, any commutative ring / field)
  tie       (a) symbolic circuits: the REAL functions are run on formal coefficients a0..aN, b0..bM, x, z
                (recording ring `MP` below = Z[v0, v1, ...] in canonical expanded form) for every degree up
                to the tier bound, every scheme and flag combination, and compared with what the Lean model
                produces on the same formal inputs (Drivers/Poly.lean, dom `S`).  Equality of the expanded
                forms over Z[...] (the free commutative ring) means model and code agree on that degree for
                every commutative ring.
            (b) seeded rational correspondence (dom `Q`) for everything, in particular the data-dependent
                functions (divmod, zero stripping, asrpolynomial's ZeroDivisionError, estrin's math.log).
  search    the property's clauses evaluated on the REAL code over Fractions against independent oracles
            (direct sum, convolution, textbook long division, Taylor shift by synthetic division).
"""

import json
import math
import os
from fractions import Fraction

from ..runner import ROOT, Infra

THEOREMS = [
    "toPoly_def", "toPoly_coeff", "fromRatio_def",
    "pow", "pow_fpa", "choose_eq",
    "eval", "eval_fpa", "schemes", "estrin_zero_iff", "eval_shipped",
    "horner", "rpoly", "rpoly_fpa", "ratio_inverse", "ratio_roundtrip",
    "laurent", "laurent_shipped",
    "mul", "add", "deriv", "taylor", "taylor_size", "taylor_eval",
    "divmod", "divmod_none_iff",
    "regression_d0_branch", "regression_horner_reverse", "regression_divmod",
]
SEARCHED = [
    "estrin_dac_scheme(k) = int(math.log(k)) equals the model's threshold table (checked for every k up to the tier bound, not proved: math.log is libm)",
    "math.comb equals the model's multiplicative recurrence (proved equal to Nat.choose; math.comb itself observed)",
    "behaviour on malformed input (empty coefficient lists, division by the zero polynomial, zero coefficient in asrpolynomial, z = 0 in laurent) is compared as exception kinds only",
]
TRUSTED = [
    "Lean 4 kernel; axioms propext, Classical.choice, Quot.sound only",
    "hand model Models/Poly.lean, tied on every run by symbolic execution of the real functions on formal coefficients (all degrees up to the tier bound, all schemes/flags) and by seeded rational correspondence",
    "CPython int/Fraction arithmetic, list slicing, math.comb, math.log (observed, not modelled)",
    "Mathlib's definitions of Polynomial, derivative, taylor, degree, Finset.sum used to state the theorems",
]

# ----------------------------------------------------------------------------------------------
# recording ring: Z[v0, v1, ...] in canonical expanded form
# ----------------------------------------------------------------------------------------------


def _mono_mul(a, b):
    i = j = 0
    out = []
    while i < len(a) and j < len(b):
        if a[i][0] < b[j][0]:
            out.append(a[i]); i += 1
        elif a[i][0] > b[j][0]:
            out.append(b[j]); j += 1
        else:
            out.append((a[i][0], a[i][1] + b[j][1])); i += 1; j += 1
    out.extend(a[i:]); out.extend(b[j:])
    return tuple(out)


class MP:
    """Formal polynomial with integer coefficients: dict monomial -> coefficient,
    monomial = tuple of (variable id, exponent) sorted by id."""

    __slots__ = ("t",)

    def __init__(self, t):
        self.t = t

    @staticmethod
    def const(i):
        return MP({(): int(i)} if i else {})

    @staticmethod
    def var(v):
        return MP({((v, 1),): 1})

    @staticmethod
    def co(o):
        if isinstance(o, MP):
            return o
        if isinstance(o, int) and not isinstance(o, bool):
            return MP.const(o)
        if isinstance(o, Fraction) and o.denominator == 1:
            return MP.const(o.numerator)
        return None

    def __add__(self, o):
        o = MP.co(o)
        if o is None:
            return NotImplemented
        t = dict(self.t)
        for m, c in o.t.items():
            c2 = t.get(m, 0) + c
            if c2:
                t[m] = c2
            else:
                t.pop(m, None)
        return MP(t)

    __radd__ = __add__

    def __neg__(self):
        return MP({m: -c for m, c in self.t.items()})

    def __sub__(self, o):
        o = MP.co(o)
        return NotImplemented if o is None else self + (-o)

    def __rsub__(self, o):
        o = MP.co(o)
        return NotImplemented if o is None else o + (-self)

    def __mul__(self, o):
        o = MP.co(o)
        if o is None:
            return NotImplemented
        t = {}
        for m, c in self.t.items():
            for n, d in o.t.items():
                k = _mono_mul(m, n)
                c2 = t.get(k, 0) + c * d
                if c2:
                    t[k] = c2
                else:
                    t.pop(k, None)
        return MP(t)

    __rmul__ = __mul__

    def __truediv__(self, o):
        raise TypeError("division of formal polynomials")

    def __rtruediv__(self, o):
        if o == 1:
            return self.inv()
        raise TypeError("division by a formal polynomial")

    def inv(self):
        if self.t == {((0, 1),): 1}:
            return MP.var(1)
        raise TypeError("only the formal variable x has a formal inverse")

    def __eq__(self, o):
        o = MP.co(o)
        return NotImplemented if o is None else self.t == o.t

    def __hash__(self):
        return hash(tuple(sorted(self.t.items())))

    def __str__(self):
        if not self.t:
            return "0"
        out = []
        for m in sorted(self.t):
            c = self.t[m]
            out.append(str(c) if not m else f"{c}*" + "*".join(f"v{v}^{e}" for v, e in m))
        return "+".join(out)


def parse_sym(tok):
    if tok == "x":
        return MP.var(0)
    if tok == "y":
        return MP.var(1)
    if tok == "z":
        return MP.var(2)
    if tok[0] == "a":
        return MP.var(3 + 2 * int(tok[1:]))
    if tok[0] == "b":
        return MP.var(4 + 2 * int(tok[1:]))
    return MP.const(int(tok))


def parse_q(tok):
    return Fraction(tok)


def show_q(v):
    v = Fraction(v)
    return f"{v.numerator}/{v.denominator}"


def show_sym(v):
    v = MP.co(v)
    if v is None:
        raise TypeError("non-formal value")
    return str(v)


def tok_q(v):
    v = Fraction(v)
    return str(v.numerator) if v.denominator == 1 else f"{v.numerator}/{v.denominator}"


# ----------------------------------------------------------------------------------------------
# the real code
# ----------------------------------------------------------------------------------------------

_REAL = {}


def real():
    if not _REAL:
        import warnings
        with warnings.catch_warnings():
            warnings.simplefilter("ignore")
            import functional_algorithms as fa
            from functional_algorithms import floating_point_algorithms as fpa
            from functional_algorithms import polynomial as P
        _REAL.update(fa=fa, P=P, fpa=fpa)

        class DuckCtx:
            """ctx.constant(v, like) is the identity on exact values, ctx.reciprocal(z) = 1/z."""

            def constant(self, value, like=None):
                return value

            def reciprocal(self, z):
                return z.inv() if isinstance(z, MP) else 1 / z

        _REAL["duck"] = DuckCtx()
        FC = getattr(fa.utils, "FractionContext", None)
        if FC is not None:
            class QCtx(FC):
                """the repo's own FractionContext; `like` made optional (fpa.rpolynomial calls ctx.constant(1))"""

                def constant(self, value, like=None):
                    if like is None:
                        return Fraction(value)
                    return super().constant(value, like)

            _REAL["qctx"] = QCtx()
        else:
            _REAL["qctx"] = _REAL["duck"]
    return _REAL


SCHEMES = ["none", "horner", "estrin", "balanced", "canonical"]


def scheme_fn(mod, name):
    if name == "none":
        return None
    return getattr(mod, {"horner": "horner_scheme", "estrin": "estrin_dac_scheme", "balanced": "balanced_dac_scheme",
                         "canonical": "canonical_scheme"}[name])


class Err(Exception):
    pass


def _kw(default_reverse, rev, **other):
    """keyword arguments by omission: `reverse` (and n / size / scheme given through `other` as (default, value)) equal to the DOCUMENTED
    default of the pinned version are not passed, so that the defaults in the signatures are exercised (a first-order mutant
    `reverse=True` in the signature of fpa.rpolynomial survived when the flag was always passed)"""
    kw = {}
    if rev != default_reverse:
        kw["reverse"] = rev
    for k, (dflt, val) in other.items():
        if val != dflt:
            kw[k] = val
    return kw


def real_values(dom, toks):
    """Run the REAL function named by the command on the parsed arguments.
    Returns ("elem", v) | ("list", l) | ("nat", n) | ("divmod", (Q, R)); raises the code's own exception."""
    R = real()
    P, fpa = R["P"], R["fpa"]
    parse = parse_q if dom == "Q" else parse_sym
    cx = R["qctx"] if dom == "Q" else R["duck"]
    cmd = toks[0]
    if cmd == "scheme":
        return "nat", scheme_fn(P, toks[1])(int(toks[2]), int(toks[3]))
    if cmd == "choose":
        return "nat", math.comb(int(toks[1]), int(toks[2]))
    if cmd == "fastpow":
        x = parse(toks[3])
        n = int(toks[2])
        return "elem", (fpa.fast_exponent_by_squaring(cx, x, n) if toks[1] == "fpa" else P.fast_exponent_by_squaring(x, n))
    if cmd == "fastpoly":
        md, sch, rev = toks[1], toks[2], toks[3] == "1"
        x = parse(toks[4])
        cs = [parse(t) for t in toks[5:]]
        if md == "fpa":
            return "elem", fpa.fast_polynomial(cx, x, cs, scheme=scheme_fn(fpa, sch), **_kw(True, rev))
        return "elem", P.fast_polynomial(x, cs, scheme=scheme_fn(P, sch), **_kw(False, rev))
    if cmd == "horner":
        rev = toks[1] == "1"
        return "elem", fpa.horner(cx, parse(toks[2]), [parse(t) for t in toks[3:]], **_kw(True, rev))
    if cmd == "rpoly":
        md, rev = toks[1], toks[2] == "1"
        x = parse(toks[3])
        cs = [parse(t) for t in toks[4:]]
        return "elem", (fpa.rpolynomial(cx, x, cs, **_kw(False, rev)) if md == "fpa" else P.rpolynomial(x, cs, **_kw(False, rev)))
    if cmd == "asr":
        return "list", P.asrpolynomial([parse(t) for t in toks[2:]], **_kw(False, toks[1] == "1"))
    if cmd == "laurent":
        sch, rev, m = toks[1], toks[2] == "1", int(toks[3])
        z = parse(toks[4])
        cs = [parse(t) for t in toks[5:]]
        return "elem", fpa.laurent(cx, z, cs, m, scheme=scheme_fn(fpa, sch), **_kw(False, rev))
    if cmd in ("mul", "add", "divmod"):
        rev, n = toks[1] == "1", int(toks[2])
        l = [parse(t) for t in toks[3:]]
        A, B = l[:n], l[n:]
        if cmd == "mul":
            return "list", P.multiply(A, B, **_kw(False, rev))
        if cmd == "add":
            return "list", P.add(A, B, **_kw(False, rev))
        return "divmod", P.divmod(A, B, **_kw(False, rev))
    if cmd == "deriv":
        return "list", P.derivative([parse(t) for t in toks[3:]], **_kw(False, toks[1] == "1", n=(1, int(toks[2]))))
    if cmd == "taylor":
        rev = toks[1] == "1"
        size = None if toks[2] == "N" else int(toks[2])
        return "list", P.taylorat([parse(t) for t in toks[4:]], parse(toks[3]), **_kw(False, rev, size=(None, size)))
    raise Err("unknown command " + cmd)


def exc_kind(cmd, e):
    if isinstance(e, ZeroDivisionError):
        return "error:ZeroDivisionError"
    if cmd in ("fastpoly", "laurent") and isinstance(e, (RecursionError, ValueError, IndexError)):
        return "error:domain"
    if isinstance(e, IndexError):
        return "error:IndexError"
    if isinstance(e, AssertionError):
        return "error:AssertionError"
    if isinstance(e, TypeError):
        return "error:TypeError"
    return "error:other:" + type(e).__name__


def show_values(dom, kind, v):
    show = show_q if dom == "Q" else show_sym

    def sl(l):
        return " ".join(show(c) for c in l) if l else "[]"

    if kind == "nat":
        return str(int(v))
    if kind == "elem":
        return show(v)
    if kind == "list":
        return sl(v)
    if kind == "divmod":
        return sl(v[0]) + " ; " + sl(v[1])
    raise Err(kind)


def real_line(dom, toks):
    """(canonical output string, kind, value-or-exception)"""
    try:
        kind, v = real_values(dom, toks)
    except Err:
        raise
    except Exception as e:  # the code's own exception -> small enum
        return exc_kind(toks[0], e), "exc", e
    return show_values(dom, kind, v), kind, v


# ----------------------------------------------------------------------------------------------
# independent oracles (plain Fraction arithmetic; never the Lean model, never the repo)
# ----------------------------------------------------------------------------------------------


def o_eval(cs, x):
    s = Fraction(0)
    for i, c in enumerate(cs):
        s += c * x ** i
    return s


def o_strip(l):
    l = list(l)
    while l and l[-1] == 0:
        l.pop()
    return l


def o_conv(A, B):
    if not A or not B:
        return []
    out = [Fraction(0)] * (len(A) + len(B) - 1)
    for i, a in enumerate(A):
        for j, b in enumerate(B):
            out[i + j] += a * b
    return out


def o_padd(A, B):
    n = max(len(A), len(B))
    return [(A[i] if i < len(A) else 0) + (B[i] if i < len(B) else 0) for i in range(n)]


def o_same_poly(A, B):
    return o_strip([Fraction(a) for a in A]) == o_strip([Fraction(b) for b in B])


def o_longdiv(Pn, Dn):
    """Textbook long division; returns (Q, R) with deg R < deg D; D must be non-zero."""
    Pn, Dn = o_strip(Pn), o_strip(Dn)
    Rr = list(Pn)
    if len(Pn) < len(Dn):
        return [], Rr
    Qq = [Fraction(0)] * (len(Pn) - len(Dn) + 1)
    for s in range(len(Pn) - len(Dn), -1, -1):
        top = s + len(Dn) - 1
        c = (Rr[top] if top < len(Rr) else Fraction(0)) / Dn[-1]
        Qq[s] = c
        if c:
            for j, d in enumerate(Dn):
                Rr[s + j] -= c * d
    return o_strip(Qq), o_strip(Rr)


def o_shift(Pl, z0):
    """coefficients of P(z0 + t) in t, by repeated synthetic division"""
    a = [Fraction(c) for c in Pl]
    n = len(a)
    for i in range(n):
        for j in range(n - 2, i - 1, -1):
            a[j] += z0 * a[j + 1]
    return a


def o_deriv(Pl, n):
    out = []
    for i in range(max(len(Pl) - n, 0)):
        f = 1
        for t in range(i + 1, i + n + 1):
            f *= t
        out.append(Pl[i + n] * f)
    return out


# cause signatures
SIG_D0_POLY = "polynomial.fast_polynomial:d==0-branch-drops-top-term"
SIG_D0_FPA = "fpa.fast_polynomial:d==0-branch-drops-top-term"
SIG_HORNER = "fpa.horner:reverse=True-iterates-range(N)-skips-last-coefficient"
SIG_DIVMOD = "polynomial.divmod:remainder-loses-more-than-one-degree-in-a-step"


def d0_hit(md, sch, n_coeffs_lists):
    """Classification aid (not an oracle): is the failure explained by the `d == 0` branch of fast_polynomial?
    True iff (a) the scheme returns 0 on a sub-problem reached from one of the given lengths (observed by running
    the REAL function with a wrapped scheme) and (b) the `d == 0` branch of the REAL function, exercised in
    isolation with scheme = lambda k, N: 0, does not return the value of the polynomial."""
    R = real()
    mod = R["fpa"] if md == "fpa" else R["P"]
    s = scheme_fn(mod, sch)
    if s is None:
        return False
    hit = []

    def wrapped(k, N):
        d = s(k, N)
        if d == 0:
            hit.append(k)
        return d

    def call(cs, x, scheme):
        if md == "fpa":
            return mod.fast_polynomial(R["qctx"], x, cs, reverse=False, scheme=scheme)
        return mod.fast_polynomial(x, cs, reverse=False, scheme=scheme)

    for n in n_coeffs_lists:
        if n < 1:
            continue
        try:
            call([Fraction(1)] * n, Fraction(1), wrapped)
        except Exception:
            pass
    if not hit:
        return False
    for n in sorted(set(hit)):
        cs = [Fraction(i + 2) for i in range(n + 1)]
        try:
            if Fraction(call(cs, Fraction(3), lambda k, N: 0)) != o_eval(cs, Fraction(3)):
                return True
        except Exception:
            return True
    return False


def check_property(dom, toks, kind, v):
    """Evaluate the property's clause for this instance on the REAL result `v`.
    Returns None if it holds (or the instance is outside the property's domain), else (signature, family, what)."""
    if dom != "Q":
        return None
    cmd = toks[0]
    if kind == "exc":
        e = v
        # in-domain instances must not raise
        if cmd == "fastpoly" and len(toks) > 5:
            return (f"{'fpa' if toks[1] == 'fpa' else 'polynomial'}.fast_polynomial:raises-{type(e).__name__}", cmd, repr(e))
        if cmd == "horner" and len(toks) > 3:
            return (f"fpa.horner:raises-{type(e).__name__}", cmd, repr(e))
        if cmd in ("mul", "add", "deriv", "taylor"):
            return (f"polynomial.{cmd}:raises-{type(e).__name__}", cmd, repr(e))
        if cmd == "divmod":
            n = int(toks[2])
            D = [Fraction(t) for t in toks[3 + n:]]
            if o_strip(D):
                return (f"polynomial.divmod:raises-{type(e).__name__}", cmd, repr(e))
        if cmd == "laurent" and len(toks) > 5 and not (int(toks[3]) < 0 and Fraction(toks[4]) == 0):
            return (f"fpa.laurent:raises-{type(e).__name__}", cmd, repr(e))
        if cmd == "rpoly" and len(toks) > 4:
            return (f"rpolynomial:raises-{type(e).__name__}", cmd, repr(e))
        if cmd == "fastpow":
            return (f"fast_exponent_by_squaring:raises-{type(e).__name__}", cmd, repr(e))
        return None
    if cmd == "fastpow":
        x, n = Fraction(toks[3]), int(toks[2])
        if Fraction(v) != x ** n:
            return (f"{toks[1]}.fast_exponent_by_squaring:wrong-power", cmd, f"got {v}, x**n = {x ** n}")
        return None
    if cmd == "fastpoly":
        md, sch, rev = toks[1], toks[2], toks[3] == "1"
        x = Fraction(toks[4])
        cs = [Fraction(t) for t in toks[5:]]
        want = o_eval(cs[::-1] if rev else cs, x)
        if Fraction(v) != want:
            if d0_hit(md, sch, [len(cs)]):
                return (SIG_D0_FPA if md == "fpa" else SIG_D0_POLY, cmd, f"scheme={sch} reverse={rev}: got {v}, definition gives {want}")
            return (f"{'fpa' if md == 'fpa' else 'polynomial'}.fast_polynomial:value-differs-from-definition", cmd,
                    f"scheme={sch} reverse={rev}: got {v}, definition gives {want}")
        return None
    if cmd == "horner":
        rev = toks[1] == "1"
        x = Fraction(toks[2])
        cs = [Fraction(t) for t in toks[3:]]
        want = o_eval(cs[::-1] if rev else cs, x)
        if Fraction(v) != want:
            N = len(cs) - 1
            as_written = cs[0] * x ** N + sum((cs[i] * x ** (N - 1 - i) for i in range(N)), Fraction(0))
            if rev and Fraction(v) == as_written:
                return (SIG_HORNER, cmd, f"got {v}, definition gives {want}")
            return (f"fpa.horner:value-differs-from-definition(reverse={rev})", cmd, f"got {v}, definition gives {want}")
        return None
    if cmd == "rpoly":
        # rpolynomial(x, r) = sum_i (r0*...*ri) x^i
        md, rev = toks[1], toks[2] == "1"
        x = Fraction(toks[3])
        rs = [Fraction(t) for t in toks[4:]]
        if rev:
            rs = rs[::-1]
        cs, p = [], Fraction(1)
        for r in rs:
            p *= r
            cs.append(p)
        want = o_eval(cs, x)
        if Fraction(v) != want:
            return (f"{'fpa' if md == 'fpa' else 'polynomial'}.rpolynomial:value-differs-from-definition", cmd, f"got {v}, want {want}")
        return None
    if cmd == "asr":
        rev = toks[1] == "1"
        cs = [Fraction(t) for t in toks[2:]]
        c2 = cs[::-1] if rev else cs
        want = [c2[0]] + [c2[i] / c2[i - 1] for i in range(1, len(c2))]
        if rev:
            want = want[::-1]
        if [Fraction(a) for a in v] != want:
            return ("polynomial.asrpolynomial:wrong-ratios", cmd, f"got {v}")
        # round trip through both rpolynomials
        R = real()
        for x in (Fraction(2, 3), Fraction(-3)):
            for md in ("poly", "fpa"):
                got = R["fpa"].rpolynomial(R["qctx"], x, list(v), reverse=rev) if md == "fpa" else R["P"].rpolynomial(x, list(v), reverse=rev)
                if Fraction(got) != o_eval(c2, x):
                    return (f"ratio-roundtrip({md}):rpolynomial(asrpolynomial(c)) differs from the polynomial", cmd, f"x={x} got {got}")
        return None
    if cmd == "laurent":
        sch, rev, m = toks[1], toks[2] == "1", int(toks[3])
        z = Fraction(toks[4])
        cs = [Fraction(t) for t in toks[5:]]
        if z == 0 and m < 0:
            return None
        c2 = cs[::-1] if rev else cs
        want = sum((c * z ** (j + m) for j, c in enumerate(c2) if not (z == 0 and j + m < 0)), Fraction(0))
        if Fraction(v) != want:
            p = -m
            if m >= 0:
                lens = [len(cs)]
            elif p < len(cs):
                lens = [p + 1, len(cs) - p]
            else:
                lens = [len(cs)]
            if d0_hit("fpa", sch, lens):
                return (SIG_D0_FPA, cmd, f"laurent scheme={sch} reverse={rev} m={m}: got {v}, definition gives {want}")
            return ("fpa.laurent:value-differs-from-definition", cmd, f"scheme={sch} reverse={rev} m={m}: got {v}, want {want}")
        return None
    if cmd in ("mul", "add"):
        rev, n = toks[1] == "1", int(toks[2])
        l = [Fraction(t) for t in toks[3:]]
        A, B = l[:n], l[n:]
        got = [Fraction(c) for c in v]
        if rev:
            A, B, got = A[::-1], B[::-1], got[::-1]
        want = o_conv(A, B) if cmd == "mul" else o_padd(A, B)
        if not o_same_poly(got, want):
            return (f"polynomial.{'multiply' if cmd == 'mul' else 'add'}:not-the-exact-{'product' if cmd == 'mul' else 'sum'}", cmd, f"got {v}")
        # scalar arguments are singleton polynomials
        R = real()
        fn = R["P"].multiply if cmd == "mul" else R["P"].add
        a0, b0 = l[:n], l[n:]
        if len(b0) == 1 and fn(a0, b0[0], reverse=rev) != list(v):
            return (f"polynomial.{cmd}:scalar-argument-differs-from-singleton", cmd, "second argument scalar")
        if len(a0) == 1 and fn(a0[0], b0, reverse=rev) != list(v):
            return (f"polynomial.{cmd}:scalar-argument-differs-from-singleton", cmd, "first argument scalar")
        return None
    if cmd == "deriv":
        rev, n = toks[1] == "1", int(toks[2])
        Pl = [Fraction(t) for t in toks[3:]]
        got = [Fraction(c) for c in v]
        if rev:
            Pl, got = Pl[::-1], got[::-1]
        if not o_same_poly(got, o_deriv(Pl, n)):
            return ("polynomial.derivative:not-the-derivative", cmd, f"n={n} got {v}")
        return None
    if cmd == "taylor":
        rev = toks[1] == "1"
        size = None if toks[2] == "N" else int(toks[2])
        z0 = Fraction(toks[3])
        Pl = [Fraction(t) for t in toks[4:]]
        got = [Fraction(c) for c in v]
        if rev:
            Pl, got = Pl[::-1], got[::-1]
            size = None
        want = o_shift(Pl, z0)
        if size is not None:
            want = (want + [Fraction(0)] * size)[:size]
        if got != want:
            return ("polynomial.taylorat:not-the-taylor-coefficients", cmd, f"z0={z0} size={size} got {v}")
        # the defining identity at a few points
        if size is None:
            for zz in (Fraction(0), Fraction(5, 7), z0 + 1):
                if o_eval(got, zz - z0) != o_eval(Pl, zz):
                    return ("polynomial.taylorat:identity-fails", cmd, f"z={zz}")
        return None
    if cmd == "divmod":
        rev, n = toks[1] == "1", int(toks[2])
        l = [Fraction(t) for t in toks[3:]]
        A, B = l[:n], l[n:]
        Qg, Rg = [Fraction(c) for c in v[0]], [Fraction(c) for c in v[1]]
        if rev:
            A, B, Qg, Rg = A[::-1], B[::-1], Qg[::-1], Rg[::-1]
        if not o_strip(B):
            return None
        ident = o_same_poly(o_padd(o_conv(Qg, B), Rg), A)
        degok = len(o_strip(Rg)) < len(o_strip(B))
        if ident and degok:
            return None
        Qt, _ = o_longdiv(A, B)
        what = f"P=Q*D+R {'holds' if ident else 'FAILS'}, deg R < deg D {'holds' if degok else 'FAILS'}; got Q={[str(q) for q in v[0]]} R={[str(r) for r in v[1]]}"
        if o_strip(A) != A or o_strip(B) != B:
            # does the failure disappear once trailing zeros are removed by hand?
            try:
                q2, r2 = real()["P"].divmod(o_strip(A), o_strip(B))
                if o_same_poly(o_padd(o_conv(q2, o_strip(B)), r2), A) and len(o_strip(r2)) < len(o_strip(B)):
                    return ("polynomial.divmod:trailing-zeros-not-handled", cmd, what)
            except Exception:
                pass
        if any(q == 0 for q in Qt):
            return (SIG_DIVMOD, cmd, what + "; the true quotient has a zero coefficient")
        return ("polynomial.divmod:wrong-result", cmd, what)
    return None


# ----------------------------------------------------------------------------------------------
# generators
# ----------------------------------------------------------------------------------------------


def A(n):
    return [f"a{i}" for i in range(n)]


def B(n):
    return [f"b{i}" for i in range(n)]


def symbolic_cases(ctx):
    """Exhaustive within the tier bounds: every length, scheme and flag combination."""
    q = ctx.quick
    out = []
    nmax = 25 if q else 65          # number of coefficients: degree <= 24 / 64
    for md in ("poly", "fpa"):
        for sch in SCHEMES:
            for rev in "01":
                for n in range(1, nmax + 1):
                    out.append(["fastpoly", md, sch, rev, "x"] + A(n))
    # the len(coeffs) > 500 switch (polynomial.py), and the same sizes on the fpa variant
    big = [(n, s) for n in ((500, 501, 502) if q else (499, 500, 501, 502, 503, 641)) for s in SCHEMES]
    for n, sch in big:
        for rev in "01":
            out.append(["fastpoly", "poly", sch, rev, "x"] + A(n))
            out.append(["fastpoly", "fpa", sch, rev, "x"] + A(n))
    for rev in "01":
        for n in range(1, nmax + 1):
            out.append(["horner", rev, "x"] + A(n))
    for md in ("poly", "fpa"):
        for n in list(range(0, 2 * nmax + 1)) + [100, 255, 256, 257, 500, 511, 512, 1000, 1023]:
            out.append(["fastpow", md, str(n), "x"])
        for rev in "01":
            for n in range(1, (17 if q else 41)):
                out.append(["rpoly", md, rev, "x"] + A(n))
    lmax = 9 if q else 16
    for sch in SCHEMES:
        for rev in "01":
            for n in range(1, lmax + 1):
                for m in range(-n - 3, 4):
                    out.append(["laurent", sch, rev, str(m), "x"] + A(n))
    pmax = 7 if q else 12
    for rev in "01":
        for n in range(0, pmax + 1):
            for m in range(0, pmax + 1):
                out.append(["mul", rev, str(n)] + A(n) + B(m))
                out.append(["add", rev, str(n)] + A(n) + B(m))
        for n in range(0, (14 if q else 41)):
            for k in range(0, 5):
                out.append(["deriv", rev, str(k)] + A(n))
            for size in ["N", "0", "1", str(n), str(n + 2)]:
                out.append(["taylor", rev, size, "z"] + A(n))
    return out


def table_cases(ctx):
    out = []
    kmax = 3000 if ctx.quick else 60000
    ks = list(range(1, kmax + 1))
    from_thr = [3, 8, 21, 55, 149, 404, 1097, 2981, 8104, 22027, 59875, 162755, 442414, 1202605, 3269018, 8886111,
                24154953, 65659970, 178482301, 485165196]
    for t in from_thr:
        ks += [t - 1, t, t + 1]
    for name in ("estrin", "horner", "balanced", "canonical"):
        for k in (ks if name == "estrin" else ks[:300]):
            out.append(["scheme", name, str(k), str(k)])
    nmax = 30 if ctx.quick else 70
    for n in range(0, nmax + 1):
        for k in range(0, n + 3):
            out.append(["choose", str(n), str(k)])
    return out


def rnd_frac(rng, small=False):
    r = rng.random()
    if r < 0.45 or small:
        return Fraction(rng.randint(-4, 4))
    if r < 0.8:
        return Fraction(rng.randint(-9, 9), rng.randint(1, 7))
    return Fraction(rng.randint(-10 ** 6, 10 ** 6), rng.randint(1, 10 ** 4))


def rnd_nonzero(rng):
    while True:
        v = rnd_frac(rng)
        if v != 0:
            return v


def rnd_coeffs(rng, n, style=None):
    """styles: dense, sparse (many zeros), lead0 (leading zeros), trail0 (trailing zeros), zero, nonzero"""
    style = style or rng.choice(["dense", "dense", "sparse", "lead0", "trail0", "both0", "nonzero", "zero"])
    if style == "zero":
        return [Fraction(0)] * n, style
    if style == "nonzero":
        return [rnd_nonzero(rng) for _ in range(n)], style
    cs = [rnd_frac(rng) for _ in range(n)]
    if style == "sparse":
        cs = [c if rng.random() < 0.4 else Fraction(0) for c in cs]
    if style in ("lead0", "both0"):
        for i in range(min(n, rng.randint(1, 3))):
            cs[i] = Fraction(0)
    if style in ("trail0", "both0"):
        for i in range(min(n, rng.randint(1, 3))):
            cs[n - 1 - i] = Fraction(0)
    return cs, style


def rnd_x(rng):
    return rng.choice([Fraction(0), Fraction(1), Fraction(-1), Fraction(2), Fraction(1, 2), Fraction(-2, 3), rnd_frac(rng), rnd_frac(rng)])


def T(l):
    return [tok_q(c) for c in l]


def rational_cases(ctx):
    rng = ctx.rng
    out = []
    reps = ctx.scale(3, 30)
    # --- evaluation: degree 0..40 every scheme/flag, plus > 500
    for _ in range(reps):
        for n in range(1, 42):
            cs, style = rnd_coeffs(rng, n)
            x = rnd_x(rng)
            ctx.count("coeffs:" + style)
            for md in ("poly", "fpa"):
                for sch in SCHEMES:
                    for rev in "01":
                        out.append(["fastpoly", md, sch, rev, tok_q(x)] + T(cs))
            for rev in "01":
                out.append(["horner", rev, tok_q(x)] + T(cs))
    for n in ([500, 501, 502, 600] if ctx.quick else [499, 500, 501, 502, 503, 600, 641]):
        cs, style = rnd_coeffs(rng, n, rng.choice(["dense", "sparse", "both0"]))
        cs = [Fraction(rng.randint(-3, 3)) if c != 0 else c for c in cs]
        x = rng.choice([Fraction(1), Fraction(-1), Fraction(2), Fraction(1, 2), Fraction(-2, 3)])
        ctx.count("coeffs:len>=499")
        for md in ("poly", "fpa"):
            for sch in SCHEMES:
                for rev in "01":
                    out.append(["fastpoly", md, sch, rev, tok_q(x)] + T(cs))
        out.append(["horner", "0", tok_q(x)] + T(cs))
        out.append(["horner", "1", tok_q(x)] + T(cs))
    for md in ("poly", "fpa"):
        for n in list(range(0, 70)) + [rng.randint(70, 3000) for _ in range(10)]:
            out.append(["fastpow", md, str(n), tok_q(rng.choice([Fraction(0), Fraction(-1), Fraction(3, 2), Fraction(-2, 3)]))])
    # --- ratio form
    for _ in range(30 * reps):
        n = rng.randint(1, 41)
        cs, style = rnd_coeffs(rng, n, rng.choice(["nonzero", "nonzero", "nonzero", "dense", "sparse", "trail0", "lead0"]))
        ctx.count("asr:" + style)
        for rev in "01":
            out.append(["asr", rev] + T(cs))
            for md in ("poly", "fpa"):
                out.append(["rpoly", md, rev, tok_q(rnd_x(rng))] + T(cs))
    # --- laurent
    for _ in range(40 * reps):
        n = rng.randint(1, 41 if rng.random() < 0.3 else 9)
        cs, style = rnd_coeffs(rng, n)
        m = rng.choice([0, 1, 2, 5, -1, -2, -n + 1, -n, -n - 1, -n - 4, rng.randint(-n - 5, 5)])
        z = rnd_x(rng) if rng.random() < 0.9 else Fraction(0)
        ctx.count("laurent:" + ("m=0" if m == 0 else "m>0" if m > 0 else "-m<len" if -m < n else "-m>=len") + (",z=0" if z == 0 else ""))
        for sch in SCHEMES:
            for rev in "01":
                out.append(["laurent", sch, rev, str(m), tok_q(z)] + T(cs))
    # --- products, sums, derivatives, Taylor shift
    for _ in range(40 * reps):
        n, m = rng.randint(0, 41 if rng.random() < 0.2 else 8), rng.randint(0, 41 if rng.random() < 0.2 else 8)
        Pl, s1 = rnd_coeffs(rng, n)
        Ql, s2 = rnd_coeffs(rng, m)
        for rev in "01":
            out.append(["mul", rev, str(n)] + T(Pl) + T(Ql))
            out.append(["add", rev, str(n)] + T(Pl) + T(Ql))
            out.append(["deriv", rev, str(rng.choice([0, 1, 1, 2, 3, n, n + 1])), *T(Pl)])
            out.append(["taylor", rev, rng.choice(["N", "N", "0", str(n), str(n + 3), str(max(n - 1, 0))]), tok_q(rnd_x(rng))] + T(Pl))
    # --- divmod (data dependent)
    for _ in range(120 * reps):
        out.append(["divmod", rng.choice("01")] + gen_divmod(ctx, rng))
    # --- malformed stream
    for md in ("poly", "fpa"):
        for sch in SCHEMES:
            out.append(["fastpoly", md, sch, "0", "1"])
        out.append(["rpoly", md, "0", "2"])
    out.append(["horner", "0", "1"])
    out.append(["horner", "1", "1"])
    out.append(["asr", "0"])
    out.append(["laurent", "none", "0", "-1", "2"])
    out.append(["divmod", "0", "2", "1", "1"])
    out.append(["divmod", "0", "0"])
    out.append(["divmod", "1", "2", "1", "1", "0", "0"])
    return out


def gen_divmod(ctx, rng):
    """Returns [nP, P..., D...] tokens.  Mix of: generic pairs; exact multiples; constructed so that the
    true quotient has / has not zero coefficients; trailing zeros; zero divisor; zero dividend; len P < len D."""
    r = rng.random()
    dn = rng.randint(1, 6 if rng.random() < 0.8 else 20)
    D, _ = rnd_coeffs(rng, dn, rng.choice(["dense", "nonzero", "sparse"]))
    if r < 0.06:
        D = [Fraction(0)] * rng.randint(0, 3)
        kind = "zero-divisor"
        Pl, _ = rnd_coeffs(rng, rng.randint(0, 6))
    elif r < 0.12:
        Pl = [Fraction(0)] * rng.randint(0, 4)
        kind = "zero-dividend"
    elif r < 0.2:
        Pl, _ = rnd_coeffs(rng, rng.randint(0, max(dn - 1, 0)))
        kind = "short-dividend"
    elif r < 0.45:
        Pl, _ = rnd_coeffs(rng, rng.randint(dn, dn + (8 if rng.random() < 0.8 else 35)))
        kind = "generic"
    else:
        qn = rng.randint(1, 8 if rng.random() < 0.8 else 35)
        Q0, _ = rnd_coeffs(rng, qn, "nonzero" if r < 0.75 else rng.choice(["sparse", "lead0", "dense"]))
        R0, _ = rnd_coeffs(rng, rng.randint(0, max(len(o_strip(D)) - 1, 0)))
        Pl = o_padd(o_conv(Q0, D), R0)
        kind = "constructed:" + ("quotient-nonzero-coeffs" if r < 0.75 else "quotient-may-have-zeros")
    if rng.random() < 0.3:
        Pl = Pl + [Fraction(0)] * rng.randint(1, 2)
        kind += "+trailing0"
    if rng.random() < 0.2:
        D = D + [Fraction(0)] * rng.randint(1, 2)
    ctx.count("divmod:" + kind)
    return [str(len(Pl))] + T(Pl) + T(D)


# ----------------------------------------------------------------------------------------------
# run
# ----------------------------------------------------------------------------------------------

FAMILY_OF_CMD = dict(fastpoly="fastpoly", laurent="fastpoly", horner="horner", rpoly="ratio", asr="ratio", mul="mul", add="add",
                     divmod="divmod", deriv="deriv", taylor="taylor", fastpow="fastpow", scheme="scheme", choose="choose")


def load_corpus():
    cases = []
    cdir = os.path.join(ROOT, "corpus", "C16")
    if os.path.isdir(cdir):
        for fn in sorted(os.listdir(cdir)):
            if fn.endswith(".json"):
                obj = json.load(open(os.path.join(cdir, fn)))
                for c in obj.get("cases", [obj]):
                    cases.append((c["dom"], list(c["toks"]), c.get("expect")))
    return cases


def numpy_context_check(ctx):
    """The duck-typed / Fraction contexts used above behave like the repo's NumpyContext on inputs where
    float64 arithmetic is exact (small integers)."""
    import numpy
    R = real()
    fpa = R["fpa"]
    NC = getattr(R["fa"].utils, "NumpyContext", None)
    if NC is None:
        return True, "no NumpyContext"
    nc = NC(default_constant_type=numpy.float64)
    rng = ctx.rng
    bad = []
    for _ in range(60):
        n = rng.randint(1, 9)
        cs = [rng.randint(-3, 3) for _ in range(n)]
        x = rng.choice([-2, -1, 1, 2, 3])
        for sch in SCHEMES:
            for rev in (False, True):
                a = fpa.fast_polynomial(nc, numpy.float64(x), [numpy.float64(c) for c in cs], reverse=rev, scheme=scheme_fn(fpa, sch))
                b = fpa.fast_polynomial(R["qctx"], Fraction(x), [Fraction(c) for c in cs], reverse=rev, scheme=scheme_fn(fpa, sch))
                if Fraction(float(a)) != b:
                    bad.append(("fast_polynomial", sch, rev, x, cs))
        for rev in (False, True):
            a = fpa.horner(nc, numpy.float64(x), [numpy.float64(c) for c in cs], reverse=rev)
            b = fpa.horner(R["qctx"], Fraction(x), [Fraction(c) for c in cs], reverse=rev)
            if Fraction(float(a)) != b:
                bad.append(("horner", rev, x, cs))
            m = rng.randint(0, 3)
            a = fpa.laurent(nc, numpy.float64(x), [numpy.float64(c) for c in cs], m, reverse=rev)
            b = fpa.laurent(R["qctx"], Fraction(x), [Fraction(c) for c in cs], m, reverse=rev)
            if Fraction(float(a)) != b:
                bad.append(("laurent", rev, m, x, cs))
    return not bad, bad[:3]


def case_size(toks):
    return (len(toks), sum(len(t) for t in toks))


def run(ctx):
    ctx.rule = ("symbolic: one case per (function, scheme, flags, length) executed on the real code with formal coefficients; "
                "rational: seeded instances; non-trivial = at least 3 coefficients (a recursive split / loop iteration happens) or a "
                "data-dependent branch (zero stripping, exception); distinct by the full command line")
    broken = ctx.lean_stage(["FAVerif.Props.C16"], THEOREMS)
    real()

    corpus = load_corpus()
    cases = [(d, t) for d, t, _e in corpus]
    n_corpus = len(cases)
    sym = symbolic_cases(ctx)
    tab = table_cases(ctx)
    rat = rational_cases(ctx)
    cases += [("S", t) for t in sym] + [("Q", t) for t in tab] + [("Q", t) for t in rat]
    ctx.notes["cases"] = dict(corpus=n_corpus, symbolic=len(sym), tables=len(tab), rational=len(rat))

    # real code
    import time
    t0 = time.time()
    reals = []
    for dom, toks in cases:
        reals.append(real_line(dom, toks))
    t1 = time.time()
    # model
    lines = [dom + " " + " ".join(toks) for dom, toks in cases]
    out = ctx.lean.driver("Poly", lines)
    t2 = time.time()
    ctx.notes["seconds"] = dict(real_code=round(t1 - t0, 1), lean_driver=round(t2 - t1, 1))
    if len(out) != len(lines):
        raise Infra(f"driver returned {len(out)} lines for {len(lines)} commands")

    mismatches = {}
    failures = {}   # signature -> (size, dom, toks, what, family)
    for idx, ((dom, toks), (rstr, kind, val), mstr) in enumerate(zip(cases, reals, out)):
        cmd = toks[0]
        fam = FAMILY_OF_CMD.get(cmd, cmd)
        ncoef = max(len(toks) - 4, 0)
        nontrivial = (cmd in ("scheme", "choose", "fastpow")) or ncoef >= 3 or kind == "exc"
        ctx.case(key=lines[idx], nontrivial=nontrivial)
        ctx.count(f"{dom}:{cmd}")
        if kind == "exc":
            ctx.count("out:" + rstr)
        ctx.traces_validated += 1
        m_cmp = mstr
        if m_cmp != rstr:
            mismatches.setdefault(fam, []).append(dict(line=lines[idx][:600], model=m_cmp[:600], impl=rstr[:600]))
        if idx < n_corpus and corpus[idx][2] is not None and corpus[idx][2] != rstr:
            mismatches.setdefault(fam, []).append(dict(line=lines[idx][:600], corpus_expect=corpus[idx][2], impl=rstr[:600]))
        try:
            fail = check_property(dom, toks, kind, val)
        except Exception as e:  # noqa: BLE001 - the real code raised inside a clause (e.g. the rpolynomial round trip): an observation, not a crash
            fail = (f"{cmd}:clause-evaluation-raises-{type(e).__name__}", cmd, repr(e)[:200])
        if fail is not None:
            sig, ffam, what = fail
            cur = failures.get(sig)
            if cur is None or case_size(toks) < cur[0]:
                failures[sig] = (case_size(toks), dom, toks, what, FAMILY_OF_CMD.get(ffam, ffam))
            ctx.count("property-fails:" + sig)
        if dom == "S" and idx % 97 == 0 or (dom == "Q" and idx % 997 == 0):
            ctx.sample(dict(cmd=lines[idx][:200], real=rstr[:200], model=m_cmp[:200]), limit=12)

    ctx.notes["correspondence_mismatches"] = {k: len(v) for k, v in mismatches.items()}
    items = {}
    for fam in sorted(set(FAMILY_OF_CMD.values())):
        ok = fam not in mismatches
        ctx.obligation(f"correspondence:Poly:{fam}(model == real code on every symbolic and rational case)", ok, kind="correspondence")
        if not ok:
            items[fam] = ctx.broken(f"correspondence:Poly:{fam}", json.dumps(mismatches[fam][:3]))
    try:
        okn, detail = numpy_context_check(ctx)
    except Exception as e:  # noqa: BLE001 - the real functions raised on a well-formed call with the NumpyContext
        okn, detail = False, [("raises", type(e).__name__, repr(e)[:200])]
    ctx.obligation("context: Fraction/duck context agrees with the repo's NumpyContext(float64) on exactly representable inputs", okn, kind="correspondence")
    if not okn:
        items.setdefault("fastpoly", ctx.broken("correspondence:Poly:numpy-context", json.dumps(detail, default=str)))

    # report failing inputs found on the real code (smallest per cause signature)
    new_found = []
    for sig, (_sz, dom, toks, what, fam) in sorted(failures.items()):
        item = items.get(fam)
        res = ctx.violation(sig, f"{what}  [replay: {dom} {' '.join(toks)[:300]}]", dict(dom=dom, toks=toks), broken_item=item)
        if res != "known":
            new_found.append((sig, fam))
    # a broken Lean obligation is explained by any new failing input (the model is tied to the code by the
    # correspondence above, so a changed code path shows up there first)
    if new_found:
        for b in broken:
            b["has_failing_input"] = True
        for fam, it in items.items():
            if not it["has_failing_input"] and any(f == fam for _s, f in new_found):
                it["has_failing_input"] = True


def replay(ctx, obj):
    rp = obj.get("replay") or {}
    if "toks" not in rp:
        print("replay names an obligation without failing input:", obj.get("obligation"))
        print(obj.get("detail", "")[:2000])
        return 1
    dom, toks = rp["dom"], rp["toks"]
    rstr, kind, val = real_line(dom, toks)
    print("command :", dom, " ".join(toks))
    print("real    :", rstr)
    fail = check_property(dom, toks, kind, val)
    print("property:", "holds" if fail is None else f"FAILS  {fail[0]}  {fail[2]}")
    return 0 if fail is None else 1


LEVEL_TEXT = ("Proof. Theorems (Lean kernel; every degree, every coefficient value, every argument, any commutative ring, a field where the "
              "code divides): fast_exponent_by_squaring(x,n) = x^n (both modules); both fast_polynomial recursions (polynomial.py with its "
              "len>500 switch to the alternative scheme, and the context version, d == 0 branch included) equal sum c_i x^i for every scheme "
              "with scheme(k) <= k, hence for all shipped schemes (horner, estrin = floor(ln k), balanced, canonical - each proved admissible; "
              "estrin proved to take the d == 0 branch exactly at k = 2), both reverse flags; horner both flags; rpolynomial = evaluation of the "
              "prefix-product coefficients for every ratio list, and asrpolynomial is the inverse conversion wherever it does not divide by "
              "zero; laurent, all four cases and both flags (z != 0 only when m < 0); multiply/add/derivative/taylorat are Mathlib's polynomial "
              "product, sum, n-fold derivative and Taylor shift (plus the docstring identity and the size= truncation); divmod returns (Q, R) "
              "with P = Q*D + R, deg R < deg D, Q = P / D and R = P % D in Mathlib's Euclidean structure, for every non-zero divisor, trailing "
              "zeros allowed. The model is tied on every run by executing the real functions on formal coefficients for every degree up to the "
              "tier bound x scheme x flags and comparing expanded forms with the Lean model, plus seeded rational correspondence for the "
              "data-dependent paths; the three defects found while building the check (d == 0 branch, horner reverse=True, divmod with a zero "
              "quotient coefficient) were fixed in /repo and are kept as kernel-evaluated regression witnesses replayed on the real code.")
LEVEL_NOTE = ("Trusted: Lean kernel (axioms propext, Classical.choice, Quot.sound); the hand model Models/Poly.lean (validated by the symbolic "
              "and rational correspondence each run: agreement over Z[formal variables] for a given length means agreement over every "
              "commutative ring for that length; lengths above the tier bound rest on the model being a faithful port); CPython "
              "int/Fraction/list semantics, math.comb, math.log. estrin_dac_scheme = int(math.log k) is a table in the model, compared for "
              "every k up to the tier bound and around each threshold up to 4.8e8. User-supplied schemes returning d > k or negative values "
              "are outside the theorems (the code recurses forever / slices wrongly there).")
TECHNIQUE = "Lean 4 proofs by induction over a generic-ring model (Mathlib Polynomial as specification) + symbolic-circuit correspondence with the real functions + exact rational search"
