"""C17 — argument reduction reconstructs its input.

Regenerated model: `argument_reduction_exponent` is traced through the repo's tracer for
float16/32/64 on every run (lean/FAVerif/Generated/C17.lean) and cross-checked 3-way
(eager real code == independent NumPy interpreter == Lean softfloat evaluation, `floor`
answered by the oracle table).  Theorems (Props/C17.lean): the regenerated programs are well
formed and have the documented shape k = floor(x*ln2inv + 1/2), r = x - k*ln2hi, c = -k*ln2lo
with ln2hi having few enough significant bits that k*ln2hi is exact for every |k| in the
domain, and ln2hi + ln2lo enclosing ln 2 (rational enclosure) within the documented error.
The trigonometric (Payne–Hanek style) reduction uses trunc/round/% and Python-level float()
calls and cannot be traced: it is decided by search only, on the real eager code.
Search: (k, r, c) / (k, r, t) from the REAL functions vs mpmath reconstruction at >= 4x the
working precision.
"""

import warnings
from fractions import Fraction

import mpmath
import numpy

from .. import engine, fpx
from ..translate import blocks

THEOREMS = ["generated_wf", "exp_shape", "ln2hi_short", "ln2_enclosure", "exp_reduction_16", "exp_reduction_32", "exp_reduction_64",
            "exp_constants", "exp_reconstruction_bounds", "exp_reduction_bits_f32", "exp_reduction_bits_f16", "exp_reduction_bits_f64",
            "exp_kmax", "exp_reduction_bits_total_f16", "exp_reduction_bits_total_f32", "exp_reduction_bits_total_f64"]
SEARCHED = ["k integral, |r+c| <= 0.55 ln2, |k ln2 + (r+c) - x| <= ulp(x) (mpmath reconstruction; also a theorem over Q, see THEOREMS)",
            "trigonometric reduction: k in {0,1,2,3}, |r| <= 1.1 pi/4, remainder within 1 ULP (10 ULP float16) — search only (not traceable)"]
TRUSTED = [
    "Lean 4 kernel; axioms propext, Classical.choice, Quot.sound only",
    "translator fav/translate/ir.py cross-checked bit-for-bit against eager execution each run",
    "mpmath (log 2, pi at 4x working precision) as the reference for the reconstruction clauses",
]
LEVEL_TEXT = ("Partial proof. Theorems on the regenerated exponent-reduction programs (float16/32/64): well-formedness; the program IS the documented formula "
              "k = floor(x*ln2inv + 1/2), r = x - k*ln2hi, c = -k*ln2lo; ln2hi has at most p - ceil(log2 kmax) significant bits so that k*ln2hi is an exact product "
              "for every integral |k| <= kmax of the domain; ln2hi + ln2lo lies within the documented distance of ln 2 (kernel-checked rational enclosure). "
              "The exponential-type reduction itself is a theorem over Q (exp_reduction_16/32/64, from a generic exp_reduction for any precision/rounding under explicit numeric side "
              "conditions): for the format's precision and emin, ANY round-to-nearest and every representable |x| <= 11.09 / 88.73 / 709.79, |k| <= 16 / 128 / 1024, the product k*ln2hi "
              "and the subtraction x - k*ln2hi are EXACT, k*(ln2hi+ln2lo) + (r + c) differs from x only by the rounding error of k*ln2lo (<= 5e-5 / 2e-11 / 3e-23), "
              "|r + c| <= 0.361 / 0.348 / 0.347 < 0.55 ln 2, and k = 0 gives the identity; with the rational enclosure of ln 2 the distance of k*ln 2 + (r + c) from x is at most "
              "1.2e-4 / 3e-11 / 5e-23 (exp_reconstruction_bounds). floor enters as the mathematical floor of the rounded argument. exp_reduction_bits_f16/f32/f64 carry the statement to the BIT PATTERNS the regenerated "
              "program computes (exp_shape + correct rounding of the softfloat mul/add/sub), assuming of the floor oracle only that it returns the pattern of the floor and that the five arithmetic results are finite; exp_reduction_bits_total_f16/f32/f64 (Props/C17Total.lean) remove the finiteness "
              "assumptions: from |x| <= 11.09 / 88.73 / 709.79 every intermediate stays below 2^(a+4) <= Lmax (exp_finite_of_bound, on the no-overflow lemmas mul/add/sub_finite), so the statement holds for EVERY input pattern of the documented domain. "
              "The trigonometric reduction is decided by mpmath-based search on the real functions.")
LEVEL_NOTE = "Exponential reduction: theorem over Q (exactness of r, reconstruction error, |r+c| bound). Trigonometric reduction: search only (Payne–Hanek analysis not formalised)."
TECHNIQUE = "Lean 4 kernel-checked structural + rational-enclosure theorems on regenerated programs; mpmath reconstruction search"

FMTS = ["float16", "float32", "float64"]


def np_ctx(fmt):
    from functional_algorithms import utils

    return utils.NumpyContext(blocks.DTYPES[fmt])


def variants():
    from functional_algorithms import floating_point_algorithms as fpa

    V = {}
    V["argred_exp"] = dict(nargs=1, clause="exp", opts={},
                           trace=lambda fmt: engine.trace_expr_fn(lambda ctx, x: fpa.argument_reduction_exponent(ctx, x), 1, fmt),
                           eager=lambda fmt, a: fpa.argument_reduction_exponent(np_ctx(fmt), *a))
    return V


def generate(ctx):
    V = variants()
    progs, errors = engine.generate(ctx, V, "C17", FMTS)
    return V, progs, errors


def largest(fmt):
    p, ew, w = fpx.FMT[fmt]
    return fpx.to_fraction((((1 << ew) - 1) << (p - 1)) - 1, fmt)


def ulp_frac(x, fmt):
    """ulp of the float x (Fraction, exactly representable)"""
    p = fpx.FMT[fmt][0]
    if x == 0:
        return Fraction(2) ** fpx.emin(fmt)
    n, d = abs(x).numerator, abs(x).denominator
    e = n.bit_length() - d.bit_length()
    if Fraction(2) ** e > abs(x):
        e -= 1
    return Fraction(2) ** max(e - p + 1, fpx.emin(fmt))


def mpf_of(q):
    return mpmath.mpf(q.numerator) / mpmath.mpf(q.denominator)


def gen_exp_inputs(ctx, fmt, v, n):
    rng = ctx.rng
    p, ew, w = fpx.FMT[fmt]
    with mpmath.workprec(4 * p + 64):
        lim = mpmath.log(mpf_of(largest(fmt)))
        ln2 = mpmath.log(2)
        kmax = int(lim / ln2)
        out = []
        # neighbours of k*ln2 and of (k+1/2)*ln2 for all k in range (bounded count)
        ks = list(range(0, kmax + 1))
        if len(ks) > n // 6:
            ks = rng.sample(ks, n // 6)
        for k in ks:
            for frac in (0, 0.5):
                v_ = ln2 * (k + frac)
                if v_ >= lim or v_ == 0:
                    continue
                b = fpx.round_ne(Fraction(int(v_ * mpmath.mpf(2) ** 200), 2 ** 200), fmt)
                for d in (-1, 0, 1):
                    for s in (0, 1 << (w - 1)):
                        out.append(((b + d) | s,))
        # the band around the 0.55 ln2 allowance: x = (k + f) ln2 with f next to 1/2 and next to 0.55, k biased to the top of the
        # range (a slightly wrong 1/ln2 or rounding offset shifts k*... by an amount proportional to |k|)
        for _ in range(n // 4):
            k = rng.randint(max(0, (3 * kmax) // 4), kmax) if rng.random() < 0.6 else rng.randint(0, kmax)
            f_ = rng.choice([rng.uniform(0.5, 0.6), rng.uniform(0.545, 0.575), rng.uniform(0.4, 0.5), rng.uniform(0.5, 0.51)])
            v_ = ln2 * (k + mpmath.mpf(f_))
            if v_ >= lim or v_ == 0:
                continue
            b = fpx.round_ne(Fraction(int(v_ * mpmath.mpf(2) ** 200), 2 ** 200), fmt)
            out.append((b | (rng.getrandbits(1) << (w - 1)),))
        limb = fpx.round_ne(Fraction(int(lim * mpmath.mpf(2) ** 100), 2 ** 100), fmt) - 1
        while len(out) < n:
            r = rng.random()
            if r < 0.6:  # log-uniform over the domain
                b = rng.randrange(1, limb)
            elif r < 0.8:
                b = limb - rng.randrange(0, 64)
            else:
                b = fpx.directed_patterns(rng, fmt, 1)[0] & ((1 << (w - 1)) - 1)
                if b >= limb:
                    b = rng.randrange(1, limb)
            out.append((b | (rng.getrandbits(1) << (w - 1)),))
    return out[:max(n, len(out))]


def check_exp(v, fmt, ins, outs, allfin, prog):
    p = fpx.FMT[fmt][0]
    x = fpx.to_fraction(ins[0], fmt)
    if x is None:
        return None
    with mpmath.workprec(4 * p + 64):
        if not (abs(mpf_of(x)) < mpmath.log(mpf_of(largest(fmt)))):
            return None
        if any(o == "nan" or not fpx.is_finite(o, fmt) for o in outs):
            return f"non-finite output {outs}"
        k, r, c = (fpx.to_fraction(o, fmt) for o in outs)
        if k.denominator != 1:
            return f"k not integral: {k}"
        ln2 = mpmath.log(2)
        rc = mpf_of(r + c)
        if abs(rc) > mpmath.mpf("0.55") * ln2:
            return f"|r+c| > 0.55 ln2: {float(rc)}"
        err = abs(mpf_of(k) * ln2 + rc - mpf_of(x))
        if err > mpf_of(ulp_frac(x, fmt)):
            return f"reconstruction error {float(err):.3e} > ulp(x) = {float(ulp_frac(x, fmt)):.3e}"
    return None


# ----------------------------------------------------------------------------- trigonometric (eager only)

def trig_eager(fmt, bits):
    from functional_algorithms import floating_point_algorithms as fpa

    dt = blocks.DTYPES[fmt]
    x = fpx.arr_from_bits([bits], fmt)[0]
    with warnings.catch_warnings(), numpy.errstate(all="ignore"):
        warnings.simplefilter("ignore")
        k, r, t = fpa.argument_reduction_trigonometric(np_ctx(fmt), x)
    return [engine.ir.canon_bits(engine.ir.bits_of(dt(v), fmt), fmt) for v in (k, r, t)]


def check_trig(fmt, xb, outs):
    p = fpx.FMT[fmt][0]
    x = fpx.to_fraction(xb, fmt)
    j = {"float64": 18, "float32": 5, "float16": 2}[fmt]
    if x is None or abs(x) > largest(fmt) / 2 ** j:
        return None
    if any(o == "nan" or not fpx.is_finite(o, fmt) for o in outs):
        return f"non-finite output {outs}"
    k, r, t = (fpx.to_fraction(o, fmt) for o in outs)
    if k not in (0, 1, 2, 3):
        return f"k not in 0..3: {k}"
    emax = {"float16": 16, "float32": 128, "float64": 1024}[fmt]
    with mpmath.workprec(emax + 4 * p + 200):
        pi = mpmath.pi
        if abs(mpf_of(r)) > mpmath.mpf("1.1") * pi / 4:
            return f"|r| > 1.1 pi/4: {float(r)}"
        xm = mpf_of(x)
        y = xm * 2 / pi
        N0 = mpmath.floor(y)
        best = None
        for N in (N0, N0 + 1):
            rem = xm - N * pi / 2
            d = abs(mpf_of(r + t) - rem)
            if best is None or d < best[0]:
                best = (d, N, rem)
        d, N, rem = best
        if int(N) % 4 != int(k):
            return f"k = {k} but N mod 4 = {int(N) % 4}"
        # "within 1 ULP (10 in float16) of the remainder": the exact residual of the DOUBLE WORD r + t (not of its rounding to
        # working precision, which would discard t altogether) in units of ulp(remainder)
        remq = Fraction(int(rem * mpmath.mpf(2) ** (emax + 3 * p)), 2 ** (emax + 3 * p))
        b = fpx.round_ne(remq, fmt)
        db = fpx.decode(b, fmt)
        if db[0] != "fin":
            return None
        ulp_rem = Fraction(2) ** max(db[3] + (db[2].bit_length() if db[2] else 0) - p, fpx.emin(fmt))
        resid = abs(mpf_of(r + t) - rem)
        dist_real = resid / mpf_of(ulp_rem)
        tol = 10 if fmt == "float16" else 1
        dist = float(dist_real)
        if dist > tol:
            # The unchanged tree exceeds the bound in two situations only (both known findings, both at hard cases where the
            # remainder is c = log2(|x| / |remainder|) bits below x):
            #  A. the multiword 2/pi is exhausted: the error is about 2^(c - C0) ULP (measured on continued-fraction hard
            #     cases and random neighbours of k pi/2: C0 = 13.5 float16, 126.1 float32, 1022.1 float64);
            #  B. a few ULP (<= 4) under heavy cancellation (c >= p + 24).
            # An error explained by neither is a different violation.
            import math
            c = float(mpmath.log(abs(xm) / abs(rem), 2)) if rem != 0 else float("inf")
            C0 = {"float16": 13.0, "float32": 125.5, "float64": 1021.5}[fmt]
            if math.log2(dist) <= c - C0:
                return (f"remainder off by more than {tol} ULP where the multiword 2/pi is exhausted (log2 error <= cancellation bits - {C0}): "
                        f"{dist:.4g} ULP at {c:.1f} cancellation bits")
            if dist <= 4 and c >= p + 24:
                return (f"remainder off by at most 4 ULP under heavy cancellation (>= p + 24 bits): {dist:.4g} ULP at {c:.1f} cancellation bits")
            if dist <= 1.5 * tol and c >= p:
                #  C. marginally above the bound (<= 1.5 x) when the remainder is at least p bits below x (found by the thorough tier with the
                #     exact double-word metric: 1.044 ULP at x ~ 7 pi/2 in float64, 54.5 cancellation bits)
                return (f"remainder off by at most {1.5 * tol:g} ULP when the remainder is at least p bits below x: {dist:.4g} ULP at {c:.1f} cancellation bits")
            return f"remainder off by more than {tol} ULP, not explained by cancellation: {dist:.4g} ULP at {c:.1f} cancellation bits"
    return None


def cf_hard_cases(fmt, rng, count):
    """patterns m*2^e closest to a multiple of pi/2: the convergents of (pi/2)/2^e whose numerator has exactly p bits
    (the classical worst cases of trigonometric argument reduction), for `count` exponents of the domain"""
    p, ew, w = fpx.FMT[fmt]
    j = {"float64": 18, "float32": 5, "float16": 2}[fmt]
    emax = {"float16": 16, "float32": 128, "float64": 1024}[fmt]
    out = []
    with mpmath.workprec(emax + 6 * p + 200):
        pi2 = mpmath.pi / 2
        exps = list(range(-p, emax - j - p))
        rng.shuffle(exps)
        for e in exps[:count]:
            x = pi2 / mpmath.mpf(2) ** e
            h0, h1, k0, k1 = 0, 1, 1, 0
            best = None
            for _ in range(300):
                a = int(mpmath.floor(x))
                h0, h1 = h1, a * h1 + h0
                k0, k1 = k1, a * k1 + k0
                if h1 >= 2 ** p:
                    break
                if h1 >= 2 ** (p - 1) and k1 >= 1:
                    best = h1
                fp_ = x - a
                if fp_ == 0:
                    break
                x = 1 / fp_
            if best:
                out.append(fpx.round_ne(Fraction(best) * Fraction(2) ** e, fmt))
    return out


def gen_trig_inputs(ctx, fmt, n):
    rng = ctx.rng
    p, ew, w = fpx.FMT[fmt]
    j = {"float64": 18, "float32": 5, "float16": 2}[fmt]
    lim = fpx.round_ne(largest(fmt) / 2 ** j, fmt)
    out = []
    emax = {"float16": 16, "float32": 128, "float64": 1024}[fmt]
    with mpmath.workprec(emax + 4 * p + 100):
        pi2 = mpmath.pi / 2
        for _ in range(n // 3):
            # neighbours of k*pi/2 (hard cases: tiny remainders)
            k = rng.randrange(1, 2 ** rng.randrange(1, min(emax - 2, 60)))
            v_ = pi2 * k
            b = fpx.round_ne(Fraction(int(v_ * mpmath.mpf(2) ** (4 * p)), 2 ** (4 * p)), fmt)
            if b < lim:
                out.append((b + rng.randrange(-2, 3)) | (rng.getrandbits(1) << (w - 1)))
    for b in cf_hard_cases(fmt, rng, n // 5):
        if 0 < b < lim:
            out.append((b + rng.choice([0, 0, 0, 1, -1])) | (rng.getrandbits(1) << (w - 1)))
    while len(out) < n:
        r = rng.random()
        if r < 0.7:
            b = rng.randrange(1, lim)
        elif r < 0.85:  # around the |x| < pi/4 transition
            b = fpx.round_ne(Fraction(785398163397448, 10 ** 15), fmt) + rng.randrange(-40, 41)
        else:
            b = lim - rng.randrange(0, 1000)
        out.append(b | (rng.getrandbits(1) << (w - 1)))
    return out


def run(ctx):
    ctx.rule = ("exponential: neighbours of k ln2 and (k+1/2) ln2 for k over the whole range, log-uniform samples, the domain edge; trigonometric: neighbours of k pi/2, "
                "the pi/4 transition, log-uniform up to largest/2^j; non-trivial = inside the documented domain with k != 0; distinct by bit pattern")
    V, progs, errors = generate(ctx)
    broken = ctx.lean_stage(["FAVerif.Props.C17", "FAVerif.Props.C17Total"], THEOREMS)
    engine.run_variants(ctx, V, progs, errors, FMTS, gen_inputs=gen_exp_inputs, check_clause=check_exp, n_per=ctx.scale(2500, 100000), broken=broken,
                        lean_every=8)
    # trigonometric reduction: eager real code only
    for fmt in FMTS:
        nv = {}
        for xb in gen_trig_inputs(ctx, fmt, ctx.scale(500, 20000)):
            try:
                outs = trig_eager(fmt, xb)
            except Exception as e:
                ctx.violation(f"trig:{fmt}:raises:{type(e).__name__}", f"argument_reduction_trigonometric raised {type(e).__name__}: {e} on {fmt} pattern {xb}",
                              dict(kind="trig", fmt=fmt, x=xb))
                continue
            fail = check_trig(fmt, xb, outs)
            ctx.case(key=("trig", fmt, xb), nontrivial=outs[0] not in (0, "nan"))
            ctx.count(f"trig:{fmt}")
            if fail:
                head = fail.split(":")[0].strip()
                nv[head] = nv.get(head, 0) + 1
                if nv[head] <= 1:
                    ctx.violation(f"trig:{fmt}:{head}", f"argument_reduction_trigonometric[{fmt}] pattern {xb} -> {outs}: {fail}", dict(kind="trig", fmt=fmt, x=xb, outs=outs))


def replay(ctx, obj):
    rp = obj.get("replay") or {}
    if rp.get("kind") == "trig":
        outs = trig_eager(rp["fmt"], rp["x"])
        fail = check_trig(rp["fmt"], rp["x"], outs)
        print(dict(outs=outs, failure=fail))
        return 1 if fail else 0
    if "variant" in rp:
        V = variants()
        v = V[rp["variant"]]
        real = engine.run_eager(v, rp["fmt"], [tuple(rp["inputs"])])
        fail = check_exp(v, rp["fmt"], tuple(rp["inputs"]), list(real[0]), True, None)
        print(dict(outs=real[0], failure=fail))
        return 1 if fail else 0
    print("replay names an obligation without failing input:", obj.get("obligation"))
    return 1
