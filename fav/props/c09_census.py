"""C09 translator: `ast`-based census of nondeterminism / hidden-state sources in the code
generation pipeline of the repo under test.

Scanned files (relative to <repo>/functional_algorithms): expr.py, context.py, rewrite.py,
algorithms.py, typesystem.py, targets/*.py, plus those functions of utils.py that the scanned
files reference (`warn_once`, `format_python`, `format_cpp`, ...).

Every entry is line independent:  (category, file, enclosing qualified function, normalised
source of the enclosing statement -- header only for compound statements, occurrence index
among identical fingerprints).  Categories:

  id-ref          any load of the builtin name `id`   (call or passed as a key function)
  hash-ref        any load of the builtin name `hash`
  set-create      creation of a set / frozenset object that is stored (assignment, default, argument)
  set-iter        a set-typed expression iterated in order-sensitive position (for loop, list/dict/
                  generator comprehension, list()/tuple()/join/enumerate/zip/map/iter/next ...)
  set-sorted      a set-typed expression consumed directly by sorted(...)
  set-reduce      a set-typed expression consumed by an order-insensitive reducer (len/any/all/min/max/
                  sum/set/frozenset) or a set-comprehension over it
  set-pop         <set>.pop()
  namespace-iter  locals()/globals()/vars()/dir()/f_locals/__dict__/sys._getframe
  watched-import  import of os/time/datetime/random/uuid/tempfile/secrets/socket/platform/getpass/
                  subprocess/threading/multiprocessing
  watched-use     attribute use of such a module (os.environ, time.time, numpy.random, ...)
  module-mutable  module-level or class-level name bound to a mutable container (list/dict/set/
                  defaultdict/dict()/set()) -- potential process-global state
  mutable-default mutable default argument of a function (the `_tmp_counter=[0]` pattern)
  global-stmt     `global` / `nonlocal` statement
  state-mutation  in-function mutation (x[...] = / += / .append/.add/.update/.setdefault/.pop/del) of a
                  module-level / class-level mutable, of a mutable default or of a `global` name
  cache-decorator functools.lru_cache / cache / cached_property decorator
  dunder-def      definition of __hash__/__eq__/__ne__/__lt__/__le__/__gt__/__ge__
  key-order       comparison or sort that orders expressions (mentions `.key`/`.intkey`, or sorted/.sort/min/max
                  with a key= argument)

The census is written to lean/FAVerif/Generated/C09Census.lean; the theorem
`FAVerif.Props.C09.census_audited` states (by `decide`) that it equals the hand-audited list in
lean/FAVerif/Models/C09Audited.lean.
"""

from __future__ import annotations

import ast
import glob
import hashlib
import os
import re

PKG = "functional_algorithms"
FILES = ["expr.py", "context.py", "rewrite.py", "algorithms.py", "typesystem.py"]
WATCHED = {"os", "time", "datetime", "random", "uuid", "tempfile", "secrets", "socket", "platform", "getpass",
           "subprocess", "threading", "multiprocessing"}
DUNDERS = {"__hash__", "__eq__", "__ne__", "__lt__", "__le__", "__gt__", "__ge__"}
ORDER_SENSITIVE_CALLS = {"list", "tuple", "enumerate", "zip", "map", "iter", "next", "reversed", "filter", "dict"}
REDUCERS = {"len", "any", "all", "min", "max", "sum", "set", "frozenset", "bool"}
MUTATORS = {"append", "extend", "insert", "add", "update", "setdefault", "pop", "popitem", "clear", "remove", "discard",
            "sort", "reverse", "__setitem__"}
SET_METHODS_RETURNING_SET = {"union", "intersection", "difference", "symmetric_difference", "copy"}

CATS = ["id-ref", "hash-ref", "set-create", "set-iter", "set-sorted", "set-reduce", "set-pop", "namespace-iter",
        "watched-import", "watched-use", "module-mutable", "mutable-default", "global-stmt", "state-mutation",
        "cache-decorator", "dunder-def", "key-order"]
LEAN_CAT = {c: "".join(w if i == 0 else w.capitalize() for i, w in enumerate(c.split("-"))) for c in CATS}


def repo_files(repo):
    base = os.path.join(repo, PKG)
    out = [f for f in FILES if os.path.exists(os.path.join(base, f))]
    out += sorted("targets/" + os.path.basename(p) for p in glob.glob(os.path.join(base, "targets", "*.py")))
    return base, out


# ----------------------------------------------------------------------------- helpers

def _header(node):
    """Normalised one-line source of a statement (header only for compound statements)."""
    u = ast.unparse
    if isinstance(node, (ast.FunctionDef, ast.AsyncFunctionDef)):
        return f"def {node.name}({u(node.args)}):"
    if isinstance(node, ast.ClassDef):
        return f"class {node.name}:"
    if isinstance(node, ast.For):
        return f"for {u(node.target)} in {u(node.iter)}:"
    if isinstance(node, ast.While):
        return f"while {u(node.test)}:"
    if isinstance(node, ast.If):
        return f"if {u(node.test)}:"
    if isinstance(node, ast.With):
        return "with " + ", ".join(u(i) for i in node.items) + ":"
    if isinstance(node, ast.Try):
        return "try:"
    return " ".join(u(node).split())


def _ctor(val):
    if isinstance(val, ast.Dict) or isinstance(val, ast.DictComp):
        return "{...}"
    if isinstance(val, (ast.List, ast.ListComp)):
        return "[...]"
    if isinstance(val, (ast.Set, ast.SetComp)):
        return "{...set}"
    if isinstance(val, ast.Call):
        f = val.func
        name = f.id if isinstance(f, ast.Name) else (f.attr if isinstance(f, ast.Attribute) else "?")
        return f"{name}(...)"
    return "..."


def _binding(node):
    """`name = ctor(...)` for an assignment that binds a mutable container: the CONTENT of a table is not part of
    the fingerprint (editing a table entry is not a new source of hidden state), its existence and kind are."""
    pairs = _assign_pairs(node)
    if pairs and all(_is_mutable_literal(v) for _, v in pairs):
        return " = ".join(ast.unparse(t) for t, _ in pairs) + " = " + _ctor(pairs[0][1])
    return None


def _short(text, n=110):
    text = " ".join(text.split())
    if len(text) <= n:
        return text
    return text[: n - 12] + "...#" + hashlib.sha256(text.encode()).hexdigest()[:8]


def _is_set_expr(node, setnames):
    """Syntactic inference: does this expression evaluate to a set object?"""
    if isinstance(node, (ast.Set, ast.SetComp)):
        return True
    if isinstance(node, ast.Call):
        f = node.func
        if isinstance(f, ast.Name) and f.id in ("set", "frozenset"):
            return True
        if isinstance(f, ast.Attribute) and f.attr in SET_METHODS_RETURNING_SET and _is_set_expr(f.value, setnames):
            return True
        # element of a dict whose values are sets:  D.get(k, ...)   (names tagged "{}D")
        if isinstance(f, ast.Attribute) and f.attr in ("get", "pop", "setdefault"):
            k = _ref_key(f.value)
            if k is not None and ("{}" + k) in setnames:
                return True
        return False
    if isinstance(node, ast.BinOp) and isinstance(node.op, (ast.BitOr, ast.BitAnd, ast.Sub, ast.BitXor)):
        return _is_set_expr(node.left, setnames) or _is_set_expr(node.right, setnames)
    # element of a dict whose values are sets:  D[k]  /  D.get(k, ...)   (names tagged "{}D")
    if isinstance(node, ast.Subscript) and not isinstance(node.slice, ast.Constant):
        k = _ref_key(node.value)
        if k is not None and ("{}" + k) in setnames:
            return True
    if isinstance(node, ast.Call) and isinstance(node.func, ast.Attribute) and node.func.attr in ("get", "pop", "setdefault"):
        k = _ref_key(node.func.value)
        if k is not None and ("{}" + k) in setnames:
            return True
    key = _ref_key(node)
    return key is not None and key in setnames


def _ref_key(node):
    """Name or dotted attribute / constant-subscript path usable as a variable key."""
    if isinstance(node, ast.Name):
        return node.id
    if isinstance(node, ast.Attribute):
        b = _ref_key(node.value)
        return None if b is None else b + "." + node.attr
    if isinstance(node, ast.Subscript) and isinstance(node.slice, ast.Constant):
        b = _ref_key(node.value)
        return None if b is None else f"{b}[{node.slice.value!r}]"
    return None


def _is_mutable_literal(node):
    if isinstance(node, (ast.List, ast.Dict, ast.Set, ast.ListComp, ast.DictComp, ast.SetComp)):
        return True
    if isinstance(node, ast.Call):
        f = node.func
        name = f.id if isinstance(f, ast.Name) else (f.attr if isinstance(f, ast.Attribute) else None)
        return name in {"dict", "list", "set", "defaultdict", "OrderedDict", "Counter", "deque", "bytearray"}
    return False


class _Scan(ast.NodeVisitor):
    def __init__(self, fname, tree, setdict_keys=frozenset(), global_sets=frozenset()):
        self.fname = fname
        self.tree = tree
        self.setdict_keys = setdict_keys
        self.global_sets = global_sets  # `self.X` attributes bound to sets anywhere in the scanned files
        self.entries = []  # (cat, func, stmt)
        self.scope = []  # qualified name parts
        self.stmt_stack = []
        self.parents = {}
        for p in ast.walk(tree):
            for c in ast.iter_child_nodes(p):
                self.parents[c] = p
        # module aliases of watched modules
        self.watched_alias = {}
        # module-level / class-level mutable names -> kind
        self.global_mutables = set()
        self.class_mutables = set()
        self._collect_globals()
        # set-typed names per function scope (collected lazily)
        self.setnames_stack = [set(self.global_sets)]
        self.setnames_stack = [set(self.global_sets) | self._collect_setnames(tree, module=True)]
        self.default_mutables_stack = [set()]
        self.global_decl_stack = [set()]

    # -- pre-passes ------------------------------------------------------------
    def _collect_globals(self):
        for node in self.tree.body:
            for tgt, val in _assign_pairs(node):
                if isinstance(tgt, ast.Name) and _is_mutable_literal(val):
                    self.global_mutables.add(tgt.id)
            if isinstance(node, ast.ClassDef):
                for sub in node.body:
                    for tgt, val in _assign_pairs(sub):
                        if isinstance(tgt, ast.Name) and _is_mutable_literal(val):
                            self.class_mutables.add(tgt.id)

    def _collect_setnames(self, root, module=False):
        names = set()
        changed = True
        body_nodes = list(_walk_scope(root))
        if isinstance(root, (ast.FunctionDef, ast.AsyncFunctionDef)):
            a = root.args
            pos = a.posonlyargs + a.args
            for arg, d in zip(pos[len(pos) - len(a.defaults):], a.defaults):
                if _is_set_expr(d, names):
                    names.add(arg.arg)
            for arg, d in zip(a.kwonlyargs, a.kw_defaults):
                if d is not None and _is_set_expr(d, names):
                    names.add(arg.arg)
        while changed:
            changed = False
            for node in body_nodes:
                for tgt, val in _assign_pairs(node):
                    outer = names | self._outer_setnames()
                    if isinstance(tgt, ast.Subscript) and not isinstance(tgt.slice, ast.Constant) and _is_set_expr(val, outer):
                        # D[k] = set()  ->  D is a dict of sets
                        k = _ref_key(tgt.value)
                        if k is not None and ("{}" + k) not in names:
                            names.add("{}" + k)
                            changed = True
                        continue
                    k = _ref_key(tgt)
                    if k is None:
                        continue
                    if k not in names and _is_set_expr(val, outer):
                        names.add(k)
                        changed = True
                    if ("{}" + k) not in names and _mentions_key(val, self.setdict_keys):
                        names.add("{}" + k)
                        changed = True
        return names

    def _outer_setnames(self):
        out = set()
        for s in getattr(self, "setnames_stack", []):
            out |= s
        return out

    def _setnames(self):
        return self._outer_setnames()

    # -- recording -------------------------------------------------------------
    def rec(self, cat, node=None, stmt=None):
        if stmt is None:
            st = self.stmt_stack[-1] if self.stmt_stack else node
            stmt = (_binding(st) if cat in ("module-mutable", "set-create") else None) or _header(st)
        func = ".".join(self.scope) or "<module>"
        self.entries.append((cat, func, _short(stmt)))

    # -- traversal -------------------------------------------------------------
    def visit(self, node):
        is_stmt = isinstance(node, ast.stmt)
        if is_stmt:
            self.stmt_stack.append(node)
        try:
            super().visit(node)
        finally:
            if is_stmt:
                self.stmt_stack.pop()

    def visit_ClassDef(self, node):
        for d in node.decorator_list:
            self.visit(d)
        self.scope.append(node.name)
        # class-level mutables
        for sub in node.body:
            for tgt, val in _assign_pairs(sub):
                if isinstance(tgt, ast.Name) and _is_mutable_literal(val):
                    self.stmt_stack.append(sub)
                    self.rec("module-mutable", sub)
                    self.stmt_stack.pop()
        self.setnames_stack.append(self._collect_setnames(node))
        for sub in node.body:
            self.visit(sub)
        self.setnames_stack.pop()
        self.scope.pop()

    def visit_FunctionDef(self, node):
        for d in node.decorator_list:
            name = ast.unparse(d)
            if re.search(r"\b(lru_cache|cached_property|cache)\b", name):
                self.rec("cache-decorator", node, stmt=f"@{name} def {node.name}")
            self.visit(d)
        if node.name in DUNDERS:
            self.scope.append(node.name)
            self.rec("dunder-def", node, stmt=_header(node))
            self.scope.pop()
        self.scope.append(node.name)
        a = node.args
        pos = a.posonlyargs + a.args
        dm = set()
        for arg, d in list(zip(pos[len(pos) - len(a.defaults):], a.defaults)) + [(x, y) for x, y in zip(a.kwonlyargs, a.kw_defaults) if y is not None]:
            if _is_mutable_literal(d):
                dm.add(arg.arg)
                self.rec("mutable-default", node, stmt=f"def {node.name}(... {arg.arg}={ast.unparse(d)} ...)")
                if _is_set_expr(d, set()):
                    self.rec("set-create", node, stmt=f"def {node.name}(... {arg.arg}={ast.unparse(d)} ...)")
            else:
                self.visit(d)
        self.default_mutables_stack.append(dm)
        self.global_decl_stack.append(set())
        self.setnames_stack.append(self._collect_setnames(node))
        for sub in node.body:
            self.visit(sub)
        self.setnames_stack.pop()
        self.global_decl_stack.pop()
        self.default_mutables_stack.pop()
        self.scope.pop()

    visit_AsyncFunctionDef = visit_FunctionDef

    def visit_Lambda(self, node):
        self.generic_visit(node)

    def visit_Global(self, node):
        self.rec("global-stmt", node)
        self.global_decl_stack[-1].update(node.names)

    visit_Nonlocal = visit_Global

    def visit_Import(self, node):
        for a in node.names:
            top = a.name.split(".")[0]
            if top in WATCHED:
                self.watched_alias[a.asname or top] = a.name
                self.rec("watched-import", node, stmt=f"import {a.name}")

    def visit_ImportFrom(self, node):
        mod = (node.module or "").split(".")[0]
        if node.level == 0 and mod in WATCHED:
            for a in node.names:
                self.watched_alias[a.asname or a.name] = f"{node.module}.{a.name}"
                self.rec("watched-import", node, stmt=f"from {node.module} import {a.name}")

    def visit_Assign(self, node):
        self._module_level_mutable(node)
        self._mutation_target(node.targets, node)
        self.generic_visit(node)

    def visit_AnnAssign(self, node):
        self._module_level_mutable(node)
        if node.value is not None:
            self._mutation_target([node.target], node)
        self.generic_visit(node)

    def visit_AugAssign(self, node):
        self._mutation_target([node.target], node, aug=True)
        self.generic_visit(node)

    def visit_Delete(self, node):
        self._mutation_target(node.targets, node)
        self.generic_visit(node)

    def _module_level_mutable(self, node):
        if not self.scope:
            for tgt, val in _assign_pairs(node):
                if isinstance(tgt, ast.Name) and _is_mutable_literal(val):
                    self.rec("module-mutable", node)
                    break

    def _state_root(self, node):
        """Root name of x[..]/x.attr[..] chains if it is process-global / default-arg state."""
        n = node
        via_self_class = False
        while isinstance(n, (ast.Subscript, ast.Attribute)):
            if isinstance(n, ast.Attribute) and isinstance(n.value, ast.Name) and n.value.id in ("self", "cls") and n.attr in self.class_mutables:
                via_self_class = True
                return n.attr
            n = n.value
        if isinstance(n, ast.Name):
            if n.id in self.default_mutables_stack[-1] or n.id in self.global_decl_stack[-1]:
                return n.id
            if n.id in self.global_mutables and self.scope:
                return n.id
        return None

    def _mutation_target(self, targets, node, aug=False):
        if not self.scope:
            return  # import-time code: runs once per process, before any request
        for t in targets:
            for tt in (t.elts if isinstance(t, (ast.Tuple, ast.List)) else [t]):
                if isinstance(tt, (ast.Subscript, ast.Attribute)) or (isinstance(tt, ast.Name) and tt.id in self.global_decl_stack[-1]):
                    root = self._state_root(tt) if not isinstance(tt, ast.Name) else tt.id
                    if root is not None:
                        self.rec("state-mutation", node)

    def visit_Name(self, node):
        if isinstance(node.ctx, ast.Load):
            if node.id == "id":
                self.rec("id-ref", node)
            elif node.id == "hash":
                self.rec("hash-ref", node)
            elif node.id in ("locals", "globals", "vars", "dir"):
                par = self.parents.get(node)
                if isinstance(par, ast.Call) and par.func is node:
                    self.rec("namespace-iter", node)
            elif node.id in self.watched_alias and "." in self.watched_alias[node.id]:
                # from os import environ  -> use of `environ`
                self.rec("watched-use", node, stmt=f"{self.watched_alias[node.id]} :: " + _header(self.stmt_stack[-1] if self.stmt_stack else node))

    def visit_Attribute(self, node):
        if node.attr in ("f_locals", "f_globals", "__dict__", "_getframe"):
            self.rec("namespace-iter", node)
        # watched module use:  os.environ / time.time / numpy.random
        base = node.value
        if isinstance(base, ast.Name) and base.id in self.watched_alias and "." not in self.watched_alias[base.id]:
            self.rec("watched-use", node, stmt=f"{self.watched_alias[base.id]}.{node.attr} :: " + _header(self.stmt_stack[-1] if self.stmt_stack else node))
        if node.attr == "random" and isinstance(base, ast.Name) and base.id in ("numpy", "np"):
            self.rec("watched-use", node, stmt="numpy.random :: " + _header(self.stmt_stack[-1] if self.stmt_stack else node))
        self.generic_visit(node)

    def visit_Compare(self, node):
        src = ast.unparse(node)
        if any(isinstance(op, (ast.Lt, ast.Gt, ast.LtE, ast.GtE)) for op in node.ops) and re.search(r"\.(key|intkey|_two_level_intkey)\b", src):
            self.rec("key-order", node, stmt="cmp " + src + " :: " + _header(self.stmt_stack[-1]))
        self.generic_visit(node)

    def visit_Call(self, node):
        f = node.func
        fname = f.id if isinstance(f, ast.Name) else (f.attr if isinstance(f, ast.Attribute) else None)
        setnames = self._setnames()
        # sorting with a key / sort of keys
        if fname in ("sorted", "sort", "min", "max") and any(k.arg == "key" for k in node.keywords):
            self.rec("key-order", node, stmt="sortkey " + _short(ast.unparse(node), 80) + " :: " + _header(self.stmt_stack[-1]))
        # set consumption
        args = list(node.args)
        if isinstance(f, ast.Name):
            for a in args:
                if _is_set_expr(a, setnames):
                    if f.id == "sorted":
                        self.rec("set-sorted", node)
                    elif f.id in REDUCERS:
                        if f.id in ("set", "frozenset") and self._stored(node):
                            pass  # re-wrapping: recorded as set-create by _stored handling below
                        self.rec("set-reduce", node, stmt=f"{f.id}(<set>) :: " + _header(self.stmt_stack[-1]))
                    elif f.id in ORDER_SENSITIVE_CALLS:
                        self.rec("set-iter", node, stmt=f"{f.id}(<set>) :: " + _header(self.stmt_stack[-1]))
        if isinstance(f, ast.Attribute):
            if f.attr == "join":
                for a in args:
                    if _is_set_expr(a, setnames):
                        self.rec("set-iter", node, stmt="join(<set>) :: " + _header(self.stmt_stack[-1]))
            if f.attr == "pop" and not args and _is_set_expr(f.value, setnames):
                self.rec("set-pop", node)
            if f.attr in MUTATORS and self.scope:
                root = self._state_root(f.value) if isinstance(f.value, (ast.Subscript, ast.Attribute)) else (
                    f.value.id if isinstance(f.value, ast.Name) and (f.value.id in self.default_mutables_stack[-1] or f.value.id in self.global_decl_stack[-1] or f.value.id in self.global_mutables) else None)
                if root is not None:
                    self.rec("state-mutation", node)
        # creation of a stored set object
        if isinstance(f, ast.Name) and f.id in ("set", "frozenset") and self._stored(node):
            self.rec("set-create", node)
        self.generic_visit(node)

    def visit_Set(self, node):
        if self._stored(node):
            self.rec("set-create", node)
        self.generic_visit(node)

    def visit_SetComp(self, node):
        if self._stored(node):
            self.rec("set-create", node)
        self._comprehension(node, into_set=True)
        self.generic_visit(node)

    def _stored(self, node):
        """A set object is `stored` unless it is consumed on the spot by `in` / a reducer / sorted."""
        par = self.parents.get(node)
        if isinstance(par, ast.Compare) and node in par.comparators:
            return False  # x in {...}
        if isinstance(par, ast.Call) and isinstance(par.func, ast.Name) and par.func.id in (REDUCERS | {"sorted"}) and node in par.args:
            return False
        if isinstance(par, (ast.For, ast.comprehension)) and par.iter is node:
            return False  # recorded as set-iter
        return True

    def _comprehension(self, node, into_set=False):
        setnames = self._setnames()
        for gen in node.generators:
            if _is_set_expr(gen.iter, setnames):
                par = self.parents.get(node)
                if into_set:
                    self.rec("set-reduce", node, stmt="{.. for .. in <set>} :: " + _header(self.stmt_stack[-1]))
                elif isinstance(par, ast.Call) and isinstance(par.func, ast.Name) and par.func.id == "sorted":
                    self.rec("set-sorted", node, stmt="sorted(.. for .. in <set>) :: " + _header(self.stmt_stack[-1]))
                elif isinstance(par, ast.Call) and isinstance(par.func, ast.Name) and par.func.id in REDUCERS:
                    self.rec("set-reduce", node, stmt=f"{par.func.id}(.. for .. in <set>) :: " + _header(self.stmt_stack[-1]))
                else:
                    self.rec("set-iter", node, stmt="[.. for .. in <set>] :: " + _header(self.stmt_stack[-1]))

    def visit_ListComp(self, node):
        self._comprehension(node)
        self.generic_visit(node)

    def visit_GeneratorExp(self, node):
        self._comprehension(node)
        self.generic_visit(node)

    def visit_DictComp(self, node):
        self._comprehension(node)
        self.generic_visit(node)

    def visit_For(self, node):
        if _is_set_expr(node.iter, self._setnames()):
            self.rec("set-iter", node)
        self.generic_visit(node)

    def visit_Starred(self, node):
        if _is_set_expr(node.value, self._setnames()):
            self.rec("set-iter", node, stmt="*<set> :: " + _header(self.stmt_stack[-1]))
        self.generic_visit(node)


def _mentions_key(node, keys):
    return bool(keys) and any(isinstance(n, ast.Constant) and isinstance(n.value, str) and n.value in keys for n in ast.walk(node))


def global_set_attrs(tree):
    """`self.X` keys that some method binds to a set object (subclasses in other files use them too)."""
    out = set()
    for node in ast.walk(tree):
        for tgt, val in _assign_pairs(node):
            k = _ref_key(tgt)
            if k and k.startswith("self.") and _is_set_expr(val, set()):
                out.add(k)
    return out


def setdict_keys_of(tree):
    """String keys K such that some function does  D = <expr mentioning "K">  and  D[k] = <set>."""
    keys = set()
    for fn in ast.walk(tree):
        if not isinstance(fn, (ast.FunctionDef, ast.AsyncFunctionDef)):
            continue
        dnames = set()
        for node in ast.walk(fn):
            for tgt, val in _assign_pairs(node):
                if isinstance(tgt, ast.Subscript) and not isinstance(tgt.slice, ast.Constant) and _is_set_expr(val, set()):
                    k = _ref_key(tgt.value)
                    if k:
                        dnames.add(k)
        for node in ast.walk(fn):
            for tgt, val in _assign_pairs(node):
                k = _ref_key(tgt)
                if k in dnames:
                    for n in ast.walk(val):
                        if isinstance(n, ast.Constant) and isinstance(n.value, str) and n.value.isidentifier():
                            keys.add(n.value)
                # chained  D = P["K"] = dict():  the subscript target carries the key
                if isinstance(tgt, ast.Subscript) and isinstance(tgt.slice, ast.Constant) and isinstance(tgt.slice.value, str):
                    sibs = [t for t, _ in _assign_pairs(node)]
                    if any(_ref_key(t) in dnames for t in sibs):
                        keys.add(tgt.slice.value)
    return keys


def _assign_pairs(node):
    if isinstance(node, ast.Assign):
        return [(t, node.value) for t in node.targets]
    if isinstance(node, ast.AnnAssign) and node.value is not None:
        return [(node.target, node.value)]
    return []


def _walk_scope(root):
    """Nodes of a scope, not descending into nested function/class scopes."""
    todo = list(ast.iter_child_nodes(root))
    while todo:
        n = todo.pop()
        yield n
        if isinstance(n, (ast.FunctionDef, ast.AsyncFunctionDef, ast.ClassDef, ast.Lambda)):
            continue
        todo.extend(ast.iter_child_nodes(n))


# ----------------------------------------------------------------------------- driver

def _utils_referenced(base, files):
    """Names of utils.py functions referenced from the scanned files."""
    names = set()
    for f in files:
        tree = ast.parse(open(os.path.join(base, f)).read())
        for n in ast.walk(tree):
            if isinstance(n, ast.ImportFrom) and n.module in ("utils", None) and n.level >= 1 and (n.module == "utils"):
                names.update(a.name for a in n.names)
            if isinstance(n, ast.Attribute) and isinstance(n.value, ast.Name) and n.value.id == "utils":
                names.add(n.attr)
    return names


def scan_file(base, rel, only_functions=None, setdict_keys=frozenset(), global_sets=frozenset()):
    src = open(os.path.join(base, rel)).read()
    tree = ast.parse(src)
    if only_functions is not None:
        # keep: imports, module-level assignments (for global tracking), and the named defs
        keep = []
        for node in tree.body:
            if isinstance(node, (ast.Import, ast.ImportFrom)):
                keep.append(node)
            elif isinstance(node, (ast.FunctionDef, ast.ClassDef)) and node.name in only_functions:
                keep.append(node)
            elif isinstance(node, (ast.Assign, ast.AnnAssign)):
                keep.append(node)
        tree = ast.Module(body=keep, type_ignores=[])
    sc = _Scan(rel, tree, setdict_keys, global_sets)
    sc.visit(tree)
    return [(cat, rel, func, stmt) for cat, func, stmt in sc.entries]


def census(repo):
    base, files = repo_files(repo)
    entries = []
    keys, gsets = set(), set()
    for rel in files:
        t = ast.parse(open(os.path.join(base, rel)).read())
        keys |= setdict_keys_of(t)
        gsets |= global_set_attrs(t)
    keys, gsets = frozenset(keys), frozenset(gsets)
    for rel in files:
        entries += scan_file(base, rel, setdict_keys=keys, global_sets=gsets)
    if os.path.exists(os.path.join(base, "utils.py")):
        ref = _utils_referenced(base, files)
        ents = scan_file(base, "utils.py", only_functions=ref, setdict_keys=keys, global_sets=gsets)
        # from utils.py keep only what lives inside the referenced functions/classes, plus watched imports
        entries += [e for e in ents if e[2] != "<module>" or e[0] == "watched-import"]
    # de-duplicate recordings of the very same node under one category, keep multiplicity otherwise
    entries.sort(key=lambda e: (e[1], CATS.index(e[0]), e[2], e[3]))
    out, seen = [], {}
    for e in entries:
        k = seen.get(e, 0)
        seen[e] = k + 1
        out.append(e + (k,))
    return out


def lean_string(s):
    return '"' + s.replace("\\", "\\\\").replace('"', '\\"').replace("\n", "\\n") + '"'


def entry_to_lean(e):
    cat, rel, func, stmt, occ = e
    return f"⟨.{LEAN_CAT[cat]}, {lean_string(rel)}, {lean_string(func)}, {lean_string(stmt)}, {occ}⟩"


def to_lean(entries, repo_note=""):
    lines = ["/- GENERATED by fav/props/c09_census.py from the current source of the repo under test; do not edit.",
             "   Census of nondeterminism / hidden-state sources (see the module docstring of c09_census.py). -/",
             "import FAVerif.Models.CensusTypes", "", "namespace FAVerif.Gen.C09Census", "open FAVerif.Census", "",
             "def entries : List Entry := ["]
    lines.append(",\n".join("  " + entry_to_lean(e) for e in entries))
    lines += ["]", "", "end FAVerif.Gen.C09Census", ""]
    return "\n".join(lines)


_ENTRY_RE = re.compile(r'⟨\.(\w+),\s*"((?:[^"\\]|\\.)*)",\s*"((?:[^"\\]|\\.)*)",\s*"((?:[^"\\]|\\.)*)",\s*(\d+)⟩')


def parse_lean_entries(text):
    """Entries (cat, file, func, stmt, occ) written in the ⟨.cat, "file", "func", "stmt", occ⟩ form."""
    inv = {v: k for k, v in LEAN_CAT.items()}
    out = []
    for m in _ENTRY_RE.finditer(text):
        un = lambda s: re.sub(r"\\(.)", lambda mm: {"n": "\n"}.get(mm.group(1), mm.group(1)), s)
        out.append((inv.get(m.group(1), m.group(1)), un(m.group(2)), un(m.group(3)), un(m.group(4)), int(m.group(5))))
    return out


if __name__ == "__main__":
    import sys

    ents = census(sys.argv[1] if len(sys.argv) > 1 else "/repo")
    for e in ents:
        print(e)
    print(len(ents))
