"""C11 — emulated compound operations meet their documented error bounds.

Regenerated models: next/nextup/nextdown, is_power_of_two, add_3sum, add_dw, add_4sum, dot2,
mul_add (fpa) and every fma variant (apmath.fma a7/a8/a9/apmath x fix_overflow x
possibly_zero_z; apmath_algorithms.fma_real) are traced through the repo's tracer on every run
(lean/FAVerif/Generated/C11.lean).  Theorems (Props/C11.lean): see THEOREMS.  The ULP bounds of
3Sum/4Sum/mul_add/dot2/FMA are NOT theorems (Graillat–Muller proofs; DESIGN.md section 8): they
are decided by the exact-rational search on the real functions only.
"""

import json
import warnings
from fractions import Fraction

import numpy

from .. import engine, fpx
from ..translate import blocks

THEOREMS = ["next_overflow_checks", "next_kindsS", "Lmax32_ge4", "next_up_total_f32", "is_power_of_two_total_f32", "is_power_of_two_total_f16", "is_power_of_two_total_f64", "next_up_total_f16", "next_up_total_f64", "next_down_total_f32", "next_down_checks", "next_down_total_f16", "next_down_total_f64", "generated_wf", "ties_next", "next_constant_value", "next_all_precisions", "neighbours", "next_up_generated", "is_power_of_two_all_precisions", "next_up_bit_exact_f32", "refinement_scope", "is_power_of_two_shape_f32", "is_power_of_two_bit_exact_f32",
            "is_power_of_two_shape_f16", "is_power_of_two_bit_exact_f16", "is_power_of_two_shape_f64", "is_power_of_two_bit_exact_f64",
            "next_up_generated_f16", "next_up_generated_f64", "next_up_bit_exact_f16", "next_up_bit_exact_f64"]
SEARCHED = ["is_power_of_two exact", "3Sum s+e+t = x+y+z and 1-ULP bound", "4Sum 1 ULP", "mul_add 2 ULP", "dot2 3 ULP",
            "every FMA variant within 1 ULP of RN(x*y+z)"]
TRUSTED = [
    "Lean 4 kernel; axioms propext, Classical.choice, Quot.sound only",
    "translator fav/translate/ir.py, cross-checked bit-for-bit against eager execution of the real functions each run",
    "FP/Soft.lean == machine arithmetic (validated against NumPy by C10's softcheck and by the 3-way correspondence here)",
    "exact-rational oracle fav/fpx.py (round_ne on Fractions) for the ULP clauses",
]
LEVEL_TEXT = ("Partial proof. Theorem: next(x) = nextafter(x, +-inf) for EVERY precision p>=2, every emin and any round-to-nearest: for normal x = +-k*2^e, RN(x/c) and "
              "RN(x*c) with c = 1-2^-p are the lattice neighbours (half a step at a power of two), and nothing representable lies strictly in between; lifted to the regenerated "
              "`next` programs (kernel-checked ties to the specification program, constant c checked per format) and, through the refinement theorem, to the BIT PATTERNS "
              "the regenerated `next` computes in float16/32/64 (next_up_bit_exact_*). Theorem: the identity behind is_power_of_two (D = RN(RN(Px) - RN(Qx)) equals x iff x is a power "
              "of two) for every precision and rounding, and on BIT PATTERNS for the traced programs in float16/32/64 (is_power_of_two_shape_*: the dtype dispatch folds to D == x; "
              "is_power_of_two_bit_exact_*: returns 1 iff the normal x is a power of two whenever P*x, Q*x, their difference are finite); subnormals by search. "
              "All regenerated programs are well formed. The 1/2/3-ULP bounds of 3Sum/4Sum/mul_add/dot2/FMA are decided by exact-rational search on the real functions only (not theorems).")
LEVEL_NOTE = "next and is_power_of_two are also theorems on bit patterns with no assumption about the run (next_up/next_down_total and is_power_of_two_total for float16/32/64: Props/C11Total.lean, C11Total2.lean). ULP bounds of 3Sum/4Sum/mul_add/dot2/FMA and the guarded is_power_of_two program: search only (Graillat-Muller proofs not formalised). Known finding: fix_overflow fallback of the FMA variants loses the low product word under cancellation."
TECHNIQUE = "Lean 4 proof (FP theory over Q, any precision/rounding) tied to regenerated programs + 3-way correspondence + exact-rational ULP search"

FMTS = ["float16", "float32", "float64"]
SUF = blocks.SUFFIX


def _consts(fmt):
    dt = blocks.DTYPES[fmt]
    p = fpx.FMT[fmt][0]
    return dict(Q=dt(1 << (p - 1)), P=dt((1 << (p - 1)) + 1), three_over_two=dt(1.5), C=dt(2 ** ((p + 1) // 2) + 1))


def variants():
    from functional_algorithms import apmath, apmath_algorithms
    from functional_algorithms import floating_point_algorithms as fpa
    from functional_algorithms import utils

    V = {}

    def np_ctx(fmt):
        return utils.NumpyContext(blocks.DTYPES[fmt])

    def add(name, nargs, clause, traced, eager, opts=None, fmts=None):
        V[name] = dict(nargs=nargs, clause=clause, opts=opts or {}, trace=lambda fmt: engine.trace_expr_fn(lambda ctx, *a: traced(ctx, fmt, *a), nargs, fmt),
                       eager=eager, scalar=(clause != "next"))
        if fmts:
            V[name]["fmts"] = fmts

    for up in (True, False):
        add("next_up" if up else "next_down", 1, "next",
            lambda ctx, fmt, x, up=up: fpa.next(ctx, x, dtype=blocks.DTYPES[fmt], **({} if up else dict(up=False))),
            lambda fmt, a, up=up: fpa.next(np_ctx(fmt), *a, **({} if up else dict(up=False))), opts=dict(up=up))
    for inv in (False, True):
        # (a bool-returning API cannot be traced with an explicit dtype: the dtype-agnostic path is what code generation uses)
        add("is_power_of_two" + ("_inv" if inv else ""), 1, "ispow2",
            lambda ctx, fmt, x, inv=inv: fpa.is_power_of_two(ctx, x, **(dict(invert=True) if inv else {})),
            lambda fmt, a, inv=inv: fpa.is_power_of_two(np_ctx(fmt), *a, **(dict(invert=True) if inv else {})), opts=dict(invert=inv))

    def with_consts(fn, names):
        def traced(ctx, fmt, *a):
            c = _consts(fmt)
            return fn(ctx, *a, *[ctx.constant(c[n], a[0]) for n in names])

        def eager(fmt, a):
            c = _consts(fmt)
            return fn(np_ctx(fmt), *a, *[c[n] for n in names])

        return traced, eager

    t, e = with_consts(fpa.add_3sum, ["Q", "P", "three_over_two"])
    add("add_3sum", 3, "sum3", t, e)
    t, e = with_consts(fpa.add_4sum, ["Q", "P", "three_over_two"])
    add("add_4sum", 4, "sum4", t, e)
    # add_dw is exercised through add_4sum / dot2 (its inputs must be double-word numbers)
    t, e = with_consts(fpa.mul_add, ["C", "Q", "P", "three_over_two"])
    add("mul_add", 3, "muladd", t, e)
    t, e = with_consts(fpa.dot2, ["C", "Q", "P", "three_over_two"])
    add("dot2", 4, "dot2", t, e)
    def add_generated(name, nargs, clause, traced, opts):
        """`real` = the repo's own generated NumPy implementation of the traced function."""
        V[name] = dict(nargs=nargs, clause=clause, opts=opts,
                       trace=lambda fmt: engine.trace_expr_fn(lambda ctx, *a: traced(ctx, fmt, *a), nargs, fmt),
                       eager=lambda fmt, a: engine.numpy_target_function(name, lambda ctx, *b: traced(ctx, fmt, *b), nargs, fmt)(*a))

    for alg in ("a7", "a8", "a9", "apmath"):
        for fix in (True, False):
            for pz in ((True, False) if alg == "a9" else (True,)):
                nm = f"fma_{alg}" + ("" if fix else "_nofix") + ("" if pz else "_nz")
                kw = dict(algorithm=alg, fix_overflow=fix, possibly_zero_z=pz)
                # options equal to the documented defaults (algorithm="a7", fix_overflow=True, possibly_zero_z=True) go by omission
                ckw = {k: v for k, v in kw.items() if dict(algorithm="a7", fix_overflow=True, possibly_zero_z=True)[k] != v}
                add_generated(nm, 3, "fma", lambda ctx, fmt, x, y, z, ckw=ckw: apmath.fma(ctx, x, y, z, **ckw), kw)
    for alg in ("a7", "a8", "a9", "apmath"):
        kw = dict(algorithm=alg)
        ckw = {} if alg == "a7" else kw
        add_generated(f"fma_real_{alg}", 3, "fma", lambda ctx, fmt, x, y, z, ckw=ckw: apmath_algorithms.fma_real(ctx, x, y, z, **ckw),
                      dict(kw, fix_overflow=True, possibly_zero_z=True))
    return V


def generate(ctx):
    V = variants()
    progs, errors = engine.generate(ctx, V, "C11", FMTS)
    return V, progs, errors


# ----------------------------------------------------------------------------- inputs

def gen_inputs(ctx, fmt, v, n):
    rng = ctx.rng
    p, ew, w = fpx.FMT[fmt]
    emax_f = (1 << ew) - 2
    clause = v["clause"]
    if clause in ("next", "ispow2"):
        pats = fpx.directed_patterns(rng, fmt, n)
        # powers of two and their neighbours in every binade
        extra = []
        for ef in range(0, emax_f + 1, max(1, emax_f // 60)):
            for s in (0, 1):
                b = fpx.pattern(fmt, s, ef, 0)
                extra += [b, b + 1, max(b - 1, 0) if not s else b - 1]
        return [(b,) for b in (extra + pats)[: max(n, len(extra))]]
    if clause in ("sum3", "sum4"):
        hi = emax_f - 3
        lo = 0
    elif clause in ("muladd", "dot2", "fma"):
        hi = ((1 << (ew - 1)) - 1) + ((1 << (ew - 1)) - 1) // 2 - 2  # below sqrt(largest)/2
        lo = 0
    nargs = v["nargs"]
    out = []
    if clause == "fma" and v["opts"].get("fix_overflow"):
        # products of either sign in the last binade below the overflow threshold (the fix_overflow fallback's territory)
        for _ in range(max(8, n // 6)):
            t = _overflow_edge(fmt, rng)
            if t is not None:
                out.append(t)
        # z at the top of the range with a small product that is a (near-)half-integer multiple of ulp(z) of the opposite
        # sign: the sum ties / almost ties in the last binade and every auxiliary of the 2Sums brushes the overflow threshold
        out.extend(_z_at_top(fmt, rng, max(8, n // 8)))
    if clause in ("fma", "muladd"):
        # x*y + z within a hair of a rounding TIE of the final result (either side, and exactly on it): z = (K + 1/2) ulp - x*y + delta,
        # |delta| from one unit of z's last place down to nothing.  The second-level sums of the algorithms see |w| ~ ulp/2 there, which is
        # the only place where the sign of w, the 3/2 w probe and the 9/8 - 7/8 factors decide a result two ulps apart (a first-order
        # mutant `zh - w` for `zh + w` survived without this stream)
        for _ in range(max(12, n // 5)):
            t = _near_tie(fmt, rng, lo, hi)
            if t is not None:
                out.append(t)
    for i in range(n - len(out)):
        r = rng.random()
        if r < 0.35:
            # a cluster of nearby exponents: cancellation, ties, power-of-two sums
            base = rng.randrange(max(lo, 1), hi + 1)
            t = []
            for _ in range(nargs):
                ef = max(lo, min(hi, base + rng.randrange(-p - 2, p + 3)))
                t.append(fpx.pattern(fmt, rng.getrandbits(1), ef, fpx.directed_patterns(rng, fmt, 1)[0] & ((1 << (p - 1)) - 1)))
            if clause == "fma" and rng.random() < 0.5:
                # z close to -x*y
                t[2] = _near_neg_product(fmt, t[0], t[1], rng)
            out.append(tuple(t))
        elif r < 0.45 and clause in ("fma", "muladd"):
            t = list(fpx.directed_patterns(rng, fmt, 2, lo, hi)) + [rng.choice([0, 1 << (w - 1)])]
            out.append(tuple(t))
        else:
            out.append(tuple(fpx.directed_patterns(rng, fmt, nargs, lo, hi)))
    return out


def _near_tie(fmt, rng, lo, hi):
    p, ew, w = fpx.FMT[fmt]
    if rng.random() < 0.5:
        # ULTRA-near ties, closer to the tie than the first-level error terms can see: x*y = -+(U/2)(1 - 2^-2a) with x = 1 + 2^-a,
        # y = (1 - 2^-a) U/2 (exact 2p-bit product), z = m U with a full p-bit m: x*y + z = (m -+ 1/2) U +- U 2^-(2a+1), a in [p/2, p-1]
        bias = (1 << (ew - 1)) - 1
        a = rng.randrange((p + 1) // 2, p)
        e = rng.randrange(-(bias // 3), bias // 3)              # U = 2^e
        m = rng.randrange(1 << (p - 1), 1 << p)
        sz = rng.choice([1, -1])
        sp = rng.choice([1, -1])
        X = Fraction(1) + Fraction(1, 2 ** a)
        Y = (Fraction(1) - Fraction(1, 2 ** a)) * Fraction(2) ** (e - 1) * sp
        Z = Fraction(m) * Fraction(2) ** e * sz
        if rng.random() < 0.25:
            Y = Fraction(2) ** (e - 1) * sp * rng.choice([1, 3])   # exactly on the tie (or on 3/2 U)
        xb, yb, zb = fpx.round_ne(X, fmt), fpx.round_ne(Y, fmt), fpx.round_ne(Z, fmt)
        if rng.random() < 0.5:
            xb, yb = yb, xb
        if all(fpx.is_finite(b, fmt) for b in (xb, yb, zb)) and fpx.to_fraction(xb, fmt) * fpx.to_fraction(yb, fmt) == X * Y:
            return (xb, yb, zb)
        return None
    xb, yb = fpx.directed_patterns(rng, fmt, 2, max(lo, 1), hi)
    x, y = fpx.to_fraction(xb, fmt), fpx.to_fraction(yb, fmt)
    if not x or not y:
        return None
    P = x * y
    r0 = fpx.round_ne(P, fmt)
    d = fpx.decode(r0, fmt)
    if d[0] != "fin" or d[2] == 0:
        return None
    ulp = Fraction(2) ** max(d[3] + d[2].bit_length() - p, fpx.emin(fmt))
    K = P // ulp + rng.choice([-2, -1, 0, 0, 1, 2, 3]) * rng.choice([1, 1, 1, 1 << (p // 2), (1 << (p - 2))])
    j = rng.choice([None, None] + list(range(1, p + 4)))
    delta = Fraction(0) if j is None else rng.choice([-1, 1]) * ulp / 2 ** j
    T = (K + Fraction(1, 2)) * ulp + delta
    zb = fpx.round_ne(T - P, fmt)
    if not fpx.is_finite(zb, fmt):
        return None
    z = fpx.to_fraction(zb, fmt)
    if z is None or not fpx.is_finite(fpx.round_ne(P + z, fmt), fmt):
        return None
    return (xb, yb, zb)


def _z_at_top(fmt, rng, count):
    p, ew, w = fpx.FMT[fmt]
    bias = (1 << (ew - 1)) - 1
    emax_f = (1 << ew) - 2
    top = fpx.pattern(fmt, 0, emax_f, (1 << (p - 1)) - 1)          # largest
    sign = 1 << (w - 1)
    res = []
    for _ in range(count):
        zb = top - rng.choice([0, 0, 0, 1, 2, 3, (1 << (p - 1)) - 1, rng.randrange(0, 1 << (p - 1))])
        zs = rng.getrandbits(1)
        m = rng.choice([1, 3, 5, 7, 2, 4, 9, 2 * rng.randrange(0, 40) + 1])     # product = m/2 ulp(largest) = m * 2^(emax - p)
        # x = +-m (exact small integer), y = 2^(emax_unbiased - p): pattern exponent field emax_f - p
        xb = fpx.round_ne(Fraction(m), fmt)
        yb = fpx.pattern(fmt, 0, max(1, emax_f - p), 0)
        if rng.random() < 0.3:
            xb += rng.choice([1, 2, 1 << (p // 2)])      # break the tie slightly
        ps = 1 - zs if rng.random() < 0.8 else zs        # mostly opposite sign to z
        t = (xb | (sign if ps else 0), yb, zb | (sign if zs else 0))
        x, y, z = (fpx.to_fraction(b, fmt) for b in t)
        if fpx.is_finite(fpx.round_ne(x * y, fmt), fmt) and fpx.is_finite(fpx.round_ne(x * y + z, fmt), fmt):
            res.append(t)
    return res


def _overflow_edge(fmt, rng):
    """(x, y, z) with x*y finite, of either sign, within a few half-significand units of +-largest."""
    p, ew, w = fpx.FMT[fmt]
    bias = (1 << (ew - 1)) - 1
    L = largest(fmt)
    ef = bias + rng.randrange(-(bias // 2), bias // 2 + 1)
    xb = fpx.pattern(fmt, rng.getrandbits(1), ef, fpx.directed_patterns(rng, fmt, 1)[0] & ((1 << (p - 1)) - 1))
    x = fpx.to_fraction(xb, fmt)
    if not x:
        return None
    h = (p + 1) // 2
    delta = rng.choice([Fraction(0), Fraction(1, 2 ** p), Fraction(1, 2 ** h), Fraction(1, 2 ** (h - 1)), Fraction(1, 2 ** (h + 1)),
                        Fraction(rng.randrange(1, 64), 2 ** (h + 3)), Fraction(rng.randrange(1, 64), 2 ** (p - 3))])
    yb = fpx.round_ne(L * (1 - delta) / x * rng.choice([1, -1]), fmt)
    if not fpx.is_finite(yb, fmt):
        return None
    y = fpx.to_fraction(yb, fmt)
    for _ in range(4):
        if abs(x * y) <= L:
            break
        yb -= 1  # one ulp towards zero
        y = fpx.to_fraction(yb, fmt)
    if not y or abs(x * y) > L or not fpx.is_finite(fpx.round_ne(x * y, fmt), fmt):
        return None
    k = rng.randrange(5)
    if k == 0:
        zb = 0
    elif k == 1:
        zb = 1 << (w - 1)
    elif k == 2:
        zb = fpx.directed_patterns(rng, fmt, 1, 0, bias)[0]
    elif k == 3:
        zb = _near_neg_product(fmt, xb, yb, rng)
    else:
        # moderate z pulling the sum towards zero
        zb = fpx.round_ne(-(x * y) * Fraction(rng.randrange(1, 16), 64), fmt)
    z = fpx.to_fraction(zb, fmt)
    if z is None or not fpx.is_finite(fpx.round_ne(x * y + z, fmt), fmt):
        zb = 0
    return (xb, yb, zb)


def _near_neg_product(fmt, a, b, rng):
    x, y = fpx.to_fraction(a, fmt), fpx.to_fraction(b, fmt)
    if x is None or y is None:
        return 0
    z = fpx.round_ne(-(x * y), fmt)
    if not fpx.is_finite(z, fmt):
        return 0
    z = max(0, z + rng.randrange(-2, 3))
    return z if fpx.is_finite(z, fmt) else 0


# ----------------------------------------------------------------------------- oracles

def ordinal(b, fmt):
    w = fpx.FMT[fmt][2]
    s = b >> (w - 1)
    m = b & ((1 << (w - 1)) - 1)
    return -m if s else m


def ulp_dist(a, b, fmt):
    return abs(ordinal(a, fmt) - ordinal(b, fmt))


def largest(fmt):
    p, ew, w = fpx.FMT[fmt]
    return fpx.to_fraction(((1 << ew) - 1 << (p - 1)) - 1, fmt)


def check_clause(v, fmt, ins, outs, allfin, prog):
    F = fpx.to_fraction
    clause = v["clause"]
    p, ew, w = fpx.FMT[fmt]
    xs = [F(b, fmt) for b in ins]
    if any(x is None for x in xs):
        return None
    L = largest(fmt)
    minnormal = Fraction(2) ** (fpx.emin(fmt) + p - 1)
    if clause == "next":
        (x,) = xs
        b = ins[0]
        if abs(x) < minnormal:
            return None  # subnormal or zero: outside the documented domain
        up = v["opts"]["up"]
        o = ordinal(b, fmt) + (1 if up else -1)
        nb = (abs(o)) | ((1 << (w - 1)) if o < 0 else 0)
        nx = F(nb, fmt)
        if nx is None or abs(nx) < minnormal:
            return None
        if outs[0] != nb:
            return f"next != nextafter: got {outs[0]} expected {nb}"
        return None
    if clause == "ispow2":
        (x,) = xs
        lo = {"float16": Fraction(2) ** -24, "float32": Fraction(2) ** -129, "float64": Fraction(2) ** -1074}[fmt]
        hi = {"float16": Fraction(2) ** 6, "float32": Fraction(2) ** 105, "float64": Fraction(2) ** 972}[fmt]
        if not (lo <= abs(x) < hi):
            return None
        n, d = abs(x).numerator, abs(x).denominator
        truth = (n & (n - 1)) == 0 and (d & (d - 1)) == 0 and n * d != 0 and (n == 1 or d == 1)
        if v["opts"]["invert"]:
            truth = not truth
        if int(outs[0]) != int(truth):
            return f"is_power_of_two wrong: got {outs[0]} expected {int(truth)}"
        return None
    if clause == "sum3":
        if any(abs(x) >= L / 4 for x in xs):
            return None
        if any(o == "nan" or not fpx.is_finite(o, fmt) for o in outs):
            return f"non-finite output {outs}"
        s, e, t = (F(o, fmt) for o in outs)
        exact = sum(xs)
        if s + e + t != exact:
            return f"s+e+t != x+y+z (error {s + e + t - exact})"
        et = F(fpx.round_ne(e + t, fmt), fmt)
        got = fpx.round_ne(s + et, fmt)
        d = ulp_dist(got, fpx.round_ne(exact, fmt), fmt)
        if d > 1:
            return f"s+(e+t) off by {d} ULP (> 1)"
        return None
    bound = {"sum4": 1, "muladd": 2, "dot2": 3, "fma": 1}[clause]
    if clause == "sum4":
        if any(abs(x) >= L / 4 for x in xs):
            return None
        exact = sum(xs)
    elif clause == "muladd":
        sq = _isqrt_frac(L) / 2
        if abs(xs[0]) >= sq or abs(xs[1]) >= sq or abs(xs[2]) >= L / 2:
            return None
        exact = xs[0] * xs[1] + xs[2]
    elif clause == "dot2":
        sq = _isqrt_frac(L) / 2
        if any(abs(x) >= sq for x in xs):
            return None
        exact = xs[0] * xs[1] + xs[2] * xs[3]
    else:  # fma
        exact = xs[0] * xs[1] + xs[2]
        if not fpx.is_finite(fpx.round_ne(xs[0] * xs[1], fmt), fmt):
            return None
    want = fpx.round_ne(exact, fmt)
    if not fpx.is_finite(want, fmt):
        return None
    got = outs[0]
    if got == "nan" or not fpx.is_finite(got, fmt):
        return f"non-finite result {got} for finite exact value"
    d = ulp_dist(got, want, fmt)
    if d > bound:
        if clause == "fma" and abs(xs[0] * xs[1]) > L / 2 and abs(exact) <= abs(xs[0] * xs[1]) / 4:
            # region of the fix_overflow fallback (Dekker's product would overflow: xyh = x*y, xyl = 0) combined with cancellation by z
            return f"overflow-fallback with cancellation: off by {d} ULP (> {bound}); |x*y| > largest/2 and |x*y+z| <= |x*y|/4"
        return f"off by {d} ULP (> {bound})"
    return None


def _isqrt_frac(q):
    # lower bound of sqrt(q) as a Fraction (q is a huge integer-valued Fraction here)
    import math

    return Fraction(math.isqrt(q.numerator // q.denominator))


def sig_of(name, v, fmt, fail):
    head = fail.split(":")[0].split("(")[0]
    head = "".join(ch for ch in head if not ch.isdigit()).strip()
    return f"{v['clause']}:{name}:{fmt}:{head}"


def run(ctx):
    ctx.rule = ("per (variant, dtype): directed operand tuples inside the documented domain (clusters of nearby exponents, cancellation, ties, "
                "z near -x*y, powers of two and neighbours in every binade; for the fix_overflow FMA variants also products of either sign in the last binade below the overflow "
                "threshold); non-trivial = all intermediate operations finite; distinct by operand bits")
    V, progs, errors = generate(ctx)
    broken = ctx.lean_stage(["FAVerif.Props.C11", "FAVerif.Props.C11Total", "FAVerif.Props.C11Total2"], THEOREMS)
    n_per = ctx.scale(1000, 30000)
    engine.run_variants(ctx, V, progs, errors, FMTS, gen_inputs=gen_inputs, check_clause=check_clause, n_per=n_per, broken=broken,
                        lean_every=16, sig_of=sig_of)


def replay(ctx, obj):
    rp = obj.get("replay") or {}
    if "variant" not in rp:
        print("replay names an obligation without failing input:", obj.get("obligation"))
        return 1
    V = variants()
    v = V[rp["variant"]]
    fmt = rp["fmt"]
    t = tuple(rp["inputs"])
    prog = v["trace"](fmt)
    outs_i, allfin = engine.eval_all_nodes(prog, t)
    real = engine.run_eager(v, fmt, [t])
    impl = real[0] if real else tuple(outs_i)
    fail = check_clause(v, fmt, t, list(impl), allfin, prog)
    print(dict(inputs=t, outputs=impl, failure=fail))
    return 1 if fail else 0
