"""C08 — static types equal run-time types.

Layers
  * model     lean/FAVerif/Models/Typing.lean  (hand port of Type.max / complex_part / get_type / is_complex, DAG typing)
  * theorems  lean/FAVerif/Props/C08.lean      (lattice, per-row agreement over REGENERATED tables, Typing induction)
  * tie       translator (fav/props/c08_tables.py -> lean/FAVerif/Generated/C08Tables.lean, every run):
                extensional table of the real get_type / is_complex, OBSERVED numpy dtype of every printed template,
                printed constants / argument casts, type_to_target;
              correspondences: Lean row verdicts == Python row verdicts (names every bad row);
                (i)  get_type depends only on kind and operand types  (every node of every generated / shipped graph vs the table);
                (ii) numpy's result dtype depends only on template and operand dtypes (re-sampled with fresh VALUES every run);
                whole-graph: Lean staticTy == real get_type and Lean dynTy == dtype of the value actually produced, node by node.
  * search    (independent of the Lean model) random type-directed DAGs + all shipped graphs, printed by the real numpy
              target, executed; oracle = the property itself: dtype of the value at every sub-expression == printed static
              type, debug=1 assertions do not fire, result dtype == declared.
"""

import contextlib
import io
import json
import math
import os
import re
import warnings

import numpy

from ..runner import ROOT, Infra
from . import c08_tables as T

THEOREMS = ["model_agree", "node_agree_partial", "node_agree_exact", "node_agree_fails", "leaves_agree", "uniform_rows_clean",
            "lattice", "max_closed_form", "graph_agree_abstract", "graph_agree", "asserts_never_fire", "result_dtype",
            "graph_agree_fails", "is_complex_consistent_partial", "model_check", "row_check"]
SEARCHED = [
    "aliasing of printed reference names (two constants of equal value and different like types share `constant_<v>`) — printer level, not in the typing model",
    "debug=1 checks of list-valued results (Type.asdtype instead of type_to_target)",
    "graphs containing types outside the table universe (float128 after upcast, int8/int16) and kinds without a static type",
    "all shipped algorithms for the signatures of targets/numpy.py trace_arguments: no assertion fires, result dtype as declared (executed, not proved: their graphs are also checked node by node against the table)",
]
TRUSTED = [
    "Lean 4 kernel; axioms propext, Classical.choice, Quot.sound only",
    "translator fav/props/c08_tables.py: rows are produced by the REAL Expr API / the REAL numpy Printer; row verdicts cross-checked Lean vs Python every run",
    "NumPy's result dtype of a printed template depends only on the operand dtypes (assumption (ii), re-sampled with fresh values every run; NumPy version of the environment)",
    "get_type depends only on kind and operand types (assumption (i), checked at every node of every generated and shipped graph)",
    "graph encoding real Expr DAG -> Lean `Graph` (fav/props/c08.py encode_graph), validated by the whole-graph correspondence",
]
LEVEL_TEXT = ("Proof over a regenerated finite type domain + induction over all graphs. Lean theorems: Type.max is a commutative, idempotent, "
              "associative, monotone join and complex_part/complexification are mutually inverse (all widths); the hand port of get_type / "
              "is_complex equals the real code on every row of the regenerated extensional table (kinds x operand types over boolean, "
              "integer/32/64, float/16/32/64, complex/64/128); on every well-typed row the static type equals the OBSERVED NumPy dtype "
              "except exactly the rows of 8 named deviation classes (node_agree_partial + node_agree_exact, decide over the tables); "
              "for every graph whose nodes avoid those classes static type = run-time dtype at every node, hence no debug-1 assertion "
              "fires and the result has the declared dtype (graph_agree by induction over the DAG; asserts_never_fire, result_dtype). "
              "The full statement is false of the code as written: negation witnesses (float64+complex64 typed complex64, NumPy gives "
              "complex128, ...) are proved on the tables and replayed on the real code.")
LEVEL_NOTE = ("Partial where the code deviates: 8 deviation classes of get_type/Type.max vs NumPy promotion are listed as known findings with "
              "replays; printer-level reference-name aliasing and list-result debug checks are found by search only. NumPy semantics enters as "
              "an observed table (this environment's NumPy), value-independence re-sampled each run. Shipped algorithms: executed with debug=1 "
              "and checked node by node, not proved individually.")
TECHNIQUE = ("Lean 4: lattice proofs + kernel decision over translator-regenerated get_type / NumPy-dtype tables + induction over DAGs; "
             "row/graph correspondence with the real code; type-directed random-DAG search executing the real numpy target with debug=1")

GEN_JSON = os.path.join(ROOT, ".work", "gen", "C08.json")
KNOWN_CAUSE_SIGS = set(T.SIG.values())


# ----------------------------------------------------------------------------- generation

def generate(ctx):
    with warnings.catch_warnings():
        warnings.simplefilter("ignore")
        tb = T.build_tables()
    ctx.lean.write_generated("C08Tables.lean", T.emit_lean(tb))
    os.makedirs(os.path.dirname(GEN_JSON), exist_ok=True)
    with open(GEN_JSON, "w") as f:
        json.dump(tb, f)
    return tb


# ----------------------------------------------------------------------------- real graphs from recipes

def value_of(spec):
    tag = spec[0]
    if tag == "pybool":
        return bool(spec[1])
    if tag == "pyint":
        return int(spec[1])
    if tag == "pyfloat":
        return float(spec[1])
    if tag == "pycomplex":
        return complex(float(spec[1]), float(spec[2]))
    if tag == "np":
        return getattr(numpy, spec[1])(float(spec[2]) if not spec[1].startswith("int") else int(spec[2]))
    if tag == "npc":
        return getattr(numpy, spec[1])(complex(float(spec[2]), float(spec[3])))
    if tag == "named":
        return str(spec[1])
    raise ValueError(spec)


def value_class(v):
    if isinstance(v, bool):
        return "pybool"
    if isinstance(v, str):
        return "named"
    if isinstance(v, numpy.integer):
        return "npint"
    if isinstance(v, numpy.complexfloating):
        return "npcomplex"
    if isinstance(v, numpy.floating):
        return {"float16": "npfloat16", "float32": "npfloat32"}.get(str(v.dtype), "npfloat64")
    if isinstance(v, int):
        return "pyint"
    if isinstance(v, float):
        return "pyfloat"
    if isinstance(v, complex):
        return "pycomplex"
    return None


class Built:
    """A recipe built with the real API in a fresh Context."""

    def __init__(self, recipe, force):
        import functional_algorithms as fa
        from functional_algorithms import expr as fa_expr

        self.recipe = recipe
        ctx = self.ctx = fa.Context()
        self.nodes = []
        self.args = []
        for spec in recipe["nodes"]:
            tag = spec[0]
            if tag == "sym":
                e = ctx.symbol(spec[1], spec[2]).reference(ref_name=spec[1])
                self.args.append(e)
            elif tag == "const":
                v = value_of(spec[1])
                e = ctx.constant(v, self.nodes[spec[2]]) if spec[2] is not None else ctx.constant(v)
            elif tag == "op":
                ops = [self.nodes[a] if not isinstance(a, list) else value_of(a) for a in spec[2]]
                kind = spec[1]
                if kind == "item":
                    e = ctx.item(ctx.list(ops), spec[3])
                else:
                    e = fa_expr.Expr(ctx, kind, tuple(ops))
            else:
                raise ValueError(spec)
            self.nodes.append(e)
        out = recipe["out"]
        body = ctx.list([self.nodes[i] for i in out]) if isinstance(out, list) else self.nodes[out]
        name = ctx.symbol("fav_c08_f").reference(ref_name="fav_c08_f")
        self.graph = ctx.apply(name, tuple(self.args), body)
        if recipe.get("rewrite"):
            from functional_algorithms import rewrite, targets

            self.graph = self.graph.rewrite(targets.numpy, rewrite)
        self.order = topo(self.graph.operands[-1])
        if force:
            for e in self.order:
                if e.kind not in ("symbol", "constant", "list"):
                    e.reference(force=True)


def topo(body):
    """all distinct Expr nodes below `body`, operands first"""
    from functional_algorithms.expr import Expr

    seen, order = set(), []

    def visit(e):
        if id(e) in seen:
            return
        seen.add(id(e))
        for o in e.operands:
            if isinstance(o, Expr):
                visit(o)
        order.append(e)

    visit(body)
    return order


def type_name(e):
    """static type of a real node as a table type name, or None (raises / not a scalar type)"""
    try:
        t = e.get_type()
    except Exception:
        return None
    if t.kind not in ("boolean", "integer", "float", "complex"):
        return None
    return str(t)


def row_key(e):
    """(kind, idx, operand expressions) of an operation node in table terms, or None"""
    from functional_algorithms.expr import Expr

    if e.kind in ("symbol", "constant", "list", "apply"):
        return None
    if e.kind == "item":
        cont, index = e.operands
        if cont.kind != "list" or index.kind != "constant" or not isinstance(index.operands[0], int):
            return None
        return ("item", int(index.operands[0]), list(cont.operands))
    ops = list(e.operands)
    if not all(isinstance(o, Expr) for o in ops):
        return None
    return (e.kind, 0, ops)


# ----------------------------------------------------------------------------- executing the real numpy target

@contextlib.contextmanager
def fast_format(enable):
    """black formatting (utils.format_python, semantics preserving) costs ~30 ms per graph; the bulk of the random graphs are
    printed without it, a sample and all shipped graphs with it."""
    from functional_algorithms import utils

    if not enable:
        yield
        return
    orig = utils.format_python
    utils.format_python = lambda s: s
    try:
        yield
    finally:
        utils.format_python = orig


def print_graph(graph, debug):
    from functional_algorithms import targets

    with warnings.catch_warnings():
        warnings.simplefilter("ignore")
        return graph.tostring(targets.numpy, debug=debug)


_RET = re.compile(r"^(\s*)return result\s*$", re.M)


def compile_fn(src, name, instrument):
    env = T.exec_env()
    if instrument:
        src, n = _RET.subn(lambda m: f"{m.group(1)}return (result, dict(locals()))", src)
        if n != 1:
            raise Infra("cannot instrument generated function: no unique `return result`")
    code = compile(src, "<c08-generated>", "exec")
    exec(code, env)
    return env[name], src


def call(fn, args):
    out = io.StringIO()
    with warnings.catch_warnings(), numpy.errstate(all="ignore"), contextlib.redirect_stdout(out):
        warnings.simplefilter("ignore")
        return fn(*args)


def assertion_site(exc, src):
    """the source line of the generated function on which the AssertionError was raised"""
    tb = exc.__traceback__
    line = None
    while tb is not None:
        if tb.tb_frame.f_code.co_filename == "<c08-generated>":
            line = tb.tb_lineno
        tb = tb.tb_next
    lines = src.split("\n")
    return lines[line - 1].strip() if line and 0 < line <= len(lines) else "?"


SPECIALS = [0.0, -0.0, 1.0, -1.0, 0.5, 2.0, 1e-3, 1e3, math.inf, -math.inf, math.nan, 6e4, 1e-7, 3.0e38, 1e-45, 1e300, 5e-324]


def gen_inputs(rng, symtypes, n):
    tuples = []
    for _ in range(n):
        t = []
        for ty in symtypes:
            dt = T.TY_TO_DTYPE[{"float": "float64", "complex": "complex128", "integer": "integer64"}.get(ty, ty)]

            def comp():
                return rng.choice(SPECIALS) if rng.random() < 0.45 else rng.uniform(-8, 8) * 10 ** rng.randrange(-3, 4)

            if dt.startswith("complex"):
                v = complex(comp(), comp())
            elif dt == "bool":
                v = rng.random() < 0.5
            elif dt.startswith("int"):
                v = rng.randrange(-5, 6)
            else:
                v = comp()
            t.append((dt, v))
        tuples.append(t)
    return tuples


def directed_inputs(symtypes):
    """deterministic inputs covering both orders of the operands (value-dependent dtypes: Python max/min)"""
    out = []
    for vs in T.DIRECTED[:8]:
        t = []
        for ty, v in zip(symtypes, vs):
            dt = T.TY_TO_DTYPE[{"float": "float64", "complex": "complex128", "integer": "integer64"}.get(ty, ty)]
            if dt == "bool":
                v = bool(int(v) % 2)
            elif dt.startswith("int"):
                v = int(v)
            elif dt.startswith("complex"):
                v = complex(v, -v)
            else:
                v = float(v)
            t.append((dt, v))
        out.append(t)
    return out


def materialise(inp, rng=None):
    out = []
    for dt, v in inp:
        with warnings.catch_warnings(), numpy.errstate(all="ignore"):
            warnings.simplefilter("ignore")
            out.append(getattr(numpy, dt)(v))
    return out


def inputs_to_json(inputs):
    def enc(v):
        if isinstance(v, complex):
            return ["c", repr(v.real), repr(v.imag)]
        if isinstance(v, bool):
            return ["b", v]
        if isinstance(v, int):
            return ["i", v]
        return ["f", repr(float(v))]

    return [[[dt, enc(v)] for dt, v in t] for t in inputs]


def inputs_from_json(obj):
    def dec(e):
        if e[0] == "c":
            return complex(float(e[1]), float(e[2]))
        if e[0] == "b":
            return bool(e[1])
        if e[0] == "i":
            return int(e[1])
        return float(e[1])

    return [[(dt, dec(e)) for dt, e in t] for t in obj]


# ----------------------------------------------------------------------------- the property on one real graph

class Report:
    def __init__(self):
        self.failures = []      # dict(signature, what)
        self.exec_errors = []   # strings (not violations)
        self.nodes_checked = 0
        self.table_mismatch = []  # assumption (i) failures
        self.lean_line = None
        self.observed = {}      # node index in order -> set of observed type names
        self.static = []        # per node type name
        self.collision = False
        self.kinds = set()
        self.bad_nodes = set()
        self.explained_upstream = False  # a dtype mismatch was already found (and reported) in the other printing of this graph


def check_graph(built, inputs, canon, static_lookup, fast=True, with_debug1=True, name="fav_c08_f", known_bad=(), explained=False):
    """Evaluate the property on one real graph.  Independent of the Lean model: static side = real get_type, printed side =
    real type_to_target, dynamic side = dtype of the value the real generated code produces."""
    rep = Report()
    order = built.order
    graph = built.graph
    body = graph.operands[-1]
    index = {id(e): i for i, e in enumerate(order)}
    rep.static = [type_name(e) for e in order]
    for e in order:
        rep.kinds.add(e.kind)

    # assumption (i): get_type of every node is the table entry of (kind, operand types)
    for i, e in enumerate(order):
        key = row_key(e)
        if key is None:
            continue
        k, idx, ops = key
        ots = [type_name(o) for o in ops]
        if any(t is None for t in ots):
            continue
        row = static_lookup.get((k, idx, tuple(ots)))
        if row is None:
            continue
        rep.nodes_checked += 1
        try:
            ic = bool(e.is_complex)
        except Exception:
            ic = None
        # is_complex is a function of the kind and of the OPERANDS' is_complex (which may raise for operand kinds without
        # a branch); the table rows are built over symbols, so compare it only when the operands answer as symbols would
        plain = True
        for o, t in zip(ops, ots):
            try:
                plain = plain and (bool(o.is_complex) == t.startswith("complex"))
            except Exception:
                plain = False
        if row[0] != rep.static[i] or (plain and row[1] != ic):
            rep.table_mismatch.append(dict(kind=k, idx=idx, operand_types=ots, table=row, node=[rep.static[i], ic]))

    # per-node dtypes from the instrumented debug=0 text
    try:
        with fast_format(fast):
            src0 = print_graph(graph, 0)
    except Exception as ex:
        rep.exec_errors.append(f"print:{type(ex).__name__}")
        src0 = None
    refs = {}
    if src0 is not None:
        for i, e in enumerate(order):
            if e.kind in ("list", "apply"):
                continue
            try:
                refs.setdefault(e.ref, []).append(i)
            except Exception:
                pass
        try:
            fn0, isrc = compile_fn(src0, name, True)
        except Infra:
            raise
        except Exception as ex:
            rep.exec_errors.append(f"compile:{type(ex).__name__}")
            fn0 = None
        if fn0 is not None:
            for inp in inputs:
                res = None
                try:
                    res, loc = call(fn0, materialise(inp))
                except Exception as ex:
                    rep.exec_errors.append(f"exec:{type(ex).__name__}")
                    # the values computed before the statement that raised are still judged
                    loc, tb = None, ex.__traceback__
                    while tb is not None:
                        if tb.tb_frame.f_code.co_filename == "<c08-generated>":
                            loc = dict(tb.tb_frame.f_locals)
                        tb = tb.tb_next
                    if loc is None:
                        continue
                for ref, idxs in refs.items():
                    if ref in loc and not callable(loc[ref]) and not isinstance(loc[ref], list):
                        d = T.result_name(loc[ref])
                        for i in idxs:
                            rep.observed.setdefault(i, set()).add(d)
                if res is None:
                    continue
                # the returned value(s)
                outs = list(res) if body.kind == "list" and isinstance(res, list) else [res]
                bodies = list(body.operands) if body.kind == "list" else [body]
                for r, be in zip(outs, bodies):
                    rep.observed.setdefault(index[id(be)], set()).add(T.result_name(r))

    # judge every observed node against its printed static type; report root causes only
    bad_nodes = set()
    for i, seen in sorted(rep.observed.items()):
        st = rep.static[i]
        if st is None:
            continue
        want = canon.get(st)
        if want is None:
            continue
        if seen != {want}:
            bad_nodes.add(i)
    rep.bad_nodes = set(bad_nodes)
    rep.explained_upstream = bool(known_bad) or explained
    from functional_algorithms.expr import Expr

    def inline_cause(e, depth=0):
        """known deviation class of an UNOBSERVED (inlined, or not reached before an exception) sub-expression below e"""
        for o in e.operands:
            if not isinstance(o, Expr) or o.kind in ("symbol", "constant") or index[id(o)] in rep.observed or depth > 40:
                continue
            key = row_key(o)
            if key is not None:
                ots = [type_name(x) for x in key[2]]
                if all(t is not None for t in ots) and T.wt_row(key[0], ots):
                    c = T.cause(key[0], ots, key[1])
                    if c is not None:
                        return c, f"{key[0]}({', '.join(ots)})"
            r = inline_cause(o, depth + 1)
            if r is not None:
                return r
        return None

    # tainted = some (transitive) operand already carries a wrong dtype: such a node is a consequence, not a cause
    culprit = bad_nodes | set(known_bad)
    tainted = set()
    for i, e in enumerate(order):
        opnds = [o for o in e.operands if isinstance(o, Expr)] if e.kind != "constant" else []
        if any(index[id(o)] in culprit or index[id(o)] in tainted for o in opnds):
            tainted.add(i)
    for i in sorted(bad_nodes):
        e = order[i]
        if i in tainted:
            continue  # consequence of an upstream mismatch
        seen = sorted(rep.observed[i])
        if e.kind == "constant":
            rep.collision = True
            sig = "constant-reference-name-collision:same-value-different-like-type"
            what = (f"constant {e.operands[0]!r} typed {rep.static[i]} is printed under the reference name `{e.ref}` that another "
                    f"constant of equal value and a different like type already defined: run-time dtype {seen}")
        elif e.kind == "symbol":
            sig = "argument-cast:dtype"
            what = f"argument {e.operands[0]} declared {rep.static[i]} has run-time dtype {seen}"
        else:
            key = row_key(e)
            ots = [type_name(o) for o in key[2]] if key else None
            c = T.cause(key[0], ots, key[1]) if key and ots and all(t is not None for t in ots) else None
            if c is not None and not T.wt_row(key[0], ots):
                c = None
            via = None
            if c is None:
                via = inline_cause(e)
                if via is not None:
                    c = via[0]
            if c:
                sig = T.SIG[c]
            else:
                # cause signature of an unexplained mismatch: the kind and the nature of the mismatch, not the concrete row
                sk = T.ty_tuple(rep.static[i])[0]
                oks = sorted({T.ty_tuple(x)[0] if x != "alien" else "alien" for x in seen})
                nature = f"typed-{sk}-produces-{'|'.join(oks)}" if oks != [sk] else f"{sk}-width-differs"
                sig = f"node-dtype:{e.kind}:{nature}"
            if c is None and key and ots and all(t is not None for t in ots) and not T.wt_row(key[0], ots):
                sig = "misuse:" + sig  # operand discipline violated (malformed stream); reported separately
            what = (f"node {e.kind}({', '.join(map(str, ots or []))}) has static type {rep.static[i]} "
                    f"(printed {canon.get(rep.static[i])}) but the generated NumPy code produces dtype {seen}"
                    + (f" — caused by its unobserved sub-expression {via[1]}" if via else ""))
        rep.failures.append(dict(signature=sig, what=what, node=i))

    if with_debug1:
        check_debug1(built, inputs, rep, canon, fast=fast, name=name)
    return rep


def check_debug1(built, inputs, rep, canon, fast=True, name="fav_c08_f"):
    """the emitted debug=1 function: assertions must not fire.  `rep` holds the per-node observations (forced copy)."""
    graph = built.graph
    body = graph.operands[-1]
    order = built.order
    index = {id(e): i for i, e in enumerate(order)}
    if True:
        try:
            with fast_format(fast):
                src1 = print_graph(graph, 1)
        except Exception as ex:
            src1 = None
            if body.kind == "list" and isinstance(ex, (AttributeError, TypeError)):
                rep.failures.append(dict(signature="list-result-check:Type.asdtype-instead-of-type_to_target", node=None,
                                         what=f"printing the debug=1 dtype checks of a list-valued result raises {type(ex).__name__}: {ex}"))
            else:
                rep.exec_errors.append(f"print1:{type(ex).__name__}")
        if src1 is not None:
            try:
                fn1, _ = compile_fn(src1, name, False)
            except Exception as ex:
                rep.exec_errors.append(f"compile1:{type(ex).__name__}")
                fn1 = None
            for inp in inputs if fn1 is not None else []:
                try:
                    res = call(fn1, materialise(inp))
                except AssertionError as ex:
                    site = assertion_site(ex, src1)
                    if body.kind == "list" and "result[" in site:
                        bt = [type_name(b) for b in body.operands]
                        m = re.search(r"result\[(\d+)\]", site)
                        j = int(m.group(1)) if m else 0
                        got = sorted(rep.observed.get(index[id(body.operands[j])], [])) if j < len(body.operands) and len(rep.static) == len(order) else []
                        if j < len(bt) and bt[j] is not None and got == [canon.get(bt[j])]:
                            rep.failures.append(dict(signature="list-result-check:Type.asdtype-instead-of-type_to_target", node=None,
                                                     what=f"debug=1 assertion `{site}` fires although the value has the declared dtype {got}"))
                            continue
                    if rep.failures:
                        rep.failures[0].setdefault("assertion", f"{site}  ({ex})")
                    elif not rep.explained_upstream:
                        rep.failures.append(dict(signature="debug1-assertion:unattributed", node=None,
                                                 what=f"debug=1 assertion fired: `{site}` ({ex})"))
                except Exception as ex:
                    rep.exec_errors.append(f"exec1:{type(ex).__name__}")


# ----------------------------------------------------------------------------- Lean encoding of a real graph

def encode_graph(order):
    """line for Drivers/Typing.lean, plus the map node position in `order` -> Lean node index (list nodes are skipped)"""
    from functional_algorithms.expr import Expr

    pos, cells = {}, []
    for i, e in enumerate(order):
        if e.kind == "list":
            continue
        if e.kind == "symbol":
            t = type_name(e)
            if t is None:
                return None, None
            cells.append(f"s:{t}")
        elif e.kind == "constant":
            v, like = e.operands
            vc = value_class(v)
            if vc is None or id(like) not in pos:
                return None, None
            cells.append(f"c:{vc}:{pos[id(like)]}")
        else:
            key = row_key(e)
            if key is None or key[0] not in T.LEAN_KINDS:
                return None, None
            if any(id(o) not in pos for o in key[2]):
                return None, None
            cells.append(f"o:{key[0]}:{key[1]}:{','.join(str(pos[id(o)]) for o in key[2])}")
        pos[id(e)] = len(cells) - 1
    return ";".join(cells), pos


# ----------------------------------------------------------------------------- random type-directed graphs

SYMTYPES = ["float16", "float32", "float64", "complex64", "complex128"]
UNARY_ANY = ["negative", "positive", "square", "sqrt", "exp", "log", "log1p", "sin", "cos", "tan", "sinh", "cosh", "tanh", "asin", "acos",
             "atan", "asinh", "acosh", "atanh", "exp2", "expm1", "log2", "log10", "absolute", "conjugate", "real", "imag"]
UNARY_REAL = ["ceil", "floor", "sign", "is_finite"]
BIN_ANY = ["add", "subtract", "multiply", "divide", "pow"]
BIN_REAL = ["maximum", "minimum", "atan2", "hypot", "copysign"] * 8 + ["remainder"]  # the numpy `remainder` template (`%%`) is not Python
CMP_REAL = ["lt", "le", "gt", "ge"]
CMP_ANY = ["eq", "ne"]
UNTYPED = ["floor_divide", "truncate", "nextafter"]


def is_kind(t, *kinds):
    return t is not None and T.ty_tuple(t)[0] in kinds


def gen_value_spec(rng, like_type):
    """a constant value of a mixed value class, plausible for the like type (None = no like)"""
    k = T.ty_tuple(like_type)[0] if like_type else rng.choice(["float", "float", "integer", "complex", "boolean"])
    r = rng.random()
    small = rng.choice(["0.5", "1.5", "2.0", "3.0", "0.0", "-1.0", "0.1", "1e-3", "100.0"])
    if k == "boolean":
        return ["pybool", rng.random() < 0.5]
    if k == "integer":
        return rng.choice([["pyint", rng.randrange(-3, 9)], ["np", "int64", str(rng.randrange(0, 9))], ["np", "int32", str(rng.randrange(0, 9))]])
    if k == "complex" and r < 0.5:
        return rng.choice([["pycomplex", small, "1.0"], ["npc", "complex64", small, "-2.0"], ["npc", "complex128", "0.0", small]])
    if r < 0.30:
        return ["pyint", rng.randrange(-3, 9)]
    if r < 0.62:
        return ["pyfloat", rng.choice([small, small, "inf", "-inf", "1e-310", "1e30"])]
    if r < 0.80:
        return ["np", rng.choice(["float16", "float32", "float64"]), small]
    if r < 0.92:
        return ["named", rng.choice(["eps", "largest", "smallest", "pi", "posinf", "neginf", "nan", "smallest_subnormal"])]
    return ["pybool", rng.random() < 0.5]


def gen_recipe(rng, size, mode):
    """Random recipe, built incrementally against the real API so that operand choices are type directed."""
    import functional_algorithms as fa
    from functional_algorithms import expr as fa_expr

    fam = rng.choice([16, 32, 32, 64, 64])
    if mode == "uniform":
        base = [f"float{fam}"] + ([f"complex{2 * fam}"] * (rng.random() < 0.6) if fam > 16 else [])
    else:
        base = SYMTYPES
    nsym = rng.randrange(1, 5)
    nodes, types = [], []
    ctx = fa.Context()
    real_nodes = []

    def push(spec, e):
        nodes.append(spec)
        real_nodes.append(e)
        types.append(type_name(e))
        return len(nodes) - 1

    for j in range(nsym):
        t = rng.choice(base)
        push(["sym", f"x{j}", t], ctx.symbol(f"x{j}", t))

    def pick(pred, recent_bias=True):
        c = [i for i, t in enumerate(types) if pred(t)]
        if not c:
            return None
        if recent_bias and rng.random() < 0.5:
            return c[-1 - min(len(c) - 1, int(rng.expovariate(0.7)))]
        return rng.choice(c)

    numeric = lambda t: is_kind(t, "float", "complex", "integer")
    realt = lambda t: is_kind(t, "float", "integer")
    floatt = lambda t: is_kind(t, "float")
    cplx = lambda t: is_kind(t, "complex")
    boolt = lambda t: is_kind(t, "boolean")
    anyt = lambda t: t is not None

    def operand(pred):
        """an existing node, or a fresh constant (like an existing node / default like), or a python literal"""
        r = rng.random()
        if r < 0.72:
            return pick(pred)
        if r < 0.90:
            l = pick(pred)
            if l is None:
                return None
            spec = ["const", gen_value_spec(rng, types[l]), l]
            try:
                with warnings.catch_warnings():
                    warnings.simplefilter("ignore")
                    e = ctx.constant(value_of(spec[1]), real_nodes[l])
            except Exception:
                return pick(pred)
            return push(spec, e)
        if r < 0.96:
            spec = ["const", gen_value_spec(rng, None), None]
            try:
                with warnings.catch_warnings():
                    warnings.simplefilter("ignore")
                    e = ctx.constant(value_of(spec[1]))
            except Exception:
                return pick(pred)
            i = push(spec, e)
            return i if pred(types[i]) or rng.random() < 0.3 else pick(pred)
        return ["pyfloat", rng.choice(["2.0", "0.5", "1.5"])] if rng.random() < 0.6 else ["pyint", rng.randrange(1, 5)]

    tries = 0
    while len(nodes) < size and tries < size * 10:
        tries += 1
        malformed = rng.random() < 0.04
        r = rng.random()
        spec = None
        P = anyt if malformed else None
        if r < 0.24:
            k = rng.choice(UNARY_ANY)
            pred = P or (cplx if k in ("real", "imag", "conjugate") and rng.random() < 0.7 and pick(cplx) is not None else
                         (lambda t: is_kind(t, "float", "complex")))
            spec = ["op", k, [operand(pred)]]
        elif r < 0.30:
            spec = ["op", rng.choice(UNARY_REAL), [operand(P or floatt)]]
        elif r < 0.56:
            k = rng.choice(BIN_ANY)
            spec = ["op", k, [operand(P or numeric), operand(P or numeric)]]
        elif r < 0.66:
            spec = ["op", rng.choice(BIN_REAL), [operand(P or floatt), operand(P or floatt)]]
        elif r < 0.74:
            spec = ["op", rng.choice(CMP_REAL), [operand(P or realt), operand(P or realt)]]
        elif r < 0.78:
            spec = ["op", rng.choice(CMP_ANY), [operand(P or numeric), operand(P or numeric)]]
        elif r < 0.82:
            k = rng.choice(["logical_and", "logical_or", "logical_not"])
            spec = ["op", k, [operand(P or boolt) for _ in range(1 if k == "logical_not" else 2)]]
        elif r < 0.90:
            c = pick(P or boolt)
            spec = ["op", "select", [c, operand(P or numeric), operand(P or numeric)]]
        elif r < 0.94:
            f3264 = lambda t: t in ("float32", "float64", "float")
            spec = ["op", "complex", [operand(P or f3264), operand(P or f3264)]]
        elif r < 0.965:
            k = rng.choice(["upcast", "downcast"])
            pred = (lambda t: t in ("float16", "float32", "complex64")) if k == "upcast" else (lambda t: t in ("float32", "float64", "complex128"))
            spec = ["op", k, [pick(P or pred)]]
        elif r < 0.997:
            spec = ["op", "item", [pick(P or numeric), pick(P or numeric)], rng.randrange(2)]
        else:
            # kinds the numpy target prints but get_type has no branch for: reachable only below a boolean-typed comparison
            k = rng.choice(UNTYPED)
            n = T.ARITY[k]
            inner = ["op", k, [pick(floatt) for _ in range(n)]]
            if any(a is None for a in inner[2]):
                continue
            try:
                with warnings.catch_warnings():
                    warnings.simplefilter("ignore")
                    e0 = fa_expr.Expr(ctx, k, tuple(real_nodes[a] for a in inner[2]))
            except Exception:
                continue
            j = push(inner, e0)
            spec = ["op", rng.choice(CMP_REAL), [j, pick(floatt)]]
        if any(a is None for a in spec[2]):
            continue
        if not any(isinstance(a, int) for a in spec[2]):
            continue
        try:
            with warnings.catch_warnings():
                warnings.simplefilter("ignore")
                ops = [real_nodes[a] if isinstance(a, int) else value_of(a) for a in spec[2]]
                if spec[1] == "item":
                    e = ctx.item(ctx.list(ops), spec[3])
                else:
                    e = fa_expr.Expr(ctx, spec[1], tuple(ops))
        except Exception:
            continue
        push(spec, e)
    # fold the loose ends (operation nodes nobody uses) into one result, so that most of the DAG is reachable from the output
    used = set()
    for sp in nodes:
        if sp[0] == "op":
            used.update(a for a in sp[2] if isinstance(a, int))
        elif sp[0] == "const" and sp[2] is not None:
            used.add(sp[2])
    loose = [i for i, sp in enumerate(nodes) if sp[0] == "op" and i not in used and types[i] is not None]
    acc = None
    for i in loose:
        if acc is None:
            acc = i
            continue
        ta, ti = types[acc], types[i]
        if boolt(ti) and numeric(ta):
            spec = ["op", "select", [i, acc, acc]] if rng.random() < 0.5 else ["op", "select", [i, acc, pick(numeric) or acc]]
        elif boolt(ta) and numeric(ti):
            spec = ["op", "select", [acc, i, i]]
        elif boolt(ta) and boolt(ti):
            spec = ["op", rng.choice(["logical_and", "logical_or"]), [acc, i]]
        else:
            spec = ["op", rng.choice(["add", "multiply", "subtract"]), [acc, i]]
        try:
            with warnings.catch_warnings():
                warnings.simplefilter("ignore")
                e = fa_expr.Expr(ctx, spec[1], tuple(real_nodes[a] for a in spec[2]))
        except Exception:
            continue
        acc = push(spec, e)
    numeric_nodes = [i for i, t in enumerate(types) if t is not None and nodes[i][0] == "op"]
    if not numeric_nodes or acc is None:
        return None
    if rng.random() < 0.08:
        out = sorted(set([acc] + [rng.choice(numeric_nodes) for _ in range(rng.randrange(1, 3))]))
    else:
        out = acc
    return dict(nodes=nodes, out=out, rewrite=rng.random() < 0.25, mode=mode)


def recipe_symtypes(recipe):
    return [n[2] for n in recipe["nodes"] if n[0] == "sym"]


# ----------------------------------------------------------------------------- run

def lookups(tb):
    canon = dict(tb["canon"])
    static_lookup = {(k, i, tuple(a)): (ty, ic) for k, i, a, ty, ic in tb["static"]}
    obs_lookup = {(k, i, tuple(a)): o for k, i, a, o in tb["np"]}
    return canon, static_lookup, obs_lookup


def rows_stage(ctx, tb, broken):
    """Python verdict on every row, and the same verdicts from the Lean driver (names each bad row)."""
    canon, static_lookup, obs_lookup = lookups(tb)
    bad_rows, disagree_by_cause = [], {}
    py = []
    for k, i, args, ty, ic in tb["static"]:
        st, obs = T.row_status(ty, canon, args, obs_lookup, k, i)
        wt = T.wt_row(k, args)
        c = T.cause(k, args, i)
        ok = True
        if wt and st == "disagree" and c is None:
            ok = False
        if wt and st == "agree" and c is not None:
            ok = False
        py.append((k, i, args, ty, ic, st, wt, c, ok, obs))
        ctx.case(key=("row", k, i, tuple(args)), nontrivial=st in ("agree", "disagree"))
        ctx.count("row-status:" + st)
        if wt and st == "disagree":
            disagree_by_cause.setdefault(c, []).append((k, i, args, ty, obs))
        if not ok:
            bad_rows.append(dict(kind=k, idx=i, operand_types=args, static=ty, observed=obs, status=st, expected_cause=c))
    out = ctx.lean.driver("Typing", [], args=("rows",))
    lean_bad, mism = [], 0
    if len(out) != len(py):
        broken.append(ctx.broken("correspondence:rows-driver", f"driver printed {len(out)} rows, table has {len(py)}"))
    else:
        for line, (k, i, args, ty, ic, st, wt, c, ok, obs) in zip(out, py):
            f = dict(p.split("=", 1) for p in line.split()[3:])
            head = line.split()[:3]
            exp_head = [k, str(i), ",".join(args)]
            sig = T.SIG[c] if c else "-"
            if head != exp_head or f["status"] != st or f["wt"] != ("1" if wt else "0") or f["cause"] != sig or f["table"] != (ty or "-"):
                mism += 1
                if mism <= 3:
                    broken.append(ctx.broken("correspondence:rows-lean-vs-python", f"lean: {line}\npython: {exp_head} status={st} wt={wt} cause={sig} table={ty}"))
            if f["ok"] != "1":
                lean_bad.append(line)
            ctx.traces_validated += 1
    ctx.obligation("correspondence: Lean row verdict (status, wt, cause) == Python row verdict on every row", mism == 0 and len(out) == len(py), kind="correspondence")
    ctx.notes["rows"] = dict(static=len(tb["static"]), observed=len(tb["np"]), consts=len(tb["consts"]),
                             disagree={(T.SIG[c] if c else "UNEXPLAINED"): len(v) for c, v in disagree_by_cause.items()})
    # named per-row obligations (only the interesting ones are listed one by one)
    for b in bad_rows[:40]:
        nm = f"row:{b['kind']}({','.join(b['operand_types'])})"
        ctx.obligation(nm, False, kind="row")
    for line in lean_bad[:40]:
        ctx.obligation("lean-row:" + " ".join(line.split()[:3]), False, kind="row")
    ctx.obligation(f"rows: {len(py)} static rows judged; well-typed disagreeing rows all carry a known cause and vice versa", not bad_rows, kind="row")
    return py, bad_rows, lean_bad, disagree_by_cause


def row_replay(k, idx, args):
    """Recipe confirming one disagreeing row END TO END on the real code: the function consisting of that single node."""
    nodes = [["sym", f"x{j}", t] for j, t in enumerate(args)]
    n = len(args)
    if k == "item":
        nodes.append(["op", "item", list(range(n)), idx])
    else:
        nodes.append(["op", k, list(range(n))])
    return dict(nodes=nodes, out=n, rewrite=False, mode="row")


def run_recipe(ctx, recipe, inputs, tables_pack, force=True, fast=True):
    canon, static_lookup, obs_lookup = tables_pack
    with warnings.catch_warnings(), contextlib.redirect_stdout(io.StringIO()):
        warnings.simplefilter("ignore")
        built = Built(recipe, True)  # every operation node referenced: every sub-expression is observed
    rep = check_graph(built, inputs, canon, static_lookup, fast=fast, with_debug1=force)
    if not force:
        # the natural printing (references only where the printer needs them): same clauses on the nodes it names, and its
        # own debug=1 assertions (which values share a printed name depends on the printing order, so this is a separate run)
        with warnings.catch_warnings(), contextlib.redirect_stdout(io.StringIO()):
            warnings.simplefilter("ignore")
            natural = Built(recipe, False)
        if len(natural.order) != len(built.order):
            return built, rep
        rep2 = check_graph(natural, inputs, canon, static_lookup, fast=fast, with_debug1=True, known_bad=rep.bad_nodes,
                           explained=bool(rep.failures))
        have = {f["signature"] for f in rep.failures}
        rep.failures.extend(f for f in rep2.failures if f["signature"] not in have)
        rep.exec_errors.extend(rep2.exec_errors)
        rep.collision = rep.collision or rep2.collision
    return built, rep


def report_failures(ctx, rep, recipe, inputs, force, item=None, origin="generated"):
    n = 0
    for f in rep.failures:
        sig = f["signature"]
        if sig.startswith("misuse:"):
            ctx.count("misuse-node-mismatch")
            continue
        n += 1
        ctx.violation(sig, f["what"] + (f"; debug=1: {f['assertion']}" if f.get("assertion") else ""),
                      dict(recipe=recipe, inputs=inputs_to_json(inputs), force_refs=force, origin=origin, failure=f["what"]), broken_item=item)
        ctx.count("violation:" + sig.split("(")[0])
    return n


def shipped_graphs():
    from functional_algorithms import targets

    out = []
    for name, sigs in targets.numpy.trace_arguments.items():
        for sig in sigs:
            out.append((name, tuple(sig)))
    return out


def run_shipped(ctx, tables_pack, broken, lean_lines, lean_meta):
    import functional_algorithms as fa
    from functional_algorithms import algorithms, rewrite, targets

    canon, static_lookup, obs_lookup = tables_pack
    nfail = 0
    for name, sig in shipped_graphs():
        with warnings.catch_warnings():
            warnings.simplefilter("ignore")
            try:
                with contextlib.redirect_stdout(io.StringIO()):
                    c = fa.Context(paths=[algorithms])
                    g = c.trace(getattr(algorithms, name), *sig)
                    g2 = g.rewrite(targets.numpy, rewrite)
            except Exception as ex:
                ctx.count(f"shipped-trace-error:{type(ex).__name__}")
                continue

        class B:
            pass

        b = B()
        b.graph, b.order, b.recipe = g2, topo(g2.operands[-1]), None
        fname = g2.operands[0].operands[0]
        symtypes = [str(a.operands[1]) for a in g2.operands[1:-1]]
        inputs = gen_inputs(ctx.rng, symtypes, ctx.scale(6, 40))
        # (1) the real as_function at debug=1 (black formatted, exactly as the tests call it)
        try:
            with warnings.catch_warnings():
                warnings.simplefilter("ignore")
                fn = targets.numpy.as_function(g2, debug=1)
        except Exception as ex:
            fn = None
            broken.append(ctx.broken(f"shipped:{name}{sig}:print", f"{type(ex).__name__}: {ex}"))
        want = canon.get(type_name(g2.operands[-1]) or "")
        for inp in inputs if fn is not None else []:
            ctx.case(key=("shipped", name, sig, repr(inp)), nontrivial=True)
            try:
                r = call(fn, materialise(inp))
                got = T.result_name(r)
                if want is not None and got != want:
                    nfail += 1
                    ctx.violation(f"shipped:{name}:result-dtype", f"{name}{sig}: declared {want}, returned dtype {got}",
                                  dict(shipped=name, signature=list(sig), inputs=inputs_to_json([inp])))
            except AssertionError as ex:
                nfail += 1
                ctx.violation(f"shipped:{name}:debug1-assertion", f"{name}{sig}: debug=1 assertion fired: {ex}",
                              dict(shipped=name, signature=list(sig), inputs=inputs_to_json([inp])))
            except Exception as ex:
                ctx.count(f"shipped-exec-error:{type(ex).__name__}")
        # (2) every node (forced references, instrumented) + assumption (i) + Lean correspondence
        for e in b.order:
            if e.kind not in ("symbol", "constant", "list"):
                e.reference(force=True)
        rep = check_graph(b, inputs[:3], canon, static_lookup, fast=True, with_debug1=False, name=fname)
        ctx.count("shipped-graphs")
        ctx.count("shipped-nodes", len(b.order))
        for mm in rep.table_mismatch[:2]:
            broken.append(ctx.broken("correspondence:get_type-depends-only-on-kind-and-operand-types", json.dumps(dict(shipped=name, sig=sig, **mm), default=str)))
        for f in rep.failures:
            nfail += 1
            ctx.violation(f["signature"], f"shipped {name}{sig}: " + f["what"], dict(shipped=name, signature=list(sig), failure=f["what"]))
        line, pos = encode_graph(b.order)
        if line is not None:
            lean_lines.append(line)
            lean_meta.append(dict(origin=f"shipped:{name}{sig}", order=b.order, pos=pos, rep=rep))
    return nfail


def lean_graph_stage(ctx, lean_lines, lean_meta, canon, broken):
    """whole-graph correspondence: Lean staticTy == real get_type, Lean dynTy == dtype actually produced"""
    if not lean_lines:
        return
    out = ctx.lean.driver("Typing", lean_lines)
    if len(out) != len(lean_lines):
        raise Infra(f"Typing driver returned {len(out)} lines for {len(lean_lines)} graphs")
    smis = dmis = 0
    covered_ok = covered_bad = 0
    for line, meta, res in zip(lean_lines, lean_meta, out):
        if res == "bad-graph":
            smis += 1
            if smis <= 2:
                broken.append(ctx.broken("correspondence:lean-graph-parse", line[:500]))
            continue
        cells = res.split(" ")
        order, pos, rep = meta["order"], meta["pos"], meta["rep"]
        ctx.traces_validated += 1
        all_cov = True
        for i, e in enumerate(order):
            if id(e) not in pos:
                continue
            st, dy, cv = cells[pos[id(e)]].split("/")
            real = rep.static[i]
            if real is not None and T.ty_tuple(real)[1] not in (None, 1, 8, 16, 32, 64, 128, 256, 512):
                real = None
            if (real or "-") != st:
                smis += 1
                if smis <= 3:
                    broken.append(ctx.broken("correspondence:lean-staticTy-vs-get_type",
                                             json.dumps(dict(origin=meta["origin"], node=i, kind=e.kind, lean=st, real=real, graph=line[:800]))))
            seen = rep.observed.get(i)
            if cv != "1":
                all_cov = False
            if seen and dy != "-" and not rep.collision:
                if seen != {dy}:
                    dmis += 1
                    if dmis <= 3:
                        broken.append(ctx.broken("correspondence:lean-dynTy-vs-observed-dtype",
                                                 json.dumps(dict(origin=meta["origin"], node=i, kind=e.kind, lean=dy, observed=sorted(seen), graph=line[:800]))))
        # a graph the Lean side calls covered must have produced no failure (graph_agree, executed)
        if all_cov:
            covered_ok += 1
            if any(not f["signature"].startswith(("misuse:", "constant-reference", "list-result-check")) for f in rep.failures):
                covered_bad += 1
                broken.append(ctx.broken("correspondence:covered-graph-violates", json.dumps(dict(origin=meta["origin"], failures=[f["what"] for f in rep.failures], graph=line[:800]))))
    ctx.notes["graphs_sent_to_lean"] = len(lean_lines)
    ctx.notes["graphs_covered_by_theorem"] = covered_ok
    ctx.obligation("correspondence: Lean staticTy == real get_type at every node of every graph", smis == 0, kind="correspondence")
    ctx.obligation("correspondence: Lean dynTy (observed tables) == dtype of the value produced, at every observed node", dmis == 0, kind="correspondence")
    ctx.obligation("graph_agree executed: no covered graph shows a dtype mismatch on the real code", covered_bad == 0, kind="correspondence")


def resample_stage(ctx, tb, broken):
    """assumption (ii): result dtypes do not depend on the VALUES — re-sample every row with fresh seeded values"""
    canon, static_lookup, obs_lookup = lookups(tb)
    vts = [tuple(T.random_values(ctx.rng, 3)) for _ in range(ctx.scale(6, 40))]
    with warnings.catch_warnings():
        warnings.simplefilter("ignore")
        rows, _ = T.np_rows(tb["declared"], canon, value_tuples=vts)
    bad = 0
    for k, i, args, seen in rows:
        base = obs_lookup.get((k, i, tuple(args)))
        ctx.case(key=("resample", k, i, tuple(args)), nontrivial=bool(seen))
        if base is None:
            continue
        if not set(seen) <= set(base) or (len(base) == 1 and seen and seen != base):
            bad += 1
            if bad <= 3:
                broken.append(ctx.broken("correspondence:numpy-dtype-depends-only-on-operand-dtypes",
                                         json.dumps(dict(kind=k, idx=i, dtypes=args, table=base, resampled=seen))))
        ctx.traces_validated += 1
    extra = dict(pyint=[ctx.rng.randrange(-10 ** 6, 10 ** 6) for _ in range(3)],
                 pyfloat=[ctx.rng.uniform(-1e3, 1e3) for _ in range(3)] + [ctx.rng.choice([1e-320, 1e308, -0.0])],
                 npfloat32=[numpy.float32(ctx.rng.uniform(-9, 9))], npfloat64=[numpy.float64(ctx.rng.uniform(-9, 9))],
                 pycomplex=[complex(ctx.rng.uniform(-3, 3), ctx.rng.uniform(-3, 3))])
    with warnings.catch_warnings():
        warnings.simplefilter("ignore")
        crows = T.const_rows(canon, extra_values=extra)
    base = {(vc, lt): (ty, obs) for vc, lt, ty, obs in tb["consts"]}
    for vc, lt, ty, obs in crows:
        b = base.get((vc, lt))
        if b is None or not set(obs) >= set(b[1]) or len(set(obs)) > max(1, len(b[1])):
            bad += 1
            broken.append(ctx.broken("correspondence:constant-dtype-depends-only-on-like-type", json.dumps(dict(vc=vc, like=lt, table=b, resampled=obs))))
        ctx.traces_validated += 1
    ctx.obligation("correspondence (ii): NumPy result dtype depends only on template and operand dtypes (re-sampled values)", bad == 0, kind="correspondence")


def run(ctx):
    ctx.rule = ("rows: every (kind, operand-type tuple) of the regenerated tables; graphs: seeded type-directed random DAGs (sharing, mixed "
                "constants, uniform and mixed symbol dtypes) + all shipped graphs, printed by the real numpy target and executed on special + "
                "random inputs; non-trivial = row that produces a value / graph with >= 4 operation nodes that executed; distinct by row key / recipe")
    tb = generate(ctx)
    broken = ctx.lean_stage(["FAVerif.Props.C08"], THEOREMS)
    for p in tb["problems"]:
        broken.append(ctx.broken("translate:" + p[:60], p))
    tables_pack = lookups(tb)
    canon = tables_pack[0]

    py, bad_rows, lean_bad, disagree_by_cause = rows_stage(ctx, tb, broken)
    resample_stage(ctx, tb, broken)

    # --- end-to-end confirmation of the table-level findings: one replay per cause class (and every unexplained row)
    confirm = []
    for c, rows in disagree_by_cause.items():
        sel = rows if c is None else rows[:1] + ([r for r in rows if all(not a.startswith(("integer", "boolean")) and T.ty_tuple(a)[1] for a in r[2])][:1])
        for (k, i, args, ty, obs) in sel[:12]:
            confirm.append((c, k, i, args, ty, obs))
    row_item = None
    if bad_rows or lean_bad:
        row_item = ctx.broken("rows:unexplained-disagreement", json.dumps(bad_rows[:10]) + "\n" + "\n".join(lean_bad[:10]))
        broken.append(row_item)
    for c, k, i, args, ty, obs in confirm:
        recipe = row_replay(k, i, args)
        inputs = directed_inputs(args) + gen_inputs(ctx.rng, args, 3)
        try:
            built, rep = run_recipe(ctx, recipe, inputs, tables_pack, force=True)
        except Infra:
            raise
        except Exception as ex:
            ctx.count(f"row-replay-error:{type(ex).__name__}")
            continue
        ctx.case(key=("row-replay", k, i, tuple(args)), nontrivial=True)
        n = report_failures(ctx, rep, recipe, inputs, True, item=row_item if c is None else None, origin="table-row")
        if c is not None and n == 0:
            broken.append(ctx.broken(f"row-replay:{k}({','.join(args)})", "the table row disagrees but the real debug=1 function does not fail"))

    # --- corpus, then random graphs
    lean_lines, lean_meta = [], []
    recipes = []
    cdir = os.path.join(ROOT, "corpus", "C08")
    if os.path.isdir(cdir):
        for fn in sorted(os.listdir(cdir)):
            if fn.endswith(".json"):
                obj = json.load(open(os.path.join(cdir, fn)))
                recipes.append((obj["recipe"], inputs_from_json(obj["inputs"]) if obj.get("inputs") else None, obj.get("force_refs", True), "corpus:" + fn))
    n_graphs = ctx.scale(3600, 60000)
    for g in range(n_graphs):
        mode = "uniform" if ctx.rng.random() < 0.55 else "mixed"
        size = ctx.rng.choice([5, 8, 12, 18, 28, 40])
        with warnings.catch_warnings():
            warnings.simplefilter("ignore")
            rc = gen_recipe(ctx.rng, size, mode)
        if rc is None:
            continue
        recipes.append((rc, None, ctx.rng.random() < 0.7, "generated"))
    executed = 0
    i_mis = 0
    for n, (rc, inputs, force, origin) in enumerate(recipes):
        if inputs is None:
            inputs = gen_inputs(ctx.rng, recipe_symtypes(rc), 3)
        fast = not (n % 25 == 0)
        try:
            built, rep = run_recipe(ctx, rc, inputs, tables_pack, force=force, fast=fast)
        except Infra:
            raise
        except Exception as ex:
            ctx.count(f"build-error:{type(ex).__name__}")
            continue
        nops = sum(1 for e in built.order if e.kind not in ("symbol", "constant", "list"))
        ran = bool(rep.observed)
        executed += ran
        ctx.case(key=json.dumps(rc, sort_keys=True), nontrivial=ran and nops >= 4)
        ctx.count("graphs:" + rc.get("mode", "?") + (":rewritten" if rc.get("rewrite") else ""))
        ctx.count("graph-size:%s" % (">=16" if nops >= 16 else ">=8" if nops >= 8 else ">=4" if nops >= 4 else "<4"))
        ctx.count("graph-nodes", len(built.order))
        for k in rep.kinds:
            ctx.count("kind:" + k)
        for s in set(rep.exec_errors):
            ctx.count("exec-error:" + s)
        if len(ctx.samples) < 3 and ran and nops >= 4:
            ctx.sample(dict(recipe=rc, inputs=inputs_to_json(inputs[:1]), static=rep.static, observed={str(k): sorted(v) for k, v in rep.observed.items()}), limit=3)
        for mm in rep.table_mismatch:
            i_mis += 1
            if i_mis <= 3:
                broken.append(ctx.broken("correspondence:get_type-depends-only-on-kind-and-operand-types", json.dumps(dict(recipe=rc, **mm), default=str)))
        ctx.traces_validated += rep.nodes_checked
        report_failures(ctx, rep, rc, inputs, force, origin=origin)
        if n % 3 == 0 or origin != "generated":
            line, pos = encode_graph(built.order)
            if line is not None:
                lean_lines.append(line)
                lean_meta.append(dict(origin=origin, order=built.order, pos=pos, rep=rep))
    ctx.notes["graphs_generated"] = len(recipes)
    ctx.notes["graphs_executed"] = executed
    ctx.obligation("correspondence (i): get_type/is_complex of every graph node == table entry of (kind, operand types)", i_mis == 0, kind="correspondence")

    run_shipped(ctx, tables_pack, broken, lean_lines, lean_meta)
    lean_graph_stage(ctx, lean_lines, lean_meta, canon, broken)

    ctx.notes["broken_details"] = [dict(name=b["name"], detail=b["detail"][:1500]) for b in ctx.broken_items[:8]]
    # broken Lean/correspondence items: the searches above are the directed search; attach when a NEW failing input exists
    if broken:
        for b in broken:
            if ctx.violations and not b["has_failing_input"]:
                b["has_failing_input"] = True


# ----------------------------------------------------------------------------- replay

def replay(ctx, obj):
    rp = obj.get("replay") or (obj if "recipe" in obj else {})
    tb = generate(ctx)
    pack = lookups(tb)
    if "shipped" in rp:
        import functional_algorithms as fa
        from functional_algorithms import algorithms, rewrite, targets

        with warnings.catch_warnings():
            warnings.simplefilter("ignore")
            c = fa.Context(paths=[algorithms])
            g2 = c.trace(getattr(algorithms, rp["shipped"]), *rp["signature"]).rewrite(targets.numpy, rewrite)
            fn = targets.numpy.as_function(g2, debug=1)
        want = pack[0].get(type_name(g2.operands[-1]) or "")
        rc = 0
        for inp in inputs_from_json(rp.get("inputs") or []):
            try:
                r = call(fn, materialise(inp))
                print("result dtype", T.result_name(r), "declared", want)
                rc |= int(T.result_name(r) != want)
            except AssertionError as ex:
                print("AssertionError", ex)
                rc = 1
        return rc
    if "recipe" not in rp and "corpus" in rp:
        rp = json.load(open(os.path.join(ROOT, rp["corpus"])))
    if "recipe" not in rp:
        print("replay names an obligation without failing input:", obj.get("obligation"))
        return 1
    inputs = inputs_from_json(rp["inputs"])
    built, rep = run_recipe(ctx, rp["recipe"], inputs, pack, force=rp.get("force_refs", True), fast=False)
    with warnings.catch_warnings():
        warnings.simplefilter("ignore")
        try:
            print(print_graph(Built(rp["recipe"], rp.get("force_refs", True)).graph, 1))
        except Exception as ex:
            print("printing at debug=1 raises", type(ex).__name__, ex)
    for f in rep.failures:
        print("FAIL", f["signature"], "--", f["what"], f.get("assertion", ""))
    return 1 if [f for f in rep.failures if not f["signature"].startswith("misuse:")] else 0
