"""C15 — multiprecision reference values are rounded correctly to the target type.

Layers
  model   lean/FAVerif/Models/Mpf.lean   (mpf2float as written; vectorize_with_mpmath flag/extra-precision
                                          plumbing with explicit Python truthiness; trusted specs of
                                          mpmath `_normalize`, numpy `dtype(int)` and `ldexp`)
  proofs  lean/FAVerif/Props/C15.lean    (for every format/sign/man/exp)
  tie     this file: correspondence of every model piece against the REAL code and the REAL libraries
          on directed + seeded inputs (driver lean/Drivers/Mpf.lean), and the property's clauses
          evaluated on the real code against an independent exact `Fraction` rounding.
"""

import json
import os
import warnings
from fractions import Fraction

from ..runner import ROOT, Infra

THEOREMS = [
    "formats_valid", "mpf2float_normal", "mpf2float_ge_min_normal", "overflow", "overflow_iff", "tiny", "zero_iff", "two_step",
    "representable_exact", "loop_dead", "flush_eq", "flush_partial", "flush_threshold", "flush_edge_witness", "normal_flush_witness",
    "subnormal_double_rounding_witness", "subnormal_sliver_witness", "plumbing", "plumbing_unspecified", "plumbing_regression",
    "identity_flush_regression", "work_prec", "specials", "tables", "roundV_canonical", "roundV_nearest",
    "roundV_tie_even", "roundV_inf_iff", "decode_pack", "identity",
]
SEARCHED = [
    "a function evaluated through the backend returns the correctly rounded result (needs mpmath's own accuracy: "
    "searched with exactly computable functions id/neg/add/mul/x*y+z at sufficient extra precision vs Fraction rounding)",
    "subnormal inputs and outputs preserved unless flushing was explicitly requested (identity through "
    "vectorize_with_mpmath for the three flush settings, scalars and arrays)",
    "mpf2float vs exact Fraction round-to-nearest-even on directed (sign, man, exp) triples (all clauses, on the real code)",
]
TRUSTED = [
    "Lean 4 kernel; axioms propext, Classical.choice, Quot.sound only",
    "hand model Models/Mpf.lean of utils.mpf2float / vectorize_with_mpmath.__init__ / backend_context, tied by correspondence (this run)",
    "specification of mpmath.libmp.libmpf._normalize as 'round man*2^exp to prec bits (5 modes), strip trailing zeros' — validated against mpmath on every run",
    "specification of numpy dtype(int) (via C double, RNE) and numpy.ldexp (RNE into the subnormal range) — validated against numpy on every run",
    "Python truthiness of a plain object (UNSPECIFIED defines no __bool__/__len__) and `is` on the singleton — validated on the real object",
    "mpmath contexts used by the backend round to nearest (ctx._prec_rounding[1] == 'n') — checked on the real contexts",
]

FMTS = {"float16": (11, 5), "float32": (24, 8), "float64": (53, 11)}
SIG_UNSPEC = "vectorize_with_mpmath.__init__:flush_subnormals-conditional-reversed:unspecified-flushes-subnormals"
SIG_TRUE = "vectorize_with_mpmath.__init__:flush_subnormals-conditional-reversed:True-does-not-flush"


# ----------------------------------------------------------------------------------------------
# format arithmetic and the independent oracle (Fractions; shares nothing with the Lean model)
# ----------------------------------------------------------------------------------------------
class F:
    def __init__(self, name):
        self.name = name
        self.p, self.ew = FMTS[name]
        self.bias = 2 ** (self.ew - 1) - 1
        self.emin = 1 - self.bias - (self.p - 1)  # exponent of the smallest subnormal
        self.emax = self.bias  # exponent of the top binade
        self.width = self.p + self.ew
        self.signbit = 1 << (self.width - 1)
        self.infbits = (2**self.ew - 1) << (self.p - 1)
        self.minnormalbits = 1 << (self.p - 1)
        self.min_normal = Fraction(2) ** (self.emin + self.p - 1)
        self.min_sub = Fraction(2) ** self.emin
        self.max_finite = (2**self.p - 1) * Fraction(2) ** (self.emax - self.p + 1)
        self.overflow_thr = (2 ** (self.p + 1) - 1) * Fraction(2) ** (self.emax - self.p)  # max + half ulp


def ilog2(x: Fraction) -> int:
    """floor(log2 x) for x > 0."""
    n, d = x.numerator, x.denominator
    e = n.bit_length() - d.bit_length()
    if Fraction(2) ** e > x:
        e -= 1
    assert Fraction(2) ** e <= x < Fraction(2) ** (e + 1)
    return e


def oracle_rne(fm: F, x: Fraction):
    """Exact IEEE round-to-nearest-even of a non-negative rational: (magnitude bits, class)."""
    if x == 0:
        return 0, "zero"
    g = max(ilog2(x) - fm.p + 1, fm.emin)
    y = x / Fraction(2) ** g
    n = y.numerator // y.denominator
    rem = y - n
    if rem > Fraction(1, 2) or (rem == Fraction(1, 2) and n % 2 == 1):
        n += 1
    # value n * 2^g ; find its pattern by comparing with the format's grid
    v = n * Fraction(2) ** g
    if v > fm.max_finite:
        return fm.infbits, "inf"
    if v == 0:
        return 0, "zero"
    if v < fm.min_normal:
        bits = int(v / fm.min_sub)
        assert bits * fm.min_sub == v
        return bits, "subnormal"
    e = ilog2(v)
    frac = v / Fraction(2) ** e - 1
    fb = frac * 2 ** (fm.p - 1)
    assert fb.denominator == 1
    return ((e + fm.bias) << (fm.p - 1)) + int(fb), "normal"


# ----------------------------------------------------------------------------------------------
# access to the real code
# ----------------------------------------------------------------------------------------------
class Real:
    def __init__(self):
        import mpmath
        import numpy

        from functional_algorithms import utils

        self.np, self.mp, self.utils = numpy, mpmath, utils
        self.libmpf = mpmath.libmp.libmpf
        self.ctx = mpmath.mp.clone()
        self.ctx.prec = 100
        self.dtypes = dict(float16=numpy.float16, float32=numpy.float32, float64=numpy.float64)
        self.utypes = dict(float16=numpy.uint16, float32=numpy.uint32, float64=numpy.uint64)
        self.UNSPEC = utils.UNSPECIFIED

    def flag(self, s):
        if s == "U":
            return self.UNSPEC
        if s == "T":
            return True
        if s == "F":
            return False
        if s == "N":
            return None
        if s.startswith("I"):
            return int(s[1:])
        raise ValueError(s)

    def unflag(self, v):
        if v is self.UNSPEC:
            return "U"
        if v is True:
            return "T"
        if v is False:
            return "F"
        if v is None:
            return "N"
        if type(v) is int:
            return f"I{v}"
        return "other:" + type(v).__name__

    def bits(self, r):
        return int(self.np.asarray(r).reshape(1).view(self.utypes[str(self.np.asarray(r).dtype)])[0])

    def frombits(self, fmt, b):
        return self.np.array([b], dtype=self.utypes[fmt]).view(self.dtypes[fmt])[0]

    def mk(self, kind, sign, man, exp, raw=True):
        lm = self.libmpf
        if kind == "nan":
            return self.ctx.make_mpf(lm.fnan)
        if kind == "inf":
            return self.ctx.make_mpf(lm.fninf if sign else lm.finf)
        if man == 0:
            return self.ctx.make_mpf(lm.fzero)
        if raw:
            return self.ctx.make_mpf((sign, lm.MPZ(man), exp, man.bit_length()))
        return self.ctx.make_mpf(lm.from_man_exp(-man if sign else man, exp))

    def m2f(self, fmt, flag, kind, sign, man, exp, prec, rnd, raw=True):
        x = self.mk(kind, sign, man, exp, raw)
        kw = {}
        if prec is not None:
            kw["prec"] = prec
        if rnd is not None:
            kw["rounding"] = rnd
        with warnings.catch_warnings():
            warnings.simplefilter("ignore")
            with self.np.errstate(all="ignore"):
                try:
                    r = self.utils.mpf2float(self.dtypes[fmt], x, flush_subnormals=self.flag(flag), **kw)
                except AssertionError:
                    return "AssertionError"
                except OverflowError:
                    return "OverflowError"
                except Exception as e:  # noqa
                    return "other:" + type(e).__name__
        if not isinstance(r, self.dtypes[fmt]):
            return "wrong-type:" + type(r).__name__
        return f"bits {self.bits(r)}"

    def vec(self, fn, kw, mnum, mden, extra):
        """vectorize_with_mpmath instance + list receiving the working precision seen inside the call."""
        seen = []

        def rec(x):
            seen.append(x.context.prec)

        if fn == "id":
            def g(x):
                rec(x)
                return x
        elif fn == "neg":
            def g(x):
                rec(x)
                return -x
        elif fn == "mul":
            def g(x, y):
                rec(x)
                return x * y
        elif fn == "add":
            def g(x, y):
                rec(x)
                return x + y
        elif fn == "fma":
            def g(x, y, z):
                rec(x)
                return x * y + z
        else:
            raise ValueError(fn)
        kwargs = {}
        if kw != "A":
            kwargs["flush_subnormals"] = self.flag(kw)
        if (mnum, mden) != (0, 1):
            if mden == 1:
                kwargs["extra_prec_multiplier"] = mnum
            elif mden & (mden - 1) == 0:
                kwargs["extra_prec_multiplier"] = mnum / mden  # dyadic: exact in binary floating point
            else:
                kwargs["extra_prec_multiplier"] = Fraction(mnum, mden)
        if extra != 0:
            kwargs["extra_prec"] = extra
        return self.utils.vectorize_with_mpmath(g, **kwargs), seen

    def call(self, fmt, kw, mnum, mden, extra, fn, args_bits, as_array=False):
        v, seen = self.vec(fn, kw, mnum, mden, extra)
        args = [self.frombits(fmt, b) for b in args_bits]
        if as_array:
            args = [self.np.array([a, a]) for a in args]
        with warnings.catch_warnings():
            warnings.simplefilter("ignore")
            with self.np.errstate(all="ignore"):
                try:
                    r = v(*args)
                except AssertionError:
                    return "AssertionError", seen
                except OverflowError:
                    return "OverflowError", seen
                except Exception as e:  # noqa
                    return "other:" + type(e).__name__, seen
        r = self.np.asarray(r)
        if str(r.dtype) != fmt:
            return "wrong-dtype:" + str(r.dtype), seen
        bits = r.reshape(-1).view(self.utypes[fmt])
        if as_array and int(bits[0]) != int(bits[1]):
            return "array-elements-differ", seen
        return f"bits {int(bits[0])}", seen


    def call_pair(self, fmt, kw, args_bits, as_array=False):
        """a TUPLE-valued function (x + y, x * y) through the backend: every member must come back as a NumPy value of the dtype
        (`vectorize_with_backend.__call__` converts tuple results member by member — a first-order mutant of that test survived)"""
        def g(x, y):
            return x + y, x * y
        kwargs = {}
        if kw != "A":
            kwargs["flush_subnormals"] = self.flag(kw)
        v = self.utils.vectorize_with_mpmath(g, **kwargs)
        args = [self.frombits(fmt, b) for b in args_bits]
        if as_array:
            args = [self.np.array([a, a]) for a in args]
        with warnings.catch_warnings():
            warnings.simplefilter("ignore")
            with self.np.errstate(all="ignore"):
                try:
                    res = v(*args)
                except Exception as e:  # noqa
                    return ["other:" + type(e).__name__] * 2
        if not isinstance(res, tuple) or len(res) != 2:
            return ["wrong-type:" + type(res).__name__] * 2
        outs = []
        for r in res:
            r = self.np.asarray(r)
            if str(r.dtype) != fmt:
                outs.append("wrong-dtype:" + str(r.dtype))
                continue
            bits = r.reshape(-1).view(self.utypes[fmt])
            outs.append(f"bits {int(bits[0])}")
        return outs


# ----------------------------------------------------------------------------------------------
# generators
# ----------------------------------------------------------------------------------------------
FRACS = ["0", "half", "half+", "half-", "quarter", "3quarter", "eps", "1-eps", "rand"]


def frac_bits(rng, kind, k):
    """k-bit fractional part (integer in [0, 2^k)) of the given kind; k >= 2 for the non-trivial kinds."""
    if k == 0:
        return 0
    half = 1 << (k - 1)
    if kind == "0":
        return 0
    if kind == "half":
        return half
    if kind == "half+":
        return half + (1 if rng.random() < 0.6 else rng.randrange(1, half) if half > 1 else 0)
    if kind == "half-":
        return half - (1 if rng.random() < 0.6 else rng.randrange(1, half) if half > 1 else 0)
    if kind == "quarter":
        return half >> 1
    if kind == "3quarter":
        return half + (half >> 1)
    if kind == "eps":
        return 1
    if kind == "1-eps":
        return (1 << k) - 1
    return rng.randrange(1 << k)


ZONES = ["normal", "top", "overflow-edge", "beyond", "min-normal", "subnormal", "sub-smallest", "tiny", "far-tiny", "one"]


def gen_triple(rng, fm: F, zone=None, kfrac=None, extra=None):
    """(man, exp, tags): value = (q + frac/2^k) * 2^g with g the format's quantum at that magnitude
    (or just below/above the format's range), total bits between p and p+200."""
    zone = zone or rng.choice(ZONES)
    kind = kfrac or rng.choice(FRACS)
    p = fm.p
    k = extra if extra is not None else rng.choice([0, 1, 2, 3, rng.randint(1, 200), rng.randint(1, 200), 200])
    hi, lo = (1 << p) - 1, 1 << (p - 1)
    if zone == "normal":
        g = rng.randint(fm.emin + 1, fm.emax - p + 1)
        q = rng.choice([lo, lo + 1, hi, hi - 1, rng.randint(lo, hi)])
    elif zone == "one":
        g = -(p - 1)
        q = rng.choice([lo, lo + 1, lo - 1])
        if q < lo:  # just below one: quantum halves
            g, q = g - 1, hi
    elif zone == "top":
        g = fm.emax - p + 1
        q = rng.choice([hi, hi - 1, lo, rng.randint(lo, hi)])
    elif zone == "overflow-edge":
        g = fm.emax - p + 1
        q = hi
        kind = kfrac or rng.choice(["half", "half-", "half+", "eps", "1-eps", "0", "quarter"])
    elif zone == "beyond":
        g = fm.emax - p + 1 + rng.choice([1, 1, 2, 10, 1000, 10**6, 2**70])
        q = rng.randint(lo, hi)
    elif zone == "min-normal":
        # around the smallest normal: first normal binade and the top of the subnormal range
        g = fm.emin
        q = rng.choice([lo, lo + 1, lo - 1, lo - 1, lo - 2])
        if rng.random() < 0.3:
            # finer: exactly representable at p bits just below min normal (quantum emin-1)
            g, q, = fm.emin - 1, rng.choice([hi, hi - 1, hi])
    elif zone == "subnormal":
        j = rng.randint(0, p - 2)  # binade 2^(emin+j) .. 2^(emin+j+1)
        g = fm.emin
        q = rng.choice([1 << j, (2 << j) - 1, rng.randint(1 << j, (2 << j) - 1)])
    elif zone == "sub-smallest":
        g = fm.emin
        q = rng.choice([0, 0, 1, 1, 2])
        kind = kfrac or rng.choice(["half", "half-", "half+", "quarter", "3quarter", "eps", "1-eps", "0", "rand"])
    elif zone == "tiny":
        g = fm.emin - rng.choice([1, 1, 2, 3, p, p + 1])
        q = rng.choice([1, 1, 3, rng.randint(1, hi)])
    else:  # far-tiny
        g = fm.emin - rng.choice([p + 2, 100, 1000, 10**6, 2**70])
        q = rng.randint(1, hi)
    if k == 0:
        fb = 0
    else:
        fb = frac_bits(rng, kind, k)
    man = (q << k) + fb
    exp = g - k
    if man == 0:
        man, exp = 0, 0
    elif rng.random() < 0.3:
        # strip trailing zeros as mpmath would (normalised tuple); otherwise keep the raw even mantissa
        t = (man & -man).bit_length() - 1
        man >>= t
        exp += t
    return man, exp, (zone, kind if k else "exact", k)


def fstr(x):
    return f"{x.numerator}/{x.denominator}"


# ----------------------------------------------------------------------------------------------
# property clauses on the real code (search)
# ----------------------------------------------------------------------------------------------
def dyadic(fm: F, man, exp):
    """Exact value man*2^exp as a Fraction, or 'huge' (>= 2^(emax+1)) / 'minuscule' (< 2^(emin-2)) without
    materialising astronomically large powers."""
    if man == 0:
        return Fraction(0)
    top = exp + man.bit_length()  # 2^(top-1) <= x < 2^top
    if top - 1 >= fm.emax + 1:
        return "huge"
    if top <= fm.emin - 2:
        return "minuscule"
    return Fraction(man) * Fraction(2) ** exp


def oracle_bits(fm: F, man, exp):
    x = dyadic(fm, man, exp)
    if x == "huge":
        return fm.infbits, "inf"
    if x == "minuscule":
        return 0, "zero"
    return oracle_rne(fm, x)


def expected_conv(fm: F, sign, man, exp, flush):
    """What the property demands of mpf2float for the exact value; None = no demand (subnormal result)."""
    x = dyadic(fm, man, exp)
    s = fm.signbit if sign else 0
    if x == 0:
        return 0, "zero"  # mpmath has no negative zero
    if x == "huge":
        return s + fm.infbits, "overflow"
    if x == "minuscule":
        return s, "tiny"
    bits, cls = oracle_rne(fm, x)
    if x >= fm.overflow_thr:
        assert cls == "inf"
        return s + fm.infbits, "overflow"
    if x < fm.min_sub / 2:
        assert cls == "zero"
        return s, "tiny"
    if flush:
        # tininess after rounding to p bits (mantissa 2^p - 1 in the binade below min normal + half)
        if x < fm.min_normal * (1 - Fraction(1, 2 ** (fm.p + 1))):
            return s, "flush"
        return s + bits, "normal"  # the sliver that rounds (at p bits) to min normal, and everything above
    if cls == "normal":
        return s + bits, "normal"
    if cls == "inf":
        return s + fm.infbits, "overflow"
    return None, cls


def check_m2f_clause(ctx, real, fm, flagstr, sign, man, exp, got, corr_item=None):
    """mpf2float on the real code vs the property (default prec/rounding).  Returns the clause class."""
    flush = bool(real.flag(flagstr))
    want, cls = expected_conv(fm, sign, man, exp, flush)
    ctx.count("search:m2f:" + cls)
    rp = dict(kind="m2f", fmt=fm.name, flag=flagstr, sign=sign, man=str(man), exp=str(exp), got=got, want=want, clause=cls)
    if corr_item is None:
        # a failing conversion is also the failing input of a broken table correspondence
        corr_item = getattr(ctx, "_c15_items", {}).get("correspondence:Mpf.consts")
    if want is None:
        # subnormal (or rounds-to-zero above half the smallest subnormal) result: no demand from the property
        # beyond returning a float; record how often RNE is nevertheless met
        if not got.startswith("bits "):
            ctx.violation("mpf2float:raises-on-finite-input", f"mpf2float raised {got} on a finite value", rp, broken_item=corr_item)
            return cls
        b, _ = oracle_bits(fm, man, exp)
        gb = int(got[5:])
        ok = gb == (fm.signbit if sign else 0) + b
        ctx.count("subnormal-result:" + ("equals-RNE" if ok else "differs-from-RNE(permitted)"))
        # what does hold there (two-step rounding): sign kept, result is one of the two neighbours of x
        x = dyadic(fm, man, exp)
        gm = gb & (fm.signbit - 1)
        faithful = (gb & fm.signbit) == (fm.signbit if sign else 0) and gm <= fm.minnormalbits and abs(gm * fm.min_sub - x) < fm.min_sub
        if not faithful:
            ctx.violation("mpf2float:subnormal-result-not-a-neighbour", f"{fm.name}: mpf2float of (-1)^{sign}*{man}*2^{exp} gives {got}: not adjacent to the exact value",
                          rp, broken_item=corr_item)
        return cls
    if got != f"bits {want}":
        sig = {"normal": "mpf2float:normal-result-not-nearest-even", "overflow": "mpf2float:overflow-threshold",
               "tiny": "mpf2float:tiny-not-signed-zero", "flush": "mpf2float:flush-below-min-normal-not-signed-zero",
               "zero": "mpf2float:zero"}[cls]
        ctx.violation(sig, f"{fm.name}: mpf2float of (-1)^{sign}*{man}*2^{exp} (flush={flagstr}) gives {got}, property demands bits {want} [{cls}]",
                      rp, broken_item=corr_item)
    return cls


def float_value(fm: F, b):
    """(sign, Fraction) of a finite pattern, or None."""
    s = 1 if b & fm.signbit else 0
    mag = b & (fm.signbit - 1)
    e = mag >> (fm.p - 1)
    m = mag & ((1 << (fm.p - 1)) - 1)
    if e == 2**fm.ew - 1:
        return None
    if e == 0:
        return s, m * fm.min_sub
    return s, (m + (1 << (fm.p - 1))) * Fraction(2) ** (e - 1 + fm.emin)


def exact_call_value(fm: F, fn, args_bits):
    vals = [float_value(fm, b) for b in args_bits]
    if any(v is None for v in vals):
        return None
    sv = [(-v if s else v) for s, v in vals]
    return dict(id=lambda: sv[0], neg=lambda: -sv[0], mul=lambda: sv[0] * sv[1], add=lambda: sv[0] + sv[1],
                fma=lambda: sv[0] * sv[1] + sv[2])[fn]()


def expected_call(fm: F, kw, fn, args_bits):
    """Property for the backend call: correctly rounded exact result, subnormals preserved unless
    flushing was explicitly requested (requested = kw truthy and not UNSPECIFIED/absent).
    Returns (bits, class, demand) with demand in {"exact", "neighbour"}: results in the subnormal range that
    are not representable are only required to be adjacent to the exact value (two-step rounding)."""
    r = exact_call_value(fm, fn, args_bits)
    if r is None:
        return None, "special", None
    if r == 0:
        return 0, "zero", "exact"  # one zero in mpmath: +0
    requested = kw == "T" or (kw.startswith("I") and int(kw[1:]) != 0)
    bits, cls = oracle_rne(fm, abs(r))
    s = fm.signbit if r < 0 else 0
    if requested and abs(r) < fm.min_normal * (1 - Fraction(1, 2 ** (fm.p + 1))):
        return s, "flushed", "exact"
    if cls in ("normal", "inf"):
        return s + bits, cls, "exact"
    representable = bits * fm.min_sub == abs(r)
    if representable:
        return s + bits, cls + "-representable", "exact"
    if abs(r) < fm.min_sub / 2:
        return s, "tiny", "exact"
    return s + bits, cls + "-inexact", "neighbour"


# ----------------------------------------------------------------------------------------------
def run(ctx):
    ctx.rule = ("(format, flush flag, sign, man, exp[, prec, rounding]) tuples run through the real utils.mpf2float and the Lean model; "
                "non-trivial = finite non-zero value whose exact value needs rounding or lies within one binade of the overflow threshold, "
                "the smallest normal or the subnormal range, or a backend call on a non-special float; distinct by input tuple")
    broken = ctx.lean_stage(["FAVerif.Props.C15"], THEOREMS)
    real = Real()
    fms = {n: F(n) for n in FMTS}
    rng = ctx.rng
    corr_items = {}
    ctx._c15_items = corr_items

    def corr_broken(name, detail):
        if name not in corr_items:
            corr_items[name] = ctx.broken(name, detail)
        return corr_items[name]

    # ---------------- oracle self-test against the hardware (float64 -> float32/float16 casts are RNE) ----------
    bad = 0
    np = real.np
    for _ in range(ctx.scale(3000, 30000)):
        fmt = rng.choice(["float16", "float32"])
        fm = fms[fmt]
        man, exp, _t = gen_triple(rng, fm, extra=rng.randint(0, 53 - fm.p))
        if exp < -1074 or exp + man.bit_length() > 1023 or man.bit_length() > 53:
            continue
        d = float(Fraction(man) * Fraction(2) ** exp)
        if Fraction(d) != Fraction(man) * Fraction(2) ** exp:
            continue
        with np.errstate(all="ignore"):
            hw = real.bits(real.dtypes[fmt](np.float64(d)))
        if hw != oracle_rne(fm, Fraction(d))[0]:
            bad += 1
    ctx.obligation("oracle-selftest(Fraction RNE == hardware float64->float16/32 cast)", bad == 0, kind="selftest")
    if bad:
        raise Infra("the independent Fraction oracle disagrees with hardware rounding; the checker itself is broken")

    # =====================================================================================================
    # build all driver lines first (one driver run), remembering what the real code said
    # =====================================================================================================
    lines, impl, meta = [], [], []

    def add(line, real_out, m):
        lines.append(line)
        impl.append(real_out)
        meta.append(m)

    # ---- tables -------------------------------------------------------------------------------------
    V = real.utils.vectorize_with_mpmath
    for fmt in FMTS:
        try:
            out = f"{V.float_prec[fmt]} {V.float_subexp[fmt]} {V.float_minexp[fmt]} {V.float_maxexp[fmt]} {int(V.float_max[fmt])}"
        except Exception as e:  # noqa
            out = "other:" + type(e).__name__
        add(f"consts {fmt}", out, dict(kind="consts", fmt=fmt))
    # contexts round to nearest
    vv = V(lambda x: x)
    rnd_ok = all(vv.contexts[fmt]._prec_rounding[1] == "n" and vv.contexts[fmt].prec == FMTS[fmt][0] for fmt in FMTS)
    ctx.obligation("assumption:backend contexts have prec = p and round to nearest", rnd_ok, kind="correspondence")
    if not rnd_ok:
        corr_broken("correspondence:contexts", "a backend mpmath context does not have prec=p / rounding='n'")

    # ---- trusted spec: _normalize ---------------------------------------------------------------------
    lm = real.libmpf
    for _ in range(ctx.scale(2500, 60000)):
        fm = fms[rng.choice(list(FMTS))]
        man, exp, tags = gen_triple(rng, fm)
        if man == 0:
            continue
        sign = rng.randint(0, 1)
        prec = rng.choice([fm.p, fm.p, rng.randint(1, fm.p + 210), 1, 2, 53])
        rnd = rng.choice("nnnfcdu")
        got = lm._normalize(sign, lm.MPZ(man), exp, man.bit_length(), prec, rnd)
        add(f"norm {sign} {man} {exp} {prec} {rnd}", "%d %d %d %d" % tuple(int(v) for v in got), dict(kind="norm"))
        ctx.count("norm:rnd=" + rnd)

    # ---- trusted spec: numpy dtype(int) and ldexp -----------------------------------------------------
    for _ in range(ctx.scale(1500, 30000)):
        fmt = rng.choice(list(FMTS))
        fm = fms[fmt]
        nb = rng.choice([rng.randint(1, fm.p), fm.p, fm.p + 1, rng.randint(fm.p, 64), rng.randint(1, 130), rng.randint(1, 1100)])
        man, _e, _t = gen_triple(rng, fm, zone="normal", extra=max(0, nb - fm.p))
        if rng.random() < 0.15:
            man = rng.choice([int(V.float_max[fmt]), int(V.float_max[fmt]) + 1, int(V.float_max[fmt]) - 1, 2**1024, 2**1024 - 2**970, 2**1024 - 2**970 - 1])
        with warnings.catch_warnings():
            warnings.simplefilter("ignore")
            with np.errstate(all="ignore"):
                try:
                    out = str(real.bits(real.dtypes[fmt](man)))
                except OverflowError:
                    out = "OverflowError"
        add(f"conv {fmt} {man}", out, dict(kind="conv"))
        ctx.count("conv:" + ("overflow-error" if out == "OverflowError" else "bits>p" if man.bit_length() > fm.p else "exact"))
    for _ in range(ctx.scale(2500, 50000)):
        fmt = rng.choice(list(FMTS))
        fm = fms[fmt]
        b = rng.choice([0, 1, fm.minnormalbits, fm.minnormalbits - 1, fm.infbits - 1, fm.infbits, rng.randrange(fm.infbits), rng.randrange(fm.infbits)])
        if rng.random() < 0.4 and b < fm.infbits - 1:
            b |= 1  # odd significand: ties when shifted into the subnormal range
        sv = float_value(fm, b)
        if sv is None or sv[1] == 0:
            k = rng.randint(-50, 50)
        else:
            top = ilog2(sv[1])
            # aim the result at the subnormal range / the overflow edge / anywhere
            tgt = rng.choice([rng.randint(fm.emin - 3, fm.emin + fm.p), rng.randint(fm.emax - 2, fm.emax + 2), rng.randint(fm.emin - 60, fm.emax + 60)])
            k = tgt - top
        with np.errstate(all="ignore"):
            out = str(real.bits(np.ldexp(real.frombits(fmt, b), k)))
        add(f"ldexp {fmt} {b} {k}", out, dict(kind="ldexp"))
        ctx.count("ldexp")

    # ---- reference rounding of the theorems vs the independent oracle ----------------------------------
    for _ in range(ctx.scale(3000, 60000)):
        fmt = rng.choice(list(FMTS))
        fm = fms[fmt]
        man, exp, tags = gen_triple(rng, fm)
        if abs(exp) > 3 * 10**6:
            continue  # the reference rounding is not evaluated at astronomically small/large quanta
        b, cls = oracle_bits(fm, man, exp)
        add(f"round {fmt} {man} {exp}", str(b), dict(kind="round"))
        ctx.count("round:" + cls)

    # ---- mpf2float: corpus first, then directed + seeded ------------------------------------------------
    m2f_cases = []
    cdir = os.path.join(ROOT, "corpus", "C15")
    corpus_calls = []
    if os.path.isdir(cdir):
        for fn in sorted(os.listdir(cdir)):
            if not fn.endswith(".json"):
                continue
            for obj in json.load(open(os.path.join(cdir, fn)))["cases"]:
                if obj["kind"] == "m2f":
                    m2f_cases.append((obj["fmt"], obj["flag"], "fin", obj["sign"], int(obj["man"]), int(obj["exp"]), None, None, True,
                                      ("corpus", obj.get("name", fn), 0), obj.get("expect")))
                elif obj["kind"] == "call":
                    corpus_calls.append(obj)
    n_m2f = ctx.scale(9000, 250000)
    for fmt in FMTS:
        fm = fms[fmt]
        # deliberate sweep: every zone x every fraction kind x a few precisions
        for zone in ZONES:
            for kind in FRACS:
                for k in (1, 2, rng.randint(3, 200)):
                    man, exp, tags = gen_triple(rng, fm, zone=zone, kfrac=kind, extra=k)
                    m2f_cases.append((fmt, rng.choice("FFTU"), "fin", rng.randint(0, 1), man, exp, None, None, rng.random() < 0.7, tags, None))
        # every subnormal binade, tie and near-tie
        for j in range(fm.p - 1):
            for kind in ("half", "half+", "half-", "0"):
                k = rng.randint(1, 200)
                q = rng.randint(1 << j, (2 << j) - 1)
                man = (q << k) + frac_bits(rng, kind, k)
                m2f_cases.append((fmt, "F", "fin", rng.randint(0, 1), man, fm.emin - k, None, None, True, ("subnormal", kind, k), None))
        # every extra precision p .. p+200 at a tie in a normal binade
        for k in range(0, 201, ctx.scale(4, 1)):
            man, exp, tags = gen_triple(rng, fm, zone="normal", kfrac=rng.choice(["half", "half+", "half-"]), extra=k)
            m2f_cases.append((fmt, "F", "fin", rng.randint(0, 1), man, exp, None, None, True, tags, None))
    for _ in range(n_m2f):
        fmt = rng.choice(list(FMTS))
        man, exp, tags = gen_triple(rng, fms[fmt])
        flag = rng.choice(["F", "F", "F", "T", "T", "U", "N", "I0", "I1", "I2"])
        m2f_cases.append((fmt, flag, "fin", rng.randint(0, 1), man, exp, None, None, rng.random() < 0.7, tags, None))
    # explicit prec= / rounding= stream (exercises the `while man > largest` loop and the inf-retry loop)
    for _ in range(ctx.scale(2500, 40000)):
        fmt = rng.choice(["float16", "float16", "float32", "float64"])
        fm = fms[fmt]
        zone = rng.choice(["top", "overflow-edge", "normal", "subnormal", "min-normal", "one"])
        man, exp, tags = gen_triple(rng, fm, zone=zone, extra=rng.choice([rng.randint(0, 200), rng.randint(100, 1200) if fmt != "float16" else rng.randint(5, 60)]))
        prec = rng.choice([fm.p + 1, fm.p + 2, rng.randint(1, fm.p), rng.randint(fm.p, fm.p + 200), rng.randint(fm.p, 1300), 54, 64])
        rnd = rng.choice([None, None, "n", "f", "c", "d", "u"])
        if prec == fm.p and rnd is None:
            rnd = "d"
        m2f_cases.append((fmt, rng.choice("FFT"), "fin", rng.randint(0, 1), man, exp, prec, rnd, True, ("prec=",) + tags, None))
        if man and rnd in (None, "n"):
            # which of mpf2float's otherwise dead loops does this input reach?  (independent re-enactment)
            _s, m_, e_, bc_ = lm._normalize(0, lm.MPZ(man), exp, man.bit_length(), prec, "n")
            if V.float_subexp[fmt] <= e_ + bc_ <= V.float_maxexp[fmt]:
                big = int(V.float_max[fmt])
                shifted = 0
                while m_ > big:
                    m_ >>= 1
                    e_ += 1
                    shifted += 1
                ctx.count("m2f:prec=:while-man>largest-loop:" + ("taken" if shifted else "not-taken"))
                with warnings.catch_warnings():
                    warnings.simplefilter("ignore")
                    if np.isinf(np.ldexp(real.dtypes[fmt](int(m_)), e_)):
                        ctx.count("m2f:prec=:inf-retry-loop:entered")
    # specials and zero
    for fmt in FMTS:
        for flag in ("F", "T", "U"):
            m2f_cases.append((fmt, flag, "nan", 0, 0, 0, None, None, True, ("special", "nan", 0), None))
            m2f_cases.append((fmt, flag, "inf", 0, 0, 0, None, None, True, ("special", "inf", 0), None))
            m2f_cases.append((fmt, flag, "inf", 1, 0, 0, None, None, True, ("special", "-inf", 0), None))
            m2f_cases.append((fmt, flag, "fin", 0, 0, 0, None, None, True, ("special", "zero", 0), None))

    for (fmt, flag, kind, sign, man, exp, prec, rnd, raw, tags, expect) in m2f_cases:
        got = real.m2f(fmt, flag, kind, sign, man, exp, prec, rnd, raw)
        add(f"m2f {fmt} {flag} {kind} {sign} {man} {exp} {'N' if prec is None else prec} {rnd or 'n'}", got,
            dict(kind="m2f", fmt=fmt, flag=flag, mk=kind, sign=sign, man=man, exp=exp, prec=prec, rnd=rnd, tags=tags, expect=expect))

    # ---- __init__ flag plumbing --------------------------------------------------------------------------
    dflt = real.unflag(real.utils.default_flush_subnormals)
    for kw in ["A", "U", "T", "F", "N", "I0", "I1", "I2", "I-1"]:
        v, _ = real.vec("id", kw, 0, 1, 0)
        stored = v.flush_subnormals
        add(f"init {kw} {dflt}", f"{real.unflag(stored)} {int(bool(stored))}", dict(kind="init", kw=kw))
    # ---- extra precision arithmetic (working precision observed inside the call) -------------------------
    wp_cases = [(0, 1, 0), (1, 1, 0), (2, 1, 0), (0, 1, 7), (1, 2, 0), (1, 2, 3), (3, 4, 0), (1, 3, 0), (-1, 2, 0), (0, 1, -5), (0, 1, -60), (5, 2, 11), (-1, 4, -3)]
    for _ in range(ctx.scale(20, 300)):
        wp_cases.append((rng.randint(-3, 9), rng.choice([1, 1, 2, 4, 8, 3, 5, 7]), rng.randint(-30, 250)))
    for (mn, md, ex) in wp_cases:
        for fmt in FMTS:
            fm = fms[fmt]
            out, seen = real.call(fmt, "F", mn, md, ex, "id", [fm.minnormalbits + 5])
            add(f"wprec {fm.p} {mn} {md} {ex}", str(seen[-1]) if seen else "not-called:" + out, dict(kind="wprec", fmt=fmt, mn=mn, md=md, ex=ex))
            ctx.count("wprec")

    # ---- backend calls: identity and exact functions, all flag settings ------------------------------------
    def gen_float_bits(fm, cls=None):
        cls = cls or rng.choice(["normal", "normal", "subnormal", "subnormal", "min-normal", "max", "zero", "one", "special"])
        s = fm.signbit if rng.random() < 0.5 else 0
        if cls == "normal":
            return s + rng.randrange(fm.minnormalbits, fm.infbits), cls
        if cls == "subnormal":
            return s + rng.choice([1, 2, 3, fm.minnormalbits - 1, rng.randrange(1, fm.minnormalbits), 1 << rng.randrange(fm.p - 1)]), cls
        if cls == "min-normal":
            return s + fm.minnormalbits + rng.choice([0, 1, 2]), cls
        if cls == "max":
            return s + fm.infbits - rng.choice([1, 2]), cls
        if cls == "zero":
            return s, cls
        if cls == "one":
            return s + (fm.bias << (fm.p - 1)) + rng.choice([0, 1, -1]), cls
        return s + rng.choice([fm.infbits, fm.infbits + (1 << (fm.p - 2))]), cls

    call_cases = []
    for obj in corpus_calls:
        call_cases.append((obj["fmt"], obj["kw"], 0, 1, 0, obj["fn"], [int(b) for b in obj["args"]], False, ("corpus", obj.get("name", "")), obj.get("expect")))
    for fmt in FMTS:
        fm = fms[fmt]
        for kw in ["A", "U", "F", "T", "N", "I0", "I1"]:
            for cls in ["normal", "subnormal", "subnormal", "min-normal", "max", "zero", "one", "special"]:
                b, c = gen_float_bits(fm, cls)
                call_cases.append((fmt, kw, 0, 1, 0, "id", [b], rng.random() < 0.4, (c,), None))
    for _ in range(ctx.scale(900, 20000)):
        fmt = rng.choice(list(FMTS))
        fm = fms[fmt]
        kw = rng.choice(["A", "F", "T", "F", "U", "I1", "N"])
        fn = rng.choice(["id", "id", "neg", "mul", "add", "mul", "add"])
        b1, c1 = gen_float_bits(fm)
        args = [b1]
        cl = (c1,)
        if fn in ("mul", "add"):
            b2, c2 = gen_float_bits(fm, rng.choice(["normal", "subnormal", "one", "min-normal"]))
            if c1 == "special":
                b1, c1 = gen_float_bits(fm, "normal")
            if fn == "mul" and rng.random() < 0.6:
                # aim the product at the subnormal range / min normal / overflow edge
                v1 = float_value(fm, b1)
                if v1 is not None and v1[1] != 0:
                    tgt = rng.choice([rng.randint(fm.emin - 2, fm.emin + fm.p + 1), rng.randint(fm.emax - 1, fm.emax + 1)])
                    e2 = tgt - ilog2(v1[1])
                    e2 = min(max(e2, fm.emin + fm.p - 1), fm.emax)
                    b2 = (b2 & fm.signbit) + ((e2 + fm.bias) << (fm.p - 1)) + rng.randrange(1 << (fm.p - 1))
                    c2 = "aimed"
            if fn == "add" and rng.random() < 0.6:
                # nearby exponents so that the sum needs rounding / cancels into the subnormal range
                v1 = float_value(fm, b1)
                if v1 is not None and v1[1] != 0:
                    e1 = ilog2(v1[1])
                    e2 = min(max(e1 + rng.randint(-fm.p - 2, 2), fm.emin + fm.p - 1), fm.emax)
                    b2 = (b2 & fm.signbit) + ((e2 + fm.bias) << (fm.p - 1)) + rng.randrange(1 << (fm.p - 1))
                    c2 = "aimed"
            args = [b1, b2]
            cl = (c1, c2)
        # extra precision >= 0 only: with a working precision below p, float2mpf itself rounds the INPUT
        # (ctx.ldexp(mantissa, prec) at the reduced precision) — outside the property's domain, see notes/C15.md
        mn, md, ex = rng.choice([(0, 1, 0), (0, 1, 0), (1, 1, 0), (2, 1, 0), (0, 1, 10), (1, 2, 0), (0, 1, 300), (1, 3, 1)])
        call_cases.append((fmt, kw, mn, md, ex, fn, args, rng.random() < 0.3, cl, None))

    for (fmt, kw, mn, md, ex, fn, args, arr, cl, expect) in call_cases:
        out, _seen = real.call(fmt, kw, mn, md, ex, fn, args, as_array=arr)
        a2 = args + [0] * (2 - len(args))
        add(f"call {fmt} {kw} {dflt} {mn} {md} {ex} {fn} {a2[0]} {a2[1]}", out,
            dict(kind="call", fmt=fmt, kw=kw, mn=mn, md=md, ex=ex, fn=fn, args=args, cl=cl, arr=arr, expect=expect))

    # =====================================================================================================
    # one driver run; diff
    # =====================================================================================================
    out = ctx.lean.driver("Mpf", lines)
    if len(out) != len(lines):
        raise Infra(f"driver returned {len(out)} lines for {len(lines)} inputs")
    mism = {}
    for line, model, im, m in zip(lines, out, impl, meta):
        kind = m["kind"]
        ctx.traces_validated += 1
        ctx.count("corr:" + kind)
        model_cmp = model
        if kind == "init":
            # the model also prints what was requested; the stored value and its truthiness are compared
            model_cmp = " ".join(model.split()[:2])
        if kind == "call" and model == "unmodelled":
            ctx.count("call:unmodelled(special operand of a binary function)")
            continue
        ok = model_cmp == im
        if kind == "m2f":
            fm = fms[m["fmt"]]
            tags = m["tags"]
            ctx.count("m2f:zone=" + str(tags[0] if tags[0] != "prec=" else "prec=/" + str(tags[1])))
            ctx.count("m2f:frac=" + str(tags[-2]))
            ctx.count("m2f:flag=" + m["flag"])
            ctx.count("m2f:" + m["fmt"])
            ctx.count("m2f:out=" + (im.split()[0]))
            nontrivial = m["mk"] == "fin" and m["man"] != 0 and (tags[-1] != 0 or tags[0] != "normal")
            ctx.case(key=line, nontrivial=nontrivial)
            ctx.sample(dict(input=line, real=im, model=model), limit=6)
            item = None
            if not ok:
                item = corr_broken("correspondence:Mpf.mpf2float", json.dumps(dict(input=line, model=model, impl=im)))
            if m["expect"] is not None and im != m["expect"]:
                item = corr_broken("correspondence:corpus-witness", json.dumps(dict(input=line, lean_witness=m["expect"], impl=im)))
            if m["mk"] == "fin" and m["prec"] is None and m["rnd"] is None:
                check_m2f_clause(ctx, real, fm, m["flag"], m["sign"], m["man"], m["exp"], im, corr_item=item)
        elif kind == "call":
            fm = fms[m["fmt"]]
            ctx.case(key=line, nontrivial=m["cl"][0] not in ("special", "zero"))
            ctx.count(f"call:fn={m['fn']}")
            ctx.count(f"call:kw={m['kw']}")
            ctx.count(f"call:operand={m['cl'][0]}")
            ctx.sample(dict(input=line, real=im, model=model), limit=10)
            item = None
            if not ok:
                item = corr_broken("correspondence:Mpf.call", json.dumps(dict(input=line, model=model, impl=im)))
            if m["expect"] is not None and im != m["expect"]:
                item = corr_broken("correspondence:corpus-witness", json.dumps(dict(input=line, lean_witness=m["expect"], impl=im)))
            check_call_clause(ctx, fm, m, im, item)
        else:
            ctx.case(key=line, nontrivial=True)
            if not ok:
                corr_broken(f"correspondence:Mpf.{kind}", json.dumps(dict(input=line, model=model, impl=im)))
        if not ok:
            mism[kind] = mism.get(kind, 0) + 1
    ctx.notes["correspondence_mismatches"] = mism
    for kind, label in [("consts", "class tables float_prec/subexp/minexp/maxexp/float_max == model formulas"),
                        ("norm", "mpmath _normalize == trusted spec"), ("conv", "numpy dtype(int) == trusted spec"),
                        ("ldexp", "numpy.ldexp == trusted spec"), ("round", "reference rounding roundBits == independent Fraction RNE"),
                        ("m2f", "utils.mpf2float == model (bit patterns / exception kinds)"),
                        ("init", "vectorize_with_mpmath.__init__ stored flag and its truthiness == model"),
                        ("wprec", "working precision inside the call == model"),
                        ("call", "vectorize_with_mpmath call (id/neg/mul/add) == model")]:
        ctx.obligation(f"correspondence:Mpf.{kind}({label})", mism.get(kind, 0) == 0, kind="correspondence")

    # =====================================================================================================
    # search beyond the correspondence stream: x*y+z at 3p bits (needs extra precision to be exact)
    # =====================================================================================================
    for _ in range(ctx.scale(400, 8000)):
        fmt = rng.choice(list(FMTS))
        fm = fms[fmt]
        e1 = rng.randint(-fm.bias // 2 + 2, fm.bias // 2 - 2)
        e2 = rng.randint(-fm.bias // 2 + 2, fm.bias // 2 - 2)
        e3 = e1 + e2 + rng.randint(-fm.p, fm.p)
        e3 = min(max(e3, fm.emin + fm.p - 1), fm.emax)
        bs = [((e + fm.bias) << (fm.p - 1)) + rng.randrange(1 << (fm.p - 1)) + (fm.signbit if rng.random() < 0.5 else 0) for e in (e1, e2, e3)]
        if rng.random() < 0.5:
            bs[2] = bs[2] | 1
            bs[0] = bs[0] | 1
        kwf = rng.choice(["F", "F", "N", "I0"])
        # the exact result needs up to 3p+1 bits: reachable through the multiplier alone, extra_prec alone, or both
        mn_, md_, ex_ = rng.choice([(2, 1, 2), (0, 1, 2 * fm.p + 2), (1, 1, fm.p + 2), (5, 2, 0)])
        out, _seen = real.call(fmt, kwf, mn_, md_, ex_, "fma", bs)
        m = dict(fmt=fmt, kw=kwf, mn=mn_, md=md_, ex=ex_, fn="fma", args=bs, cl=("fma",), arr=False)
        ctx.case(key=("fma", fmt, tuple(bs)), nontrivial=True)
        ctx.count("call:fn=fma")
        check_call_clause(ctx, fm, m, out, None)

    # directed: a tie at p bits that is broken only beyond 2p bits — x*y + z with x = 2^-p (1 + 2^-(p-1)), y = 1 -+ 2^-(p-1),
    # z = 1 + 2^-(p-1): the exact sum is z + 2^-p -+ 2^-(3p-2), so any working precision below 3p-2 bits rounds the wrong way
    # (round-half-even at the intermediate precision).  Every way of reaching 3p bits is used: multiplier alone, extra_prec
    # alone, BOTH together (each too small on its own).
    for fmt in FMTS:
        fm = fms[fmt]
        pb = fm.p
        enc = lambda e, frac, neg=False: ((e + fm.bias) << (pb - 1)) + frac + (fm.signbit if neg else 0)
        for (mn_, md_, ex_) in [(2, 1, 2), (0, 1, 2 * pb + 2), (1, 1, pb + 2), (5, 2, 0), (1, 2, 2 * pb), (3, 2, pb), (1, 1, pb), (1, 4, 2 * pb)]:
            for ysign in (False, True):
                for neg in (False, True):
                    yb = enc(-1, (1 << (pb - 1)) - 2) if not ysign else enc(0, 1)
                    bs = [enc(-pb, 1, neg), yb, enc(0, 1, neg)]
                    for kwf in ("F", "N"):
                        out, _seen = real.call(fmt, kwf, mn_, md_, ex_, "fma", bs)
                        m = dict(fmt=fmt, kw=kwf, mn=mn_, md=md_, ex=ex_, fn="fma", args=bs, cl=("fma",), arr=False)
                        ctx.case(key=("fma-tie", fmt, tuple(bs), mn_, md_, ex_), nontrivial=True)
                        ctx.count("call:fn=fma:tie-beyond-2p")
                        check_call_clause(ctx, fm, m, out, None)

    # ---- tuple-valued functions through the backend (search only): both members correctly rounded and of the dtype
    for fmt_ in ("float16", "float32", "float64"):
        fm_ = fms[fmt_]
        for _ in range(ctx.scale(12, 200)):
            bs = [gen_float_bits(fm_)[0], gen_float_bits(fm_)[0]]
            for kwf in ("A", "F"):
                for arr in (False, True):
                    outs = real.call_pair(fmt_, kwf, bs, as_array=arr)
                    for fn_, out in zip(("add", "mul"), outs):
                        m = dict(fmt=fmt_, kw=kwf, mn=0, md=1, ex=0, fn=fn_, args=bs, cl=("tuple",), arr=arr)
                        ctx.case(key=("tuple", fmt_, tuple(bs), kwf, arr, fn_), nontrivial=True)
                        ctx.count("call:tuple-output")
                        check_call_clause(ctx, fm_, m, out, None)

    # nothing else to do for broken Lean obligations: the model is hand-written, so a Lean failure is a
    # checker regression, not a change in /repo; the clauses above were all evaluated on the real code.
    _ = broken


def _also_init(ctx, sig, replay):
    """A flag-plumbing failure on a real call is also the failing input of a broken `init` correspondence."""
    it = getattr(ctx, "_c15_items", {}).get("correspondence:Mpf.init")
    if it is not None and not it["has_failing_input"]:
        ctx.violation(sig, "flag plumbing", replay, broken_item=it)


def check_call_clause(ctx, fm, m, im, item):
    """The backend clause of the property on the real call result."""
    want, cls, demand = expected_call(fm, m["kw"], m["fn"], m["args"])
    ctx.count("search:call:" + cls)
    if want is None:
        return
    if item is None:
        # a failing call is also the failing input of a broken plumbing correspondence (working precision / stored flag)
        items = getattr(ctx, "_c15_items", {})
        item = items.get("correspondence:Mpf.wprec") or items.get("correspondence:Mpf.init")
    # exactness precondition: the function value must be exact at the working precision, otherwise the
    # mpmath evaluation itself rounds first (inherent double rounding of any finite-precision oracle)
    wp = max(1, fm.p + int(Fraction(fm.p * m["mn"], m["md"])) + m["ex"])
    exact = exact_call_value(fm, m["fn"], m["args"])

    def oddbits(q):
        n = abs(q).numerator
        return (n >> ((n & -n).bit_length() - 1)).bit_length() if n else 0

    if m["fn"] != "id":
        need = oddbits(exact)
        if m["fn"] == "fma":
            vals = [float_value(fm, b) for b in m["args"]]
            need = max(need, oddbits(vals[0][1] * vals[1][1]))  # the product is rounded first unless it fits
        if need > wp:
            ctx.count("search:call:skipped(not exact at working precision)")
            return
    kw = m["kw"]
    got_bits = int(im[5:]) if im.startswith("bits ") else None
    replay = dict(kind="call", fmt=fm.name, kw=kw, mn=m["mn"], md=m["md"], ex=m["ex"], fn=m["fn"], args=[str(b) for b in m["args"]],
                  got=im, want=want, clause=cls)
    if im == f"bits {want}":
        return
    zero_got = got_bits is not None and (got_bits & (fm.signbit - 1)) == 0
    sign_ok = got_bits is not None and (got_bits & fm.signbit) == (want & fm.signbit)
    sub_in = any(0 < (b & (fm.signbit - 1)) < fm.minnormalbits for b in m["args"])
    # unspecified keyword but the result was flushed: any value below the smallest normal whose correct result is
    # non-zero (a subnormal, or the smallest normal for the sliver just below it) comes back as zero
    if kw in ("A", "U") and zero_got and sign_ok and abs(exact) < fm.min_normal and (want & (fm.signbit - 1)) != 0 \
            and (demand == "exact" or abs(exact) >= fm.min_sub):
        ctx.violation(SIG_UNSPEC, f"{fm.name}: {m['fn']} through vectorize_with_mpmath with flush_subnormals unspecified maps a subnormal result to zero: {replay}",
                      replay, broken_item=item)
        _also_init(ctx, SIG_UNSPEC, replay)
        return
    if kw != "A" and kw != "U" and cls == "flushed" and got_bits is not None and not zero_got and sign_ok:
        ctx.violation(SIG_TRUE, f"{fm.name}: {m['fn']} through vectorize_with_mpmath(flush_subnormals={kw}) does not flush a subnormal result: {replay}",
                      replay, broken_item=item)
        _also_init(ctx, SIG_TRUE, replay)
        return
    if demand == "neighbour" and got_bits is not None and sign_ok:
        gm = got_bits & (fm.signbit - 1)
        if gm <= fm.minnormalbits and abs(gm * fm.min_sub - abs(exact)) < fm.min_sub:
            ctx.count("call:subnormal-inexact-result:differs-from-RNE(permitted)")
            return
    requested = kw == "T" or (kw.startswith("I") and int(kw[1:]) != 0)
    sig = f"backend-call:{cls}-result-wrong" + (":flush-requested" if requested else "") + (":subnormal-input" if sub_in else "")
    ctx.violation(sig, f"{fm.name}: {m['fn']} through vectorize_with_mpmath (flush kw {kw}) returns {im}, property demands bits {want} [{cls}]",
                  replay, broken_item=item)


def replay(ctx, obj):
    rp = obj.get("replay") or {}
    if "kind" not in rp:
        print("replay names an obligation without failing input:", obj.get("obligation"))
        print(obj.get("detail", "")[:2000])
        return 1
    real = Real()
    fm = F(rp["fmt"])
    if rp["kind"] == "m2f":
        got = real.m2f(rp["fmt"], rp["flag"], "fin", rp["sign"], int(rp["man"]), int(rp["exp"]), None, None, True)
        want, cls = expected_conv(fm, rp["sign"], int(rp["man"]), int(rp["exp"]), bool(real.flag(rp["flag"])))
        print(f"mpf2float({rp['fmt']}, (-1)^{rp['sign']}*{rp['man']}*2^{rp['exp']}, flush={rp['flag']}) -> {got}; property demands "
              f"{'(no demand: subnormal result)' if want is None else 'bits %d' % want} [{cls}]")
        return 0 if (want is None and got.startswith("bits ")) or got == f"bits {want}" else 1
    if rp["kind"] == "call":
        args = [int(b) for b in rp["args"]]
        got, seen = real.call(rp["fmt"], rp["kw"], rp["mn"], rp["md"], rp["ex"], rp["fn"], args)
        want, cls, demand = expected_call(fm, rp["kw"], rp["fn"], args)
        print(f"vectorize_with_mpmath({rp['fn']}, flush kw={rp['kw']}, mult={rp['mn']}/{rp['md']}, extra={rp['ex']}) on bits {args} "
              f"[working precision {seen[-1] if seen else '?'}] -> {got}; property demands bits {want} [{cls}, {demand}]")
        if want is None or got == f"bits {want}":
            return 0
        if demand == "neighbour" and got.startswith("bits "):
            gb = int(got[5:])
            gm = gb & (fm.signbit - 1)
            if (gb & fm.signbit) == (want & fm.signbit) and abs(gm * fm.min_sub - abs(exact_call_value(fm, rp["fn"], args))) < fm.min_sub:
                return 0
        return 1
    print("unknown replay kind", rp["kind"])
    return 1


LEVEL_TEXT = ("Proof. Theorems (Lean kernel; every format with 2<=p<=53, p<=2^(ew-1) — float16/32/64 are instances —, every sign, "
              "mantissa of any length, exponent): the model of utils.mpf2float returns exactly round-to-nearest-even of the exact value "
              "whenever that result is a normal number (mpf2float_normal) and for every value of magnitude >= the smallest normal incl. "
              "overflow to signed infinity at max+half-ulp (mpf2float_ge_min_normal, overflow); signed zero below half the smallest "
              "subnormal (tiny, exact threshold in zero_iff); with flushing everything whose p-bit rounding is below the smallest normal "
              "gives signed zero and nothing else changes (flush_eq, flush_partial; the sliver that rounds up to the smallest normal is kept, "
              "flush_edge_witness); values representable at p bits convert exactly, subnormals included (representable_exact); the general "
              "result is the two-step rounding RNE_fmt(RNE_p(x)) (two_step), which in the subnormal range may differ from RNE_fmt(x) "
              "(witnesses; permitted by the property); the `while man > largest` and inf-retry loops are dead for the default precision "
              "(loop_dead).  The reference rounding is itself proved to be a nearest representable value with ties to even "
              "(roundV_nearest, roundV_tie_even).  Flag plumbing (full strength since fix 724e786): for every keyword value and module default "
              "the flush setting mpf2float acts on equals the requested one, False when unspecified (plumbing, plumbing_unspecified); the "
              "pre-fix behaviour is kept as regression witnesses (plumbing_regression, identity_flush_regression).  "
              "Model tied to the real code by correspondence on directed (sign, man, exp, prec) tuples (ties, overflow edge, smallest normal, "
              "every subnormal binade, precisions p..p+200, explicit prec=/rounding=), on mpmath's _normalize, numpy's dtype(int) and ldexp, "
              "the class tables, the stored flag, the working precision, and whole backend calls.")
LEVEL_NOTE = ("Trusted: Lean kernel; the hand model (validated by correspondence each run); the specifications of mpmath _normalize, numpy "
              "dtype(int) and numpy.ldexp (validated against the libraries each run); Python truthiness of a plain object.  The clause 'a "
              "function evaluated through the backend is correctly rounded' depends on mpmath's accuracy and is searched with exactly "
              "computable functions only; for inexact functions the backend rounds twice (working precision, then p bits).")
TECHNIQUE = "Lean 4 proof over an integer model of mpf2float + line-protocol correspondence with the real utils/mpmath/numpy + Fraction-oracle search"
