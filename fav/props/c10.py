"""C10 — error-free transformations are exact.

Model: every variant of add_2sum / split_veltkamp / mul_dekker / mul_dw (fpa), the inlined
copies in algorithms.py and utils.py and the apmath wrappers is TRACED through the repo's own
`fa.Context` on every run and written to lean/FAVerif/Generated/C10.lean (canonical DAGs).
Theorems (Props/C10.lean): 2Sum / Fast2Sum exactness for every precision p >= 2, every emin, any
round-to-nearest tie rule, stated on the regenerated programs via `decide`-checked ties to the
specification programs in Models/EFT.lean.
Tie: regenerated + 3-way bit-level cross-check  real eager code (NumpyContext / numpy scalars)
== independent NumPy interpreter of the program == Lean softfloat evaluation of the program.
Search: exact rational comparison on the REAL functions (all clauses, all option combinations).
"""

import json
import os
import warnings

import numpy
from fractions import Fraction

from .. import engine, fpx, softcheck
from ..runner import ROOT, Infra
from ..translate import blocks, ir

THEOREMS = ["twosum", "fast_twosum", "twosum_fix_overflow", "fast2sum_fix_overflow", "ties_add_2sum",
            "twosum_generated", "fast2sum_generated", "twosum_fix_generated", "fast2sum_fix_generated", "generated_wf",
            "twosum_bit_exact", "twosum_bit_exact_any_format", "fast2sum_bit_exact_any_format", "soft_ops_correctly_rounded", "soft_div_correctly_rounded",
            "veltkamp_split", "veltkamp_split_utils", "veltkamp_split_every_finite", "dekker_product", "dekker_product_subnormal_operands", "overflow_analyser_sound", "overflow_checks", "total_kinds", "Lmax_ge4", "twosum_total_f16", "twosum_total_f32", "twosum_total_f64", "dekker_total_f32", "dekker_total_f64", "total_kinds2", "fast2sum_total_f32", "split_total_f32", "fix_checks", "twosum_fix_total_f32", "dekker_product_utils", "dekker_product_fix_overflow", "ties_dekker_fix", "veltkamp_split_scaled", "ties_split_scaled", "dekker_product_scaled", "ties_dekker_scaled", "dekker_product_scaled_fix_overflow", "ties_dekker_scaled_fix", "split_constants", "ties_split_dekker",
            "dekker_generated", "split_generated", "soft_refines_rational", "refinement_scope", "dekker_kinds", "dekker_bit_exact_f32", "dekker_bit_exact_f16", "dekker_bit_exact_f64", "dekker_default_bit_exact_f32", "dekker_default_bit_exact_f16", "dekker_default_bit_exact_f64", "copies_agree_f16", "copies_agree_f32", "copies_agree_f64",
            "scaled_overflow_checks", "scaled_kinds", "xmax32", "xmax64", "dekker_default_total_f32", "dekker_default_total_f64", "split_scaled_kinds", "split_scaled_total_f32", "split_scaled_total_f64",
            "total_kinds3", "fast2sum_total_f16", "split_total_f16", "fast2sum_total_f64", "split_total_f64",
            "fix_checksf16", "fix_checksf64", "twosum_fix_total_f16", "twosum_fix_total_f64",
            "fast_fix_checks", "fast2sum_fix_total_f16", "fast2sum_fix_total_f32", "fast2sum_fix_total_f64",
            "dekker_fix_checks", "lmax32", "lmax64", "dekker_fix_total_f32", "dekker_fix_total_f64",
            "utils_dekker_checks", "utils_dekker_total_f32", "utils_dekker_total_f64", "utils_square_total_f32", "utils_square_total_f64",
            "apmath_two_sum_total_f16", "apmath_quick_two_sum_total_f16", "alg_add_2sum_total_f16", "alg_add_2sum_fast_total_f16", "apmath_two_sum_total_f32", "apmath_quick_two_sum_total_f32", "alg_add_2sum_total_f32", "alg_add_2sum_fast_total_f32", "apmath_two_sum_total_f64", "apmath_quick_two_sum_total_f64", "alg_add_2sum_total_f64", "alg_add_2sum_fast_total_f64", "apmath_two_prod_total_f32", "alg_square_total_f32", "apmath_two_prod_total_f64", "alg_square_total_f64",
            "utils_split_checks", "utils_split_total_f16", "alg_split_total_f16", "utils_split_total_f32", "alg_split_total_f32", "utils_split_total_f64", "alg_split_total_f64", "apmath_split_total_f32", "apmath_split_total_f64"]
SEARCHED = ["Veltkamp splitter x = xh + xl and half-significand bit bounds (all variants, scale on/off; subnormal inputs)",
            "Dekker product h + l = x*y (all variants; scale=True, fix_overflow, apmath two_prod/split, algorithms.py copies are search-only)", "fix_overflow fallbacks", "float64/float32/float16 machine arithmetic = round-to-nearest (Soft vs NumPy)"]
TRUSTED = [
    "Lean 4 kernel; axioms propext, Classical.choice, Quot.sound only",
    "translator fav/translate/ir.py (repo tracer -> canonical IR), cross-checked bit-for-bit against eager execution of the real functions on every run",
    "FP theory over Q: formats with unbounded exponent range above (overflow excluded by hypothesis, as the property words it); rounding = any round-to-nearest",
    "FP/Soft.lean == machine binary16/32/64 arithmetic (validated against NumPy on directed operands each run)",
]
LEVEL_TEXT = ("Proof for 2Sum and Fast2Sum (with and without fix_overflow): (1) abstract: for every precision p>=2, every emin, any round-to-nearest tie rule and all "
              "representable x, y the regenerated programs (fpa.add_2sum every option combination, the algorithms.py and utils.py copies, float16/32/64; tied by kernel-checked "
              "node-for-node equality to the specification programs) return (RN(x+y), x+y-RN(x+y)) exactly (Fast2Sum under |x|>=|y|); (2) bit-exact: the softfloat "
              "add/sub/mul are proved correctly rounded (value = rne(exact), rne proved to be a round-to-nearest), so the same exactness holds for the BIT-PATTERN evaluation "
              "of the traced program for all finite operands whenever no intermediate operation overflows. "
              "Proof for Veltkamp's splitter and Dekker's product: for every precision p, every emin, any round-to-nearest and every NORMAL operand, absent overflow, "
              "the regenerated fpa.split_veltkamp / utils.split_veltkamp (C = 2^s+1, any 1<=s<p) return xh + xl = x exactly with xh on the grid 2^(e+s) (p-s bits) and "
              "|xl| <= 2^(s-1) ulp (s-1 bits and a sign); fpa.mul_dekker(scale=False), utils.multiply_dekker, utils.square_dekker (p <= 2s <= p+2, s+2 <= p; the "
              "constants of float16/32/64 are checked to be 2^ceil(p/2)+1) return h = RN(x*y) and h + l = x*y exactly when the product's error term cannot underflow — "
              "every partial product and partial sum is shown representable. (3) Refinement theorem soft_refines_rational: for EVERY program of the arithmetic/comparison/select "
              "fragment, every format and input, the bit-exact softfloat run refines the run over Q with round-to-nearest-even whenever all float nodes are finite; through it "
              "Dekker's product is exact ON BIT PATTERNS for the regenerated mul_dekker in float16/32/64 (dekker_bit_exact_*) and, with its DEFAULT options (dekker_default_bit_exact_f16/f32/f64). mul_dekker(fix_overflow=True) keeps the exact pair whenever |xh*yh| does not exceed the largest finite value (dekker_product_fix_overflow, ties_dekker_fix). split_veltkamp(scale=True) satisfies the same statement for every normal |x| <= x_max (veltkamp_split_scaled, ties_split_scaled: scaling by 2^-t and back is exact). mul_dekker with its default options (scale=True) is exact for normal |x|, |y| <= x_max (dekker_product_scaled, ties_dekker_scaled). The copies (apmath two_sum / quick_two_sum / split / two_prod; the algorithms.py and utils.py copies) return, for EVERY input pattern, the same bit patterns as the functions above (copies_agree_f16/32/64), so the theorems hold for them too. scale=True with fix_overflow=True likewise (dekker_product_scaled_fix_overflow): the whole option matrix of mul_dekker is covered. The apmath and algorithms.py copies (they carry "
              "non-finite constants and selects) over Q are decided by exact-rational search on the real functions (bit level: copies_agree). UNCONDITIONAL ON EXPLICIT BOXES (Props/C10Total.lean): a verified overflow analyser (Models/Overflow.lean: per node an exponent k with |value| <= 2^k in the Q-run, from exponent bounds on the inputs; sound because powers of two are representable and rounding is monotone, Lemmas/OverflowSound.lean) + the forward refinement theorem (if the Q-run stays within +-Lmax the bit-exact run exists and is finite everywhere) + the no-overflow lemmas add/sub/mul/div_finite turn 'whenever no node overflows' into a kernel-evaluated check (overflow_checks): twosum_total_f16/f32/f64 — for ALL finite patterns with |x|,|y| <= 2^10 / 2^122 / 2^1018 the run of add_2sum exists, is finite, and value(s) = RNE(x+y), value(s)+value(t) = x+y; dekker_total_f32/f64 — for all normal patterns with |x|,|y| <= 2^46 / 2^479 and ex+ey >= emin the run of mul_dekker exists, is finite, and h = RNE(xy), h + l = xy; fast2sum_total / split_total for float16/32/64; and, with the analyser made condition-aware (input lower bounds, known comparisons, select on a known condition: Props/C10ScaledTotal.lean), dekker_default_total_f32/f64 — mul_dekker with its DEFAULT options (scale=True) for ALL normal |x|,|y| <= 2^46 / 2^479 — and split_scaled_total_f32/f64 (|x| <= 2^111 / 2^992). Subnormal operands: the unscaled splitters are exact on EVERY representable x including subnormals and zero (veltkamp_split_every_finite: veltkamp_gen is proved on the 2^emin lattice), and the unscaled Dekker product is exact with subnormal operands under the one documented condition ex + ey >= emin (dekker_product_subnormal_operands); for the scaled variants subnormal operands are decided by search.")
LEVEL_NOTE = ("Overflow excluded by hypothesis as the property words it. Softfloat == machine arithmetic is validated by a 3-way bit-level cross-check each run "
              "(and its add/sub/mul/div are proved correctly rounded). Splitter/Dekker: theorems for all option combinations on normal operands and for the unscaled variants also on subnormal operands; |x| > x_max and scaled variants on subnormal operands by search.")
TECHNIQUE = "Lean 4 proof (Flocq-style FP theory over Q) on translator-regenerated DAGs + bit-level 3-way correspondence + exact-rational search"

FMTS = ["float16", "float32", "float64"]
SUF = blocks.SUFFIX


# ----------------------------------------------------------------------------- variants

def _trace_expr_fn(fn_builder, nargs, fmt):
    return engine.trace_expr_fn(fn_builder, nargs, fmt, names=list("xyzw")[:nargs])


def variants():
    """name -> dict(nargs, trace(fmt)->prog, eager(fmt, arrays)->list of arrays, clause, opts)"""
    from functional_algorithms import algorithms as alg
    from functional_algorithms import apmath
    from functional_algorithms import floating_point_algorithms as fpa
    from functional_algorithms import utils

    V = {}

    # documented defaults of the pinned version (NOT read from the code under test): an option equal to its default is passed by
    # omission, so that the default values in the signatures are exercised too (cf. the mutant that changed a default in apmath.multiply)
    DEFAULTS = dict(add_2sum=dict(fast=False, fix_overflow=False), split_veltkamp=dict(scale=False), mul_dekker=dict(scale=True, fix_overflow=False))

    def fpa_variant(name, fname, nargs, clause, module=None, **kw):
        call_kw = {k: v for k, v in kw.items() if DEFAULTS.get(fname, {}).get(k, object()) != v}
        V[name] = dict(nargs=nargs, clause=clause, opts=kw,
                       trace=lambda fmt: blocks.trace_fpa(fname, nargs, fmt, module=module, **call_kw),
                       eager=lambda fmt, args: getattr(module or fpa, fname)(utils.NumpyContext(blocks.DTYPES[fmt]), *args, **call_kw))

    for fast in (False, True):
        for fix in (False, True):
            nm = "add_2sum" + ("_fast" if fast else "") + ("_fix" if fix else "")
            fpa_variant(nm, "add_2sum", 2, "fast2sum" if fast else "twosum", fast=fast, fix_overflow=fix)
    for scale in (False, True):
        fpa_variant("split_veltkamp" + ("_scale" if scale else ""), "split_veltkamp", 1, "split", scale=scale)
    for scale in (False, True):
        for fix in (False, True):
            nm = "mul_dekker" + ("_scale" if scale else "") + ("_fix" if fix else "")
            fpa_variant(nm, "mul_dekker", 2, "dekker", scale=scale, fix_overflow=fix)
    # apmath wrappers
    V["apmath_two_sum"] = dict(nargs=2, clause="twosum", opts={},
                               trace=lambda fmt: _trace_expr_fn(lambda ctx, x, y: apmath.two_sum(ctx, x, y), 2, fmt),
                               eager=lambda fmt, a: apmath.two_sum(utils.NumpyContext(blocks.DTYPES[fmt]), *a))
    V["apmath_quick_two_sum"] = dict(nargs=2, clause="fast2sum", opts={},
                                     trace=lambda fmt: _trace_expr_fn(lambda ctx, x, y: apmath.quick_two_sum(ctx, x, y), 2, fmt),
                                     eager=lambda fmt, a: apmath.quick_two_sum(utils.NumpyContext(blocks.DTYPES[fmt]), *a))
    V["apmath_split"] = dict(nargs=1, clause="split", opts=dict(scale=True),
                             trace=lambda fmt: _trace_expr_fn(lambda ctx, x: fpa.split_veltkamp(ctx, x, scale=True, dtype=blocks.DTYPES[fmt]), 1, fmt),
                             eager=lambda fmt, a: apmath.split(utils.NumpyContext(blocks.DTYPES[fmt]), *a))
    V["apmath_two_prod"] = dict(nargs=2, clause="dekker", opts=dict(scale=True),
                                trace=lambda fmt: blocks.trace_fpa("two_prod", 2, fmt, module=apmath),
                                eager=lambda fmt, a: apmath.two_prod(utils.NumpyContext(blocks.DTYPES[fmt]), *a))
    # copies in algorithms.py (operate on Expr / arrays through operator overloading)
    for fast in (False, True):
        V["alg_add_2sum" + ("_fast" if fast else "")] = dict(
            nargs=2, clause="fast2sum" if fast else "twosum", opts={},
            trace=lambda fmt, fast=fast: _trace_expr_fn(lambda ctx, x, y: alg.add_2sum(x, y, fast=fast), 2, fmt),
            eager=None)

    def alg_split(ctx, x):
        C = alg.get_veltkamp_splitter_constant(ctx, ctx.constant("largest", x))
        return alg.split_veltkamp(ctx, C, x)

    def alg_square(ctx, x):
        C = alg.get_veltkamp_splitter_constant(ctx, ctx.constant("largest", x))
        xh, xl = alg.split_veltkamp(ctx, C, x)
        return alg.square_dekker(ctx, x, xh, xl)

    V["alg_split_veltkamp"] = dict(nargs=1, clause="split", opts={}, trace=lambda fmt: _trace_expr_fn(alg_split, 1, fmt), eager=None)
    V["alg_square_dekker"] = dict(nargs=1, clause="square", opts={}, trace=lambda fmt: _trace_expr_fn(alg_square, 1, fmt), eager=None)
    # copies in utils.py (numpy scalars / arrays through operator overloading)
    V["utils_add_2sum"] = dict(nargs=2, clause="twosum", opts={}, trace=lambda fmt: _trace_expr_fn(lambda ctx, x, y: utils.add_2sum(x, y), 2, fmt),
                               eager=lambda fmt, a: utils.add_2sum(*a))
    V["utils_add_fast2sum"] = dict(nargs=2, clause="fast2sum", opts={}, trace=lambda fmt: _trace_expr_fn(lambda ctx, x, y: utils.add_fast2sum(x, y), 2, fmt),
                                   eager=lambda fmt, a: utils.add_fast2sum(*a))
    V["utils_double_2sum"] = dict(nargs=1, clause="double", opts={}, trace=lambda fmt: _trace_expr_fn(lambda ctx, x: utils.double_2sum(x), 1, fmt),
                                  eager=lambda fmt, a: utils.double_2sum(*a))
    V["utils_double_fast2sum"] = dict(nargs=1, clause="double", opts={}, trace=lambda fmt: _trace_expr_fn(lambda ctx, x: utils.double_fast2sum(x), 1, fmt),
                                      eager=lambda fmt, a: utils.double_fast2sum(*a))

    def ucst(fmt):
        return utils.get_veltkamp_splitter_constant(blocks.DTYPES[fmt](1))

    V["utils_split_veltkamp"] = dict(nargs=1, clause="split", opts={},
                                     trace=lambda fmt: _trace_expr_fn(lambda ctx, x: utils.split_veltkamp(x, C=ctx.constant(ucst(fmt), x)), 1, fmt),
                                     eager=lambda fmt, a: utils.split_veltkamp(a[0], C=ucst(fmt)))
    V["utils_multiply_dekker"] = dict(nargs=2, clause="dekker", opts={},
                                      trace=lambda fmt: _trace_expr_fn(lambda ctx, x, y: utils.multiply_dekker(x, y, C=ctx.constant(ucst(fmt), x)), 2, fmt),
                                      eager=lambda fmt, a: utils.multiply_dekker(a[0], a[1], C=ucst(fmt)))
    V["utils_square_dekker"] = dict(nargs=1, clause="square", opts={},
                                    trace=lambda fmt: _trace_expr_fn(lambda ctx, x: utils.square_dekker(x, C=ctx.constant(ucst(fmt), x)), 1, fmt),
                                    eager=lambda fmt, a: utils.square_dekker(a[0], C=ucst(fmt)))
    # the DEFAULT-argument paths of the utils copies (`C=None`: the constant is computed inline from `s`) only exist for NumPy scalars, so
    # they cannot be traced; eager-only variants, decided by search (intermediate finiteness taken from the traced explicit-C program).
    # Seeded change C10_3 (`2**s - 1` in that path) was missed until these were added.
    V["utils_split_veltkamp_default"] = dict(nargs=1, clause="split", opts={}, trace=None, scalar=True, finite_from="utils_split_veltkamp",
                                             eager=lambda fmt, a: utils.split_veltkamp(a[0]))
    V["utils_multiply_dekker_default"] = dict(nargs=2, clause="dekker", opts={}, trace=None, scalar=True, finite_from="utils_multiply_dekker",
                                              eager=lambda fmt, a: utils.multiply_dekker(a[0], a[1]))
    V["utils_square_dekker_default"] = dict(nargs=1, clause="square", opts={}, trace=None, scalar=True, finite_from="utils_square_dekker",
                                            eager=lambda fmt, a: utils.square_dekker(a[0]))
    return V


# ----------------------------------------------------------------------------- generation

def generate(ctx):
    V = variants()
    progs, errors = engine.generate(ctx, V, "C10", FMTS)
    return V, progs, errors


# ----------------------------------------------------------------------------- inputs

def gen_inputs(ctx, fmt, nargs, n, clause):
    rng = ctx.rng
    p, ew, w = fpx.FMT[fmt]
    pats = fpx.directed_patterns(rng, fmt, n * nargs)
    tuples = [tuple(pats[i * nargs:(i + 1) * nargs]) for i in range(n)]
    if nargs == 2:
        # correlated pairs: nearby exponents / cancellation / ties
        for i in range(0, n, 3):
            a = tuples[i][0]
            d = fpx.decode(a, fmt)
            ef = (a >> (p - 1)) & ((1 << ew) - 1)
            ef2 = max(0, min((1 << ew) - 2, ef + rng.randrange(-p - 1, p + 2)))
            b = fpx.pattern(fmt, rng.getrandbits(1), ef2, fpx.directed_patterns(rng, fmt, 1)[0] & ((1 << (p - 1)) - 1))
            tuples[i] = (a, b)
    if clause in ("dekker", "square", "split"):
        # slivers of the significand where a wrong splitting constant or a re-associated splitter shows: just above a power of two
        # (fraction field around 2^(fb-s-1): a 2^s or 2^s - 1 multiplier leaves a (p-s+1)-bit high half there) and just below the next
        # one (fraction field within 2^(fb-s+2) of all-ones: (x + g) - g crosses the binade); all three formats, random last bits
        fb, sh = p - 1, (p + 1) // 2
        bias = (1 << (ew - 1)) - 1
        for i in range(1, n, 5):
            t = []
            for _ in range(nargs):
                ef = max(1, min((1 << ew) - 2, bias + rng.randrange(-bias // 2, bias // 2)))
                if (i // 5) % 2 == 0:
                    lo, hi = 1 << max(0, fb - sh - 2), 1 << min(fb, fb - sh + 1)
                    fr = rng.randrange(lo, hi)
                else:
                    fr = (1 << fb) - 1 - rng.randrange(0, 1 << min(fb, fb - sh + 2))
                if fmt == "float32" and rng.random() < 0.3:
                    fr = rng.randrange(1025, 2048)  # the historical sliver of the 2^s multiplier (fixed in 9c597dd)
                t.append(fpx.pattern(fmt, rng.getrandbits(1), ef, fr | (rng.getrandbits(1) if rng.random() < 0.5 else 0)))
            tuples[i] = tuple(t)
    return tuples


# ----------------------------------------------------------------------------- property oracles (real code)

def check_clause(clause, fmt, opts, ins, outs, interm_finite):
    """Returns None if the property clause holds on this input (or input outside the documented domain),
    else a short failure description.  ins/outs are bit patterns ('nan' for NaN)."""
    F = fpx.to_fraction
    p, ew, w = fpx.FMT[fmt]
    half = (p + 1) // 2
    if any(o == "nan" for o in outs):
        vals = None
    xs = [F(b, fmt) for b in ins]
    if any(v is None for v in xs):
        return None
    fix = opts.get("fix_overflow", False)
    if clause in ("twosum", "fast2sum", "double"):
        x, y = (xs[0], xs[0]) if clause == "double" else xs
        if clause == "fast2sum" and abs(x) < abs(y):
            return None
        s_true = fpx.round_ne(x + y, fmt)
        if not fpx.is_finite(s_true, fmt):
            return None  # x + y overflows: outside the domain
        if not interm_finite and not fix:
            return None  # overflow in an intermediate operation: outside the documented domain
        s, t = outs
        if s == "nan" or t == "nan" or not fpx.is_finite(s, fmt) or not fpx.is_finite(t, fmt):
            return f"non-finite result s={s} t={t} for finite x+y"
        if F(s, fmt) != F(s_true, fmt):
            return f"s != RN(x+y): {s} vs {s_true}"
        if F(s, fmt) + F(t, fmt) != x + y:
            if fix and not interm_finite and F(t, fmt) == 0:
                return None  # documented fallback: t = 0 when the intermediate z overflows
            return f"s+t != x+y (error {F(s, fmt) + F(t, fmt) - (x + y)})"
        return None
    if clause == "split":
        (x,) = xs
        if not interm_finite and not opts.get("scale", False):
            return None
        xh, xl = outs
        if xh == "nan" or xl == "nan" or not fpx.is_finite(xh, fmt) or not fpx.is_finite(xl, fmt):
            return f"non-finite halves xh={xh} xl={xl}"
        if F(xh, fmt) + F(xl, fmt) != x:
            return f"xh+xl != x (error {F(xh, fmt) + F(xl, fmt) - x})"
        bh, bl = fpx.sigbits(xh, fmt), fpx.sigbits(xl, fmt)
        if bh > half or bl > half:
            return f"halves do not fit in half the significand: bits(xh)={bh} bits(xl)={bl} > {half}"
        return None
    if clause in ("dekker", "square"):
        x, y = (xs[0], xs[0]) if clause == "square" else xs
        h_true = fpx.round_ne(x * y, fmt)
        if not fpx.is_finite(h_true, fmt):
            return None
        err = x * y - F(h_true, fmt)
        if not fpx.representable(err, fmt):
            return None  # error term not representable: outside the documented domain
        if not interm_finite and not fix:
            return None
        if not opts.get("scale", False) and clause == "dekker" and "scale" in opts:
            # documented domain of the unscaled splitter: |x|, |y| <= largest / C  (C = 2^ceil(p/2) + 1)
            lim = F(fpx.round_ne(Fraction(10) ** 400, fmt) - 1, fmt) / (2 ** half + 1)
            if abs(x) > lim or abs(y) > lim:
                return None
        h, l = outs
        if h == "nan" or l == "nan" or not fpx.is_finite(h, fmt) or not fpx.is_finite(l, fmt):
            return f"non-finite result h={h} l={l}"
        if F(h, fmt) != F(h_true, fmt):
            return f"h != RN(x*y)"
        if F(h, fmt) + F(l, fmt) != x * y:
            if fix and not interm_finite and F(l, fmt) == 0:
                return None
            return f"h+l != x*y (relative error {float((F(h, fmt) + F(l, fmt) - x * y) / (x * y)) if x * y else 0:.3e})"
        return None
    raise ValueError(clause)


# ----------------------------------------------------------------------------- run

def run(ctx):
    ctx.rule = ("per (variant, dtype): directed finite operand tuples (ties, half-significand boundaries, subnormal binades, overflow edge, the float32 "
                "13-bit sliver); non-trivial = inside the documented domain with a non-zero low word; distinct by (variant, dtype, operand bits)")
    V, progs, errors = generate(ctx)
    broken = ctx.lean_stage(["FAVerif.Props.C10", "FAVerif.Props.C10Total", "FAVerif.Props.C10ScaledTotal", "FAVerif.Props.C10Total2", "FAVerif.Props.C10Total3", "FAVerif.Props.C10Total4", "FAVerif.Props.C10Total5", "FAVerif.Props.C10Total6", "FAVerif.Props.C10Total7", "FAVerif.Props.C10Total8"], THEOREMS)
    # Soft vs machine arithmetic
    n_soft, bad = softcheck.run(ctx, ctx.scale(20000, 400000))
    ctx.obligation(f"softfloat==numpy on {n_soft} directed operations", not bad, kind="validation")
    ctx.notes["softcheck_cases"] = n_soft
    if bad:
        broken.append(ctx.broken("correspondence:Soft-vs-numpy", json.dumps(bad[:5])))

    n_per = ctx.scale(1500, 60000)
    engine.run_variants(
        ctx, V, progs, errors, FMTS,
        gen_inputs=lambda c, fmt, v, n: gen_inputs(c, fmt, v["nargs"], n, v["clause"]),
        check_clause=lambda v, fmt, t, outs, allfin, prog: check_clause(v["clause"], fmt, v["opts"], t, outs, allfin),
        n_per=n_per, broken=broken)


def replay(ctx, obj):
    rp = obj.get("replay") or {}
    if "variant" not in rp:
        print("replay names an obligation without failing input:", obj.get("obligation"))
        return 1
    V = variants()
    v = V[rp["variant"]]
    fmt = rp["fmt"]
    t = tuple(rp["inputs"])
    prog = v["trace"](fmt)
    outs_i, allfin = engine.eval_all_nodes(prog, t)
    real = engine.run_eager(v, fmt, [t])
    impl = real[0] if real else tuple(outs_i)
    fail = check_clause(v["clause"], fmt, v["opts"], t, list(impl), allfin)
    print(dict(inputs=t, outputs=impl, failure=fail))
    return 1 if fail else 0
