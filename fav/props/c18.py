"""C18 — FPU control context always restores MXCSR.

Layers: hand model lean/FAVerif/Models/Mxcsr.lean, theorems lean/FAVerif/Props/C18.lean,
correspondence = real `fpu` module (worker process, real `with`/decorator/exception
unwinding) vs. Drivers/Mxcsr.lean on the same flat op sequence; search = the property's own
clauses evaluated on the real module by the worker (restore, only-requested-bits,
arithmetic observes the mode).
"""

import json
import os
import subprocess

from ..runner import PY, REPO, ROOT, Infra

THEOREMS = ["restore", "init_inv", "restore_block", "enter_ok_iff", "only_requested", "only_requested_fresh", "fresh_enter",
            "fields", "only_requested_stale_regression"]
SEARCHED = ["arithmetic inside the body observes the requested mode / after exit the original mode (observed on real hardware)"]
TRUSTED = [
    "Lean 4 kernel; axioms propext, Classical.choice, Quot.sound only",
    "hand model Models/Mxcsr.lean of fpu.py, tied by correspondence on seeded histories (this run)",
    "CPython `with`/ContextDecorator semantics: __exit__ runs iff __enter__ returned, also on exceptions (exercised, not modelled)",
    "Intel SDM MXCSR layout (FZ=15, RC=13..14, DAZ=6, sticky flags 0..5)",
]

RNS = [None, "nearest", "down", "up", "towardszero"]
TRI = [None, True, False]


def gen_history(rng, max_depth, size):
    """Random nested history.  Contexts may be created early, entered late, re-used, re-entered
    while open (AssertionError path), used as decorators; exceptions at any depth."""
    ncreated = [0]
    budget = [size]

    def create():
        ncreated[0] += 1
        # 5th field: build the context from ONE shared MXCSRRegister instance (`r(FZ=..)`, the instance the harness also reads the
        # register with) instead of `fpu.context(..)` (a fresh instance each): per-instance state shared between contexts or
        # clobbered by a read inside the body shows only then (seeded change C18_4)
        return ["create", rng.choice(TRI), rng.choice(TRI), rng.choice(RNS), rng.random() < 0.4]

    def block(depth):
        out = []
        n = rng.randint(1, 4)
        for _ in range(n):
            if budget[0] <= 0:
                break
            budget[0] -= 1
            r = rng.random()
            if r < 0.22 or ncreated[0] == 0:
                out.append(create())
            elif r < 0.60 and depth < max_depth:
                if rng.random() < 0.55:
                    # fresh context entered immediately
                    out.append(create())
                    i = ncreated[0] - 1
                else:
                    i = rng.randrange(ncreated[0] + (1 if rng.random() < 0.03 else 0))
                out.append(["with", i, rng.choice(["with", "with", "decorator"]), block(depth + 1)])
            elif r < 0.72:
                out.append(["body", rng.choice([1, 2, 4, 8, 16, 32, 33, 63, rng.randrange(64)])])
            elif r < 0.82:
                out.append(["arith"])
            elif r < 0.90 and depth > 0:
                out.append(["raise"])
            elif depth < max_depth:
                out.append(["try", block(depth + 1)])
            else:
                out.append(["arith"])
        return out

    return block(0)


def gen_init(rng):
    r = 0x1F80
    if rng.random() < 0.3:
        r |= 1 << 15
    if rng.random() < 0.3:
        r |= 1 << 6
    r |= rng.choice([0, 0, 0, 1, 2, 3]) << 13
    if rng.random() < 0.3:
        r |= rng.randrange(64)
    return r


def run_worker(histories, inits):
    env = dict(os.environ)
    env["PYTHONPATH"] = REPO + os.pathsep + ROOT + os.pathsep + env.get("PYTHONPATH", "")
    p = subprocess.run([PY, "-m", "fav.workers.c18_worker"], input=json.dumps(dict(histories=histories, init=inits)),
                       capture_output=True, text=True, cwd=ROOT, env=env, timeout=1800)
    if p.returncode != 0:
        return None, p.stderr[-3000:]
    return json.loads(p.stdout), None


def depth_of(tree, d=0):
    m = d
    for n in tree:
        if n[0] == "with":
            m = max(m, depth_of(n[3], d + 1))
        elif n[0] == "try":
            m = max(m, depth_of(n[1], d))
    return m


def classify(ctx, res, tree, init, corr_item=None):
    """Turn property failures reported by the worker into violations."""
    for pf in res["prop"]:
        if pf["clause"] == "only-requested-bits" and pf.get("stale"):
            sig = "only-requested-bits:stale-desired-word(context created before the register changed)"
        else:
            sig = pf["clause"]
        ctx.violation(sig, f"{pf['clause']} fails on the real fpu module: {pf}", dict(history=tree, init=init, failure=pf), broken_item=corr_item)


def run(ctx):
    ctx.rule = ("seeded nested enter/exit/raise histories executed on the real fpu module with real `with` statements; "
                "non-trivial = history with nesting depth >= 2 or an exception exit or a re-used/stale context; distinct by op sequence")
    broken = ctx.lean_stage(["FAVerif.Props.C18"], THEOREMS)

    # corpus first
    histories, inits = [], []
    cdir = os.path.join(ROOT, "corpus", "C18")
    if os.path.isdir(cdir):
        for fn in sorted(os.listdir(cdir)):
            obj = json.load(open(os.path.join(cdir, fn)))
            histories.append(obj["history"])
            inits.append(obj["init"])
    n = ctx.scale(600, 40000)
    for k in range(n):
        histories.append(gen_history(ctx.rng, max_depth=ctx.rng.choice([2, 4, 8]), size=ctx.rng.choice([6, 15, 40])))
        inits.append(gen_init(ctx.rng))

    results, err = run_worker(histories, inits)
    if results is None:
        # The real module crashed on a history: find which one
        item = ctx.broken("correspondence:c18-worker", err)
        for t, i in zip(histories, inits):
            r1, e1 = run_worker([t], [i])
            if r1 is None:
                ctx.violation("worker-crash", "real fpu module raised an unexpected exception on a well-formed history: " + e1[-500:],
                              dict(history=t, init=i, stderr=e1[-1500:]), broken_item=item)
                break
        return

    # model side: one driver run over all flat op sequences
    lines = []
    for r in results:
        lines.extend(r["ops"])
    out = ctx.lean.driver("Mxcsr", lines)
    if len(out) != len(lines):
        raise Infra(f"driver returned {len(out)} lines for {len(lines)} ops")
    pos = 0
    mismatches = 0
    for r, t, i in zip(results, histories, inits):
        k = len(r["ops"])
        model = out[pos:pos + k]
        pos += k
        ops = r["ops"]
        exc_exit = any(o.startswith("exit") and o.endswith(" 1") for o in ops)
        nontrivial = depth_of(t) >= 2 or exc_exit or any("AssertionError" in o for o in r["obs"])
        ctx.case(key=" ".join(ops), nontrivial=nontrivial)
        ctx.count("depth=%d" % depth_of(t))
        for o in ops:
            ctx.count("op:" + o.split()[0])
        for o in r["obs"]:
            ctx.count("out:" + o.split()[0])
        ctx.traces_validated += 1
        ctx.sample(dict(init=i, ops=ops, observed=r["obs"]), limit=3)
        corr_item = None
        if model != r["obs"]:
            mismatches += 1
            j = next(j for j in range(k) if model[j] != r["obs"][j])
            if mismatches <= 3:
                corr_item = ctx.broken("correspondence:Mxcsr",
                                       json.dumps(dict(init=i, history=t, ops=ops[: j + 1], model=model[j], impl=r["obs"][j])))
        classify(ctx, r, t, i, corr_item)
    ctx.notes["correspondence_mismatches"] = mismatches
    ctx.obligation("correspondence:Mxcsr(model == real fpu on every op of every history)", mismatches == 0, kind="correspondence")
    # broken Lean obligations: the search above (property clauses on the real module) is the directed search
    _ = broken


def replay(ctx, obj):
    rp = obj.get("replay") or {}
    if "history" not in rp:
        print("replay names an obligation without failing input:", obj.get("obligation"))
        return 1
    res, err = run_worker([rp["history"]], [rp["init"]])
    if res is None:
        print("worker crashed:", err)
        return 1
    print(json.dumps(res[0], indent=1))
    return 1 if res[0]["prop"] else 0


LEVEL_TEXT = ("Proof. Theorems (Lean kernel, all histories): on every well-nested enter/exit history — any nesting depth, any FZ/DAZ/RN "
              "arguments, contexts created early and entered late, re-used, exits caused by exceptions — each exit leaves MXCSR exactly at its "
              "value at the matching enter (restore, restore_block); entering changes only the requested fields, which take the requested "
              "values (only_requested, only_requested_fresh); the bit layout is the SDM's (fields). The model is a hand port of fpu.py tied by "
              "a correspondence check that executes seeded histories with real `with`/decorator/raise on the real module and diffs the register "
              "after every operation against the Lean driver.")
LEVEL_NOTE = ("Trusted: Lean kernel (axioms propext, Classical.choice, Quot.sound); the hand model Models/Mxcsr.lean (validated by correspondence "
              "each run); CPython's with-statement protocol; the SDM layout. The effect of the mode on arithmetic is observed on hardware, not proved.")
TECHNIQUE = "Lean 4 invariant proof over a register state machine + line-protocol correspondence with the real fpu module"
