"""C09 — code generation is deterministic and history independent.

Layers
  * translator : `ast` census of nondeterminism / hidden-state sources (fav/props/c09_census.py)
                 -> lean/FAVerif/Generated/C09Census.lean; theorem `census_audited` (kernel `decide`)
                 states that it equals the hand-audited list lean/FAVerif/Models/C09Audited.lean.
  * model      : lean/FAVerif/Models/RefNames.lean (reference-name allocation with explicit Ambient),
                 theorems in lean/FAVerif/Props/C09.lean.
  * correspondence : (a) seeded histories of symbol / constant / node / reference / call / ref operations on a
                 real `fa.Context` vs Drivers/RefNames.lean; (b) snapshots of REAL pipeline requests: the
                 context's expression table + every top-level `make_ref` call of the printer, replayed in
                 the model; (c) the Lean negation witness of noninterference replayed on the real code.
  * search     : sha-256 of graph.tostring(target) for every (function, signature, target), in subprocesses
                 under different PYTHONHASHSEED values, shuffled / repeated orders, dirty process state,
                 interleaved contexts, retrace in one context.  Any digest difference is a violation.
"""

import concurrent.futures
import difflib
import json
import os
import re
import subprocess

from ..runner import PY, REPO, ROOT, Infra
from . import c09_census

THEOREMS = ["census_audited", "audited_admissible", "seed_irrelevant", "tmp_unprinted", "noninterference",
            "noninterference_needs_guard", "order_equivariant", "key_order_equivariant", "retrace_idempotent",
            "rebuild_hits", "consumers_perm_invariant", "suffix_clash_witness", "no_listed_findings"]
SEARCHED = [
    "text identical across PYTHONHASHSEED values and processes (CPython hashing, id(), allocation order: not modelled)",
    "text independent of request order / repetitions / other contexts, targets, functions used earlier in the process",
    "text identical when the same function is traced twice in one fresh context",
    "no emitted text contains an anonymous-symbol name (`_tmp`)",
    "apmath/lax configuration (context parameter dtypes=[...], ArrayLike arguments): text identical across >= 12 hash seeds; "
    "one `_np_dtypes.index(<arg>.dtype.type)` per class of arguments declared same-dtype (structural clause on find_dtype_index)",
    "user definitions with aliased locals (2-3 locals bound to one expression, aliases of arguments, aliases used in another order) on all five targets "
    "under >= 12 hash seeds; the first-bound local names the expression in the text (structural clause on Context.__call__)",
    "that CPython exposes no channel other than those in the census is NOT a theorem",
]
TRUSTED = [
    "Lean 4 kernel; axioms propext, Classical.choice, Quot.sound only",
    "hand model Models/RefNames.lean of make_ref / _register_reference / Context.call / make_symbol, tied by correspondence on seeded histories and on real pipeline snapshots (this run)",
    "census scanner fav/props/c09_census.py (ast based; syntactic set-type inference) and the human dispositions in Models/C09Audited.lean",
    "CPython: dict insertion order, f_locals order = code-object order, str ordering by code point; external clang-format / black are deterministic",
]
LEVEL_TEXT = ("Proof (partial). Theorems (Lean kernel, all operation histories): in a model of reference-name allocation whose hidden state is explicit "
              "(process-global `_tmp` counter, definition registry, warn cache, other contexts' counters, and a permutation applied to every read of a "
              "hash-keyed container) the names a tracing request emits do not depend on the ambient state (noninterference, seed_irrelevant), "
              "provided no emitted name reaches an anonymous symbol (tmp_unprinted; the guard is necessary: noninterference_needs_guard, replayed on the "
              "real code); relabelling construction counters only relabels the counter tokens of generated names and never changes the registered names "
              "or the order of commutative operands (order_equivariant, key_order_equivariant); asking again returns the same names without changing the "
              "registry (retrace_idempotent, rebuild_hits). The list of hidden-state reads is tied to the source: census_audited is a kernel-checked "
              "equality between the census regenerated from the current source and the audited list; a new id(), hash(), set iteration or module-level "
              "counter breaks it by name. The cross-process clauses (hash seeds, id(), allocation order) are decided by differential runs.")
LEVEL_NOTE = ("Partial: the theorems are about the allocation model (tied by correspondence on seeded histories and on real pipeline snapshots), not about "
              "CPython; that CPython exposes no other channel is not a theorem. The rewriter and printers are covered by the census + sha search only.")
TECHNIQUE = "Lean 4 noninterference / equivariance / idempotence proofs over a state machine with explicit ambient state + regenerated nondeterminism census (kernel decide) + line-protocol correspondence + cross-process sha-256 differential search"

WORK = os.path.join(ROOT, ".work", "c09")
AUDITED = os.path.join(ROOT, "lean", "FAVerif", "Models", "C09Audited.lean")
NWORKERS = 14


# ----------------------------------------------------------------------------- plumbing

def worker(doc, hashseed="0", timeout=1500):
    env = dict(os.environ)
    env["PYTHONPATH"] = REPO + os.pathsep + ROOT + os.pathsep + env.get("PYTHONPATH", "")
    env["PYTHONHASHSEED"] = str(hashseed)
    env["PYTHONDONTWRITEBYTECODE"] = "1"
    # clang-format is made UNAVAILABLE for every configuration (the worker drops every PATH entry that has one):
    # utils.format_cpp then returns the unformatted text deterministically.  The external formatter needs gigabytes on the
    # large graphs and a memory/time-limited run could fail differently under load; unformatted text is at least as sensitive.
    p = subprocess.run([PY, "-m", "fav.workers.c09_worker"], input=json.dumps(doc), capture_output=True, text=True,
                       cwd=ROOT, env=env, timeout=timeout)
    if p.returncode != 0:
        return None, p.stderr[-3000:]
    try:
        return json.loads(p.stdout), None
    except json.JSONDecodeError:
        return None, "worker wrote non-JSON output: " + p.stdout[-1500:]


def pool_map(fn, items):
    with concurrent.futures.ThreadPoolExecutor(max_workers=NWORKERS) as ex:
        return list(ex.map(fn, items))


# ----------------------------------------------------------------------------- translator

def generate(ctx):
    entries = c09_census.census(REPO)
    ctx.lean.write_generated("C09Census.lean", c09_census.to_lean(entries))
    os.makedirs(WORK, exist_ok=True)
    with open(os.path.join(WORK, "census.json"), "w") as f:
        json.dump(entries, f, indent=0)
    return entries


def census_diff(entries):
    try:
        audited = c09_census.parse_lean_entries(open(AUDITED).read())
    except OSError:
        audited = []
    a, e = set(audited), set(tuple(x) for x in entries)
    new = sorted(e - a)
    missing = sorted(a - e)
    return new, missing, audited


# ----------------------------------------------------------------------------- history generator (correspondence)

NAMES = ["r", "x", "y", "mx", "a", "s", "_r_0_", "__hypot_1_r_0_", "_x_0_", "add_x_y", "abs_x", "constant_f1", "z", "sq"]
FEW = ["r", "x", "_r_0_", "__f_1_r_0_"]
SYMS = ["x", "y", "z", "w", "r"]
TYPS = ["float", "complex", "float32", "float64", "boolean"]
FUNCS = ["hypot", "square", "f", "a_1", "real_asin"]
KINDS = ["add", "subtract", "multiply", "divide", "negative", "absolute", "sqrt", "square", "maximum", "select", "lt",
         "logical_and", "hypot", "log1p", "complex", "real", "imag"]
VALUES = [0, 1, 2, -1, True, False, 1.0, 0.5, 2.0, -0.0, 0.0, 1e300, "pi", "largest", "posinf", "eps", 3]


def gen_history(rng, size, style):
    """style: 'names' (collision heavy), 'calls' (nesting heavy), 'trace' (build phase then printer-like ref phase), 'mixed'."""
    budget = [size]

    def val():
        v = rng.choice(VALUES)
        if isinstance(v, float) and rng.random() < 0.3:
            v = rng.choice([1.5, 0.1, 1e-310, float(2 ** 70), 3.0])
        if isinstance(v, float):
            return {"f": v.hex()}
        return v

    def block(depth):
        out = []
        n = rng.randint(2, 7)
        for _ in range(n):
            if budget[0] <= 0:
                break
            budget[0] -= 1
            r = rng.random()
            wn = 0.30 if style == "names" else 0.18
            wc = 0.22 if style == "calls" else 0.08
            if r < 0.16:
                out.append(["symbol", rng.choice(SYMS), rng.choice(TYPS)])
            elif r < 0.22:
                out.append(["const", val(), rng.randrange(1 << 16)])
            elif r < 0.22 + 0.25:
                k = rng.choice(KINDS)
                out.append(["node", k, [rng.randrange(1 << 16) for _ in range(3)]])
            elif r < 0.47 + wn:
                pool = FEW if style == "names" else NAMES
                if rng.random() < 0.55:
                    out.append(["name", rng.randrange(1 << 16), rng.choice(pool)])
                else:
                    out.append(["autoblock", [[rng.randrange(1 << 16), rng.choice(pool)] for _ in range(rng.randint(1, 4))]])
            elif r < 0.47 + wn + wc and depth < 3:
                out.append(["call", rng.choice(FUNCS), block(depth + 1)])
            elif r < 0.47 + wn + wc + 0.04:
                out.append(["bump", rng.randint(1, 12)])
            elif r < 0.47 + wn + wc + 0.07:
                out.append(["defaultlike"])
            elif style != "trace" or depth == 0:
                out.append(["ref", rng.randrange(1 << 16)])
            else:
                out.append(["node", rng.choice(KINDS), [rng.randrange(1 << 16) for _ in range(3)]])
        return out

    ops = [["symbol", "x", "float"], ["symbol", "y", "float"]] + block(0)
    if style == "trace":
        ops = [o for o in ops if o[0] != "ref"]
        refs = [["ref", rng.randrange(1 << 16)] for _ in range(rng.randint(4, 14))]
        ops = ops + refs + (ops + refs if rng.random() < 0.5 else refs)  # retrace in the same context
    return dict(dct=rng.choice([None, None, "float32", "DType"]), pre_tmp=rng.choice([0, 0, 1, 3, 11]),
                perm=rng.choice(["id", "rev"]), ops=ops, style=style)


def count_ops(ctx, ops, depth=0):
    for o in ops:
        ctx.count("op:" + o[0])
        if o[0] == "call":
            ctx.count("call-depth=%d" % (depth + 1))
            count_ops(ctx, o[2], depth + 1)


def run_driver_sessions(ctx, sessions):
    """sessions: list of dict(lines, obs).  Returns list of (index of first mismatch or None, model lines)."""
    lines = []
    for s in sessions:
        lines.extend(s["lines"])
    if not lines:
        return []
    out = ctx.lean.driver("RefNames", lines)
    if len(out) != len(lines):
        raise Infra(f"driver RefNames returned {len(out)} lines for {len(lines)} ops")
    res, pos = [], 0
    for s in sessions:
        k = len(s["lines"])
        model = out[pos:pos + k]
        pos += k
        res.append(model)
    return res


def correspondence(ctx):
    mism = 0
    items = []
    # ---- (a) seeded histories on a real fa.Context -----------------------------------------------
    hist = []
    cdir = os.path.join(ROOT, "corpus", "C09")
    if os.path.isdir(cdir):
        for fn in sorted(os.listdir(cdir)):
            if fn.endswith(".json"):
                obj = json.load(open(os.path.join(cdir, fn)))
                if "history" in obj:
                    hist.append(obj["history"])
    ncorpus = len(hist)
    n = ctx.scale(240, 6000)
    for k in range(n):
        style = ["names", "calls", "trace", "mixed"][k % 4]
        hist.append(gen_history(ctx.rng, ctx.rng.choice([8, 20, 45, 90]), style))
    chunks = [hist[i::NWORKERS] for i in range(NWORKERS) if hist[i::NWORKERS]]
    seeds = [str(ctx.rng.randrange(1, 2 ** 32 - 1)) for _ in chunks]
    results = pool_map(lambda a: worker(dict(mode="corr", histories=a[0]), hashseed=a[1]), list(zip(chunks, seeds)))
    sessions, owners = [], []
    for (chunk, seed), (res, err) in zip(zip(chunks, seeds), results):
        if res is None:
            item = ctx.broken("correspondence:c09-worker(corr)", err)
            items.append(item)
            continue
        for h, r in zip(chunk, res["results"]):
            sessions.append(r)
            owners.append((h, seed))
    models = run_driver_sessions(ctx, sessions)
    for (h, seed), s, model in zip(owners, sessions, models):
        ctx.traces_validated += 1
        nref = sum(1 for l in s["lines"] if l.startswith("ref "))
        collided = any(re.match(r"name _.*_\d+_$", o) for o in s["obs"])
        ctx.case(key="H:" + "|".join(s["lines"][1:]), nontrivial=collided or any(l.startswith("call ") for l in s["lines"]))
        ctx.count("history-style:" + h.get("style", "corpus"))
        ctx.count("history-with-suffix-collision" if collided else "history-without-collision")
        ctx.count("refs", nref)
        count_ops(ctx, h["ops"])
        ctx.sample(dict(kind="history", lines=s["lines"][:25], observed=s["obs"][:25]), limit=2)
        if model != s["obs"]:
            mism += 1
            j = next(j for j in range(len(model)) if model[j] != s["obs"][j])
            if mism <= 3:
                items.append(ctx.broken("correspondence:RefNames(history)", json.dumps(dict(
                    hashseed=seed, history=h, lines=s["lines"][: j + 1], model=model[j], impl=s["obs"][j]))))
    ctx.notes["history_corpus"] = ncorpus
    # ---- (b) snapshots of real pipeline requests -------------------------------------------------
    reqs, err = worker(dict(mode="requests"))
    if reqs is None:
        raise Infra("cannot enumerate requests: " + str(err))
    reqs = reqs["requests"]
    pick = list(reqs)
    ctx.rng.shuffle(pick)
    pick = pick[: ctx.scale(48, len(pick))]
    chunks = [pick[i::NWORKERS] for i in range(NWORKERS) if pick[i::NWORKERS]]
    results = pool_map(lambda c: worker(dict(mode="snapshot", requests=c), hashseed=str(ctx.seed % 1000 + 1)), chunks)
    sessions, owners = [], []
    for chunk, (res, err) in zip(chunks, results):
        if res is None:
            items.append(ctx.broken("correspondence:c09-worker(snapshot)", err))
            continue
        for r in res["results"]:
            if "skipped" in r:
                ctx.count("snapshot-skipped:" + r["skipped"])
                continue
            for s in r["sessions"]:
                sessions.append(s)
                owners.append(r)
    models = run_driver_sessions(ctx, sessions)
    unsafe_printed = []
    for r, s, model in zip(owners, sessions, models):
        ctx.traces_validated += 1
        ctx.count("snapshot-session")
        ctx.count("snapshot-make_ref-calls", sum(1 for l in s["lines"] if l.startswith("ref ")))
        ctx.case(key="S:" + json.dumps(r["req"]) + str(len(s["lines"])), nontrivial=True)
        bad = None
        for j, (l, o, m) in enumerate(zip(s["lines"], s["obs"], model)):
            if l.startswith("safe "):
                # tmp_unprinted on the real run: a name the model flags as tmp-reaching must not be in the text
                if m != "safe true":
                    ctx.count("snapshot-unsafe-ref(computed, must be unprinted)")
                    if s["intext"].get(str(j)):
                        unsafe_printed.append(dict(req=r["req"], line=s["lines"][j + 1], name=s["obs"][j + 1]))
                continue
            if o != m and bad is None:
                bad = j
        if bad is not None:
            mism += 1
            if mism <= 3:
                items.append(ctx.broken("correspondence:RefNames(pipeline-snapshot)", json.dumps(dict(
                    req=r["req"], line=s["lines"][bad], model=model[bad], impl=s["obs"][bad]))))
    ctx.sample(dict(kind="pipeline-snapshot", requests=len(owners), example=owners[0]["req"] if owners else None), limit=3)
    ctx.obligation("tmp_unprinted(real pipeline): every make_ref call the model flags as reaching an anonymous symbol returns a name absent from the emitted text",
                   not unsafe_printed, kind="correspondence")
    if unsafe_printed:
        items.append(ctx.broken("tmp_unprinted(real pipeline)", json.dumps(unsafe_printed[:3])))
    # ---- (c) negation witness of noninterference on the real code --------------------------------
    res, err = worker(dict(mode="witness", burn=[0, 3]))
    ok = False
    if res is not None:
        nm = res["names"]
        ok = all(x["name"] == f"symbol__tmp{x['tmp']}" for x in nm) and nm[0]["name"] != nm[1]["name"]
        ctx.notes["noninterference_needs_guard_replay"] = nm
        ctx.traces_validated += 1
    ctx.obligation("witness:noninterference_needs_guard replayed on the real code (Context.default_like.ref leaks the process-global counter)", ok, kind="correspondence")
    if not ok:
        items.append(ctx.broken("witness:noninterference_needs_guard", str(res or err)))
    ctx.notes["correspondence_mismatches"] = mism
    ctx.obligation("correspondence:RefNames(model == real make_ref/_register_reference/Context.call on every op of every history and pipeline snapshot)",
                   mism == 0, kind="correspondence")
    return items, reqs


# ----------------------------------------------------------------------------- search (real code, sha-256)

_DTI = re.compile(r"\b(\w+)\.dtype\.type|dtype_index_(\w+)")


def classify_diff(a, b):
    if "_np_dtypes.index(" in a or "_np_dtypes.index(" in b:
        ia = sorted(set(re.findall(r"_np_dtypes\.index\((\w+)\.dtype\.type\)", a)))
        ib = sorted(set(re.findall(r"_np_dtypes\.index\((\w+)\.dtype\.type\)", b)))
        if ia != ib or _DTI.sub("<dtype-arg>", a) == _DTI.sub("<dtype-arg>", b):
            return "dtype-index-argument"
    ta = re.findall(r"[A-Za-z_][A-Za-z_0-9]*|\S", a)
    tb = re.findall(r"[A-Za-z_][A-Za-z_0-9]*|\S", b)
    da = [t for t in ta if t not in set(tb)]
    db = [t for t in tb if t not in set(ta)]
    toks = da + db
    if any(re.fullmatch(r"\w*_tmp\d+\w*", t) for t in toks):
        return "tmp-counter-in-text"
    if toks and all(re.fullmatch(r"_\w+_\d+_\w*|\w*_\w+_\d+_", t) for t in toks):
        return "stack-or-suffix-counter-in-text"
    if toks and all(re.fullmatch(r"[A-Za-z_]\w*_\d+", t) for t in toks):
        return "construction-counter-in-text"
    if sorted(ta) == sorted(tb):
        return "operand-order"
    return "other"


def udiff(a, b, la, lb, limit=80):
    d = list(difflib.unified_diff(a.splitlines(), b.splitlines(), la, lb, lineterm="", n=1))
    return "\n".join(d[:limit])


def make_jobs(ctx, reqs, nseeds, heavy):
    rng = ctx.rng
    jobs = []
    seeds = [0] + [rng.randrange(1, 2 ** 32 - 1) for _ in range(nseeds - 1)]
    for si, s in enumerate(seeds):
        # A: shuffled order with repetitions, dirty process state
        order = list(reqs)
        if si > 0 or True:
            rng.shuffle(order)
        plan = []
        for r in order:
            plan.append(dict(kind="fresh-twice" if rng.random() < 0.2 else "plain", req=r))
            if rng.random() < 0.1:
                plan.append(dict(kind="plain", req=rng.choice(reqs)))
        jobs.append(dict(name=f"shuffled/seed{si}", hashseed=s, dirty=rng.choice([0, 1, 5, 23]), plan=plan))
        if heavy or si % 2 == 0:
            # B: retrace twice in one fresh context
            order = list(reqs)
            rng.shuffle(order)
            jobs.append(dict(name=f"retrace/seed{si}", hashseed=s, dirty=rng.choice([0, 2]), plan=[dict(kind="retrace", req=r) for r in order]))
        if heavy or si % 2 == 1:
            # C: other contexts/targets/functions interleaved between trace, rewrite and tostring
            order = list(reqs)
            rng.shuffle(order)
            jobs.append(dict(name=f"interleave/seed{si}", hashseed=s, dirty=rng.choice([0, 7]),
                             plan=[dict(kind="interleave", req=r, others=[rng.choice(reqs) for _ in range(3)]) for r in order]))
    # D: the apmath/lax configuration (the only one that exercises Context.dtype_index / find_dtype_index / the
    # same_dtype_cache) under at least 12 hash seeds of its own, in child interpreters
    lax = [r for r in reqs if r[0] == "lax" or r[1].startswith("alias_")]
    if lax:
        for si in range(max(12, nseeds)):
            order = list(lax)
            rng.shuffle(order)
            jobs.append(dict(name=f"lax/seed{si}", hashseed=rng.randrange(1, 2 ** 32 - 1), dirty=rng.choice([0, 3]),
                             plan=[dict(kind="plain", req=r) for r in order]))
    return jobs


def run_job(job, texts=False, upto=None):
    plan = job["plan"] if upto is None else job["plan"][: upto + 1]
    return worker(dict(mode="sha", plan=plan, dirty=job["dirty"], texts=texts), hashseed=job["hashseed"])


def search(ctx, reqs, broken_items, heavy):
    nseeds = ctx.scale(8, 64)
    if heavy and ctx.quick:
        nseeds = 16
    base_job = dict(name="base", hashseed=0, dirty=0, plan=[dict(kind="plain", req=r) for r in reqs])
    jobs = make_jobs(ctx, reqs, nseeds, heavy)
    results = pool_map(lambda j: run_job(j, texts=(j is base_job)), [base_job] + jobs)
    base, err = results[0]
    if base is None:
        item = ctx.broken("search:c09-worker(base)", err)
        ctx.violation("worker-crash", "the generation pipeline crashed in the base configuration: " + str(err)[-400:], dict(stderr=err), broken_item=item)
        return
    base_sha, base_text = {}, {}
    for r in base["results"]:
        base_sha[tuple(r["req"])] = r["sha"][0]
        base_text[tuple(r["req"])] = r["text"][0]
        if not r["tmpfree"]:
            ctx.count("text-with-_tmp")
    tmp_in_text = [r["req"] for r in base["results"] if not r["tmpfree"]]
    ctx.obligation("search:no emitted text contains `_tmp`", not tmp_in_text, kind="search")
    ctx.notes["requests"] = len(reqs)
    ctx.notes["requests_raising"] = sum(1 for t in base_text.values() if t.startswith("EXC:"))
    ctx.notes["hash_seeds"] = nseeds
    ctx.notes["jobs"] = len(jobs)
    ctx.sample(dict(kind="sha", req=reqs[0], sha=base_sha[tuple(reqs[0])]), limit=4)
    found = {}
    # structural clause on the dtype index (needs no luck with seeds): checked in every configuration that reports it
    struct_bad = {}
    nstruct = 0
    for job, (res, err) in zip([base_job] + jobs, results):
        for r in (res or {}).get("results", []):
            st = r.get("dtype_struct")
            if st is not None:
                nstruct += 1
                ctx.count("dtype_struct:checked")
                if not st["ok"]:
                    struct_bad.setdefault(tuple(r["req"]), (job, st))
    ctx.notes["dtype_struct_checked"] = nstruct
    ctx.obligation("search:dtype_index structural clause (one `_np_dtypes.index(<arg>.dtype.type)` per same-dtype class of arguments)",
                   not struct_bad, kind="search")
    census_dt = [b for b in broken_items if "census" in b["name"]]
    for key, (job, st) in sorted(struct_bad.items())[:2]:
        print(f"[C09] dtype-index structural clause fails for {list(key)}: same-dtype classes {st['classes']} (declared {st['declared']}) "
              f"but the text indexes _np_dtypes by {st['index_args']}", flush=True)
        ctx.violation("dtype_index:several-index-arguments-in-one-same-dtype-class(Context.dtype_index.find_dtype_index)",
                      f"lax text of {list(key)} takes _np_dtypes.index(<arg>.dtype.type) of {st['index_args']} although these arguments were "
                      f"(transitively) declared same-dtype {st['classes']}: find_dtype_index did not find the cached index of the class",
                      dict(probe="dtype_struct", req=list(key), hashseed=job["hashseed"], struct=st),
                      broken_item=census_dt[0] if census_dt else None)
        for it in census_dt[1:]:
            it["has_failing_input"] = True
    # structural clause on aliased locals (needs no luck with seeds): the FIRST-bound local names the expression
    alias_bad, nalias = {}, 0
    for job, (res, err) in zip([base_job] + jobs, results):
        for r in (res or {}).get("results", []):
            st = r.get("alias_struct")
            if st is not None:
                nalias += 1
                ctx.count("alias_struct:checked")
                if not st["ok"]:
                    alias_bad.setdefault(tuple(r["req"]), (job, st))
    ctx.notes["alias_struct_checked"] = nalias
    ctx.obligation("search:aliased locals structural clause (the first-bound local names the expression; later aliases are absent from the text)",
                   not alias_bad, kind="search")
    for key, (job, st) in sorted(alias_bad.items(), key=lambda kv: (kv[0][1], kv[0][0]))[:2]:
        print(f"[C09] aliased-locals clause fails for {list(key)} under PYTHONHASHSEED={job['hashseed']}: expected the first-bound locals "
              f"{st['first_bound']} in the text and none of the later aliases {st['later_aliases']}; missing {st['missing']}, present {st['present']}", flush=True)
        ctx.violation("alias-naming:later-bound-local-names-the-expression(Context.__call__)",
                      f"text of {list(key)}: an expression bound to several locals is named by a later-bound alias {st['present']} instead of the "
                      f"first-bound local {st['missing']} (Context.__call__ must walk the caller's locals in definition order)",
                      dict(probe="alias_struct", req=list(key), hashseed=job["hashseed"], struct=st),
                      broken_item=census_dt[0] if census_dt else None)
        # the same failing input answers a model/implementation disagreement on Context.__call__ (the `autoname` order)
        for it in census_dt[1:] + [b for b in broken_items if b["name"].startswith("correspondence:RefNames")]:
            it["has_failing_input"] = True
    for job, (res, err) in zip(jobs, results[1:]):
        if res is None:
            item = ctx.broken(f"search:c09-worker({job['name']})", err)
            ctx.violation("worker-crash:" + job["name"].split("/")[0], "the generation pipeline crashed: " + str(err)[-400:],
                          dict(job=job, stderr=err), broken_item=item)
            continue
        ctx.count("job:" + job["name"].split("/")[0])
        for k, r in enumerate(res["results"]):
            key = tuple(r["req"])
            for which, h in enumerate(r["sha"]):
                ctx.case(key=f"{job['name']}:{k}:{which}", nontrivial=not base_text[key].startswith("EXC:"))
                ctx.count("target:" + r["req"][0])
                if h != base_sha[key]:
                    chan = job["name"].split("/")[0]
                    found.setdefault((chan, key), (job, k, which))
    # report: one violation per cause signature; replay = the single step if that reproduces, else the plan prefix
    reported = set()
    examined = 0
    for (chan, key), (job, k, which) in sorted(found.items(), key=lambda kv: (kv[1][1], kv[0][0], kv[0][1])):
        if len(reported) >= 3 or examined >= 8:
            break
        examined += 1
        text, plan = None, None
        for cand in ([job["plan"][k]], job["plan"][: k + 1]):
            res, err = worker(dict(mode="sha", plan=cand, dirty=job["dirty"], texts=True), hashseed=job["hashseed"])
            if res is None:
                continue
            t = res["results"][-1]["text"][which]
            if t != base_text[key]:
                text, plan = t, cand
                break
        if text is None:
            ctx.count("flaky-difference(not reproduced)")
            sig, cls = f"text-differs:{chan}:not-reproduced-on-rerun", "unstable"
            if sig in reported:
                continue
            reported.add(sig)
            replay = dict(req=list(key), base=dict(hashseed=0, dirty=0, plan=[dict(kind="plain", req=list(key))]),
                          variant=dict(hashseed=job["hashseed"], dirty=job["dirty"], plan=job["plan"][: k + 1], step=k, which=which),
                          diff="(digest differed in the batch run but the re-run reproduced the base text: unstable output)")
        else:
            cls = classify_diff(base_text[key], text)
            # is the hash seed the cause?  re-run the very same plan under the base seed
            res0, _ = worker(dict(mode="sha", plan=plan, dirty=job["dirty"], texts=True), hashseed=0)
            same_under_seed0 = res0 is not None and res0["results"][-1]["text"][which] == base_text[key]
            cause = "hashseed" if same_under_seed0 and str(job["hashseed"]) != "0" else chan
            sig = f"text-differs:{cause}:{cls}"
            if sig in reported:
                continue
            reported.add(sig)
            d = udiff(base_text[key], text, "base(hashseed=0, canonical order, fresh process)",
                      f"{job['name']}(hashseed={job['hashseed']}, dirty={job['dirty']}, {len(plan)} step(s))")
            print(f"[C09] digest differs for {list(key)} in configuration {job['name']}:\n{d}", flush=True)
            replay = dict(req=list(key), base=dict(hashseed=0, dirty=0, plan=[dict(kind="plain", req=list(key))]),
                          variant=dict(hashseed=job["hashseed"], dirty=job["dirty"], plan=plan, step=len(plan) - 1, which=which),
                          diff=d[:6000])
        # which broken obligations does this failing input answer?  census obligations always (a new hidden-state read
        # with a text difference); model correspondence only when the difference is in the allocated names
        naming = cls in ("stack-or-suffix-counter-in-text", "tmp-counter-in-text", "construction-counter-in-text")
        answered = [b for b in broken_items if "census" in b["name"] or (naming and (b["name"].startswith("correspondence:RefNames") or b["name"].startswith("tmp_unprinted")))]
        ctx.violation(sig, f"generated text for {list(key)} differs between two configurations ({job['name']}, class {cls})", replay,
                      broken_item=answered[0] if answered else None)
        for it in answered[1:]:
            it["has_failing_input"] = True
    ctx.notes["digest_differences"] = len(found)
    probe_dtype_index(ctx, sorted({str(j["hashseed"]) for j in jobs} | {str(k) for k in range(1, 9)})[:24 if ctx.quick else 200], broken_items)


def probe_dtype_index(ctx, seeds, broken_items=()):
    """Regression clause for the defect fixed by /repo commit 05234cd (find_dtype_index iterated a SET of expression keys and
    returned the first cached index it met): a user-level algorithm with two cached indices in one same-dtype class, lax
    target, text compared across hash seeds.  Silent on a fixed tree; fires again if the set comes back."""
    res = pool_map(lambda s: worker(dict(mode="probe_dtype_index"), hashseed=s), seeds)
    texts = {}
    for s, (r, err) in zip(seeds, res):
        if r is None:
            ctx.count("probe_dtype_index:worker-failed")
            continue
        ctx.case(key=f"dtype_index:{s}", nontrivial=not r["text"].startswith("EXC:"))
        texts.setdefault(r["text"], []).append(s)
    ctx.notes["probe_dtype_index_distinct_texts"] = len(texts)
    if len(texts) > 1:
        (ta, sa), (tb, sb) = list(texts.items())[:2]
        d = udiff(ta, tb, f"PYTHONHASHSEED={sa[0]}", f"PYTHONHASHSEED={sb[0]}")
        ctx.violation("text-differs:hashseed:dtype_index-set-iteration(Context.dtype_index.find_dtype_index)",
                      "lax text of a user algorithm that calls Context.dtype_index after _assume_same_dtype depends on PYTHONHASHSEED "
                      "(find_dtype_index iterates a set of expression keys and returns the first cached index it meets)",
                      dict(probe="dtype_index", seeds=[sa[0], sb[0]], diff=d),
                      broken_item=next((b for b in broken_items if "census" in b["name"]), None))
        for it in [b for b in broken_items if "census" in b["name"]][1:]:
            it["has_failing_input"] = True


# ----------------------------------------------------------------------------- run / replay

def run(ctx):
    ctx.rule = ("search: one evaluation = one generated text (function, signature, target) in one configuration (hash seed x order x dirty state x "
                "retrace/interleave), non-trivial = the request produces text (not NotImplementedError); correspondence: one case = one seeded history "
                "on a real fa.Context or one real pipeline snapshot, non-trivial = it contains a call or a suffix collision")
    entries = generate(ctx)
    new, missing, audited = census_diff(entries)
    ctx.notes["census_entries"] = len(entries)
    for e in entries:
        ctx.count("census:" + e[0])
    broken = ctx.lean_stage(["FAVerif.Props.C09"], THEOREMS)
    census_items = [b for b in broken if "census_audited" in b["name"]]
    for e in new[:6]:
        census_items.append(ctx.broken(f"census_audited:NEW {e[0]} @ {e[1]}:{e[2]}", f"not in the audited list: {e}"))
    for e in missing[:6]:
        census_items.append(ctx.broken(f"census_audited:GONE {e[0]} @ {e[1]}:{e[2]}", f"audited entry no longer in the source: {e}"))
    ctx.obligation("census(regenerated) == audited list, entry by entry (python-side diff, names the entries)", not new and not missing, kind="translator")
    if new or missing:
        print(f"[C09] census differs from the audited list: {len(new)} new, {len(missing)} gone", flush=True)
        for e in new[:10]:
            print("   NEW ", e, flush=True)
        for e in missing[:10]:
            print("   GONE", e, flush=True)
    corr_items, reqs = correspondence(ctx)
    all_broken = census_items + [b for b in broken if b not in census_items] + corr_items
    search(ctx, reqs, all_broken, heavy=bool(all_broken))


def replay(ctx, obj):
    rp = obj.get("replay") or {}
    if rp.get("probe") == "dtype_index":
        a, _ = worker(dict(mode="probe_dtype_index"), hashseed=rp["seeds"][0])
        b, _ = worker(dict(mode="probe_dtype_index"), hashseed=rp["seeds"][1])
        if a is None or b is None or a["text"] == b["text"]:
            print("texts are identical now" if a and b else "worker failed")
            return 0 if a and b else 1
        print(udiff(a["text"], b["text"], f"PYTHONHASHSEED={rp['seeds'][0]}", f"PYTHONHASHSEED={rp['seeds'][1]}"))
        return 1
    if rp.get("probe") == "alias_struct":
        r, err = worker(dict(mode="sha", plan=[dict(kind="plain", req=rp["req"])], texts=True), hashseed=rp.get("hashseed", 0))
        if r is None:
            print("worker failed:", err)
            return 1
        st = r["results"][0].get("alias_struct")
        print(r["results"][0]["text"][0])
        print("alias_struct:", st)
        return 0 if st and st["ok"] else 1
    if rp.get("probe") == "dtype_struct":
        r, err = worker(dict(mode="sha", plan=[dict(kind="plain", req=rp["req"])], texts=True), hashseed=rp.get("hashseed", 0))
        if r is None:
            print("worker failed:", err)
            return 1
        st = r["results"][0].get("dtype_struct")
        print(r["results"][0]["text"][0])
        print("dtype_struct:", st)
        return 0 if st and st["ok"] else 1
    if "variant" not in rp:
        print("replay names an obligation without failing input:", obj.get("obligation"))
        print(obj.get("detail", "")[:2000])
        return 1
    b, v = rp["base"], rp["variant"]
    rb, eb = worker(dict(mode="sha", plan=b["plan"], dirty=b["dirty"], texts=True), hashseed=b["hashseed"])
    rv, ev = worker(dict(mode="sha", plan=v["plan"], dirty=v["dirty"], texts=True), hashseed=v["hashseed"])
    if rb is None or rv is None:
        print("worker crashed:", eb or ev)
        return 1
    tb = rb["results"][0]["text"][0]
    tv = rv["results"][v["step"]]["text"][v["which"]]
    if tb == tv:
        print("texts are identical now")
        return 0
    print(udiff(tb, tv, "base", "variant"))
    return 1
